"""Which tasks decide which property."""

UDB = "barril.units.unit_database"


def table_tasks(kind, fillers=("posc", "posc_nocat", "simple"), nchunks=7):
    out = []
    for f in fillers:
        n = 1 if f == "simple" else nchunks
        for c in range(n):
            out.append((kind, {"filler": f, "chunk": c, "nchunks": n}))
    return out


def V(fq):
    return ("verify", {"fq": fq})


PROPS = {}

PROPS["C01"] = {
    "tasks": lambda tier: table_tasks("table_c01") + [V(UDB + ":UnitDatabase.Convert"), V(UDB + ":UnitDatabase.GetInfo"), ("lemma_c01_compose", {})],
    "level": "proof",
    "level_text": "Every row of each shipped filler (1548+1548+8 units): to-base/from-base closures, executed from their real AST on a symbolic real, are total, mutually inverse and strictly increasing on all reals (6 obligations per row). UnitDatabase.Convert and GetInfo are verified against case contracts over an arbitrary well-formed registry (result = frombase_target(tobase_source(x)); same unit returns the argument itself). Round trip, path independence and order preservation for every unit pair/triple then follow from a spec-level lemma over uninterpreted conversion functions. Unbounded in values, units and registry contents.",
    "level_note": "floats are reals (exact equality proved where the property says 'up to rounding'); Python semantics as implemented by pyvc; registry invariant WF assumed for Convert/GetInfo inputs (established row by row in C14); z3 trusted",
    "trusted": [
        "z3 5.1.0 (python API); cvc5 1.0.3 only for z3's unknowns",
        "pyvc symbolic interpreter (this repository) for Python semantics",
        "floats as reals (A1): 'up to floating-point rounding' is proved as exact equality over the reals",
    ],
}

PROPS["C16"] = {
    "tasks": lambda tier: table_tasks("table_c16", fillers=("posc",)) + [V(UDB + ":UnitDatabase.GetInfo"), V(UDB + ":UnitDatabase.Convert")],
    "level": "proof",
    "level_text": "Ground, exhaustive: the real FixUnitIfIsLegacy is executed on all 1548 table symbols (never rewritten) and on every legacy spelling derivable from the substitution list (not registered itself, rewritten to exactly the current symbol, idempotent), and GetDefaultCategory/GetInfo are executed with each spelling on the table registry. Functional: GetInfo's legacy clause and Convert are verified for arbitrary names with fix as an uninterpreted function.",
    "level_note": "fix(s) for non-literal s is uninterpreted (a pure function of the text); registered symbols are assumed fix-points (invariant F1, established for the shipped table by the ground obligations); Python semantics as implemented by pyvc",
    "trusted": ["pyvc interpreter (ground evaluation of the real AST)", "z3 5.1.0 for the functional clauses"],
}

ADDCAT = UDB + ":UnitDatabase.AddCategory"
PROPS["C14"] = {
    "tasks": lambda tier: table_tasks("table_c14") + [V(UDB + ":UnitDatabase.AddUnit"), V(UDB + ":UnitDatabase.AddUnitBase"), V(UDB + ":UnitDatabase.GetValidUnits")] + VP(ADDCAT, 16),
    "level": "proof",
    "level_text": "History half: AddUnit, AddUnitBase and AddCategory are verified, for an arbitrary well-formed registry and symbolic arguments, to (a) leave the registry exactly as it was when they reject the call, (b) write exactly the entry they register (post-state given as Store terms over the pre-state), and (c) preserve every clause of the registry invariant WF at generic keys - one quantity type per symbol with list/dictionary agreement and no duplicates (W1), identity conversions for the first-listed unit (W2), categories with an existing type, default and valid units of that type, ordered limits and a default value inside them (W3) - so WF holds after any sequence of accepted and rejected registrations by induction. AddCategory additionally accepts well-formed arguments, stores the given / inherited / derived fields, and the new entry satisfies W3. Table half: the three shipped fillers are executed from their real AST and the resulting registries are checked row by row for W1-W3 (W2 for all reals by z3). Known finding: AddUnit on a quantity type without units makes a non-identity unit first-listed until AddUnitBase is called. 'Every registered unit and category can be used to build a valid Scalar' rests on Quantity.CheckValue and Scalar.CheckValidity, re-verified here as callee clauses.",
    "level_note": "AddCategory with valid_units: lists of 0-2 symbolic names (thorough) / 1 (quick) - shape-bounded; inheriting valid_units from from_category (a loop over the source category's own list of unknown length) is handled by the generic-iteration rule with the invariant instances W3/F1 of its elements; precondition: new symbols are not legacy spellings (F1); 'every registered unit and category can be used to build a valid Scalar' follows from W1/W3 with Quantity.__init__'s contract (C05/C07) and is replayed natively by the registry_history probe, not proved as one obligation; floats are reals; induction over histories is the meta-step A9",
    "trusted": ["z3 5.1.0", "pyvc symbolic interpreter; registry dictionaries modelled as arrays (pyvc/registry.py)"],
}

def VP(fq, n):
    return [("verify", {"fq": fq, "part": i, "nparts": n}) for i in range(n)]


SC = "barril.units._scalar:Scalar"
QM = "barril.units._quantity"
PROPS["C02"] = {
    "tasks": lambda tier: [V(UDB + ":UnitDatabase.Convert"), V(UDB + ":UnitDatabase._ConvertWithExp"), V(UDB + ":UnitDatabase.Convert#exponent-forms"), V(UDB + ":UnitDatabase.GetInfo"), V(QM + ":Quantity.ConvertScalarValue"), V(QM + ":Quantity.__init__"), *VP(QM + ":ObtainQuantity", 16), V(SC + ".GetAbstractValue"), V("barril.units._abstractvaluewithquantity:AbstractValueWithQuantityObject.CreateCopy"), V("barril.units._array:Array.GetAbstractValue"), V("barril.units._abstractvaluewithquantity:AbstractValueWithQuantityObject.__init__#forms")] + VP("barril.units._fixedarray:FixedArray#operations", 15) + VP("barril.units.unit_system_manager:UnitSystemManager#operations", 12) + VP("barril.units._fraction_scalar:FractionScalar#like-a-scalar", 7),
    "level": "proof",
    "level_text": "Functional contracts, proved of the real bodies for arbitrary well-formed registries and all values: UnitDatabase.Convert (float/int/list/tuple/ndarray, elementwise, kind preserving) = conv; Quantity.ConvertScalarValue; Quantity.__init__ establishes the cached to-base function; ObtainQuantity resolution; Scalar.GetAbstractValue (own unit returns the stored value for simple and derived quantities) and CreateCopy on Scalars keep category. Array.GetValues (list, tuple, ndarray of unbounded length; sequences of tuples shape-bounded) = conv elementwise in a new container of the same kind, own unit / no unit returns the stored container; FixedArray.IndexAsScalar / ChangingIndex / CreateCopy(unit) (C11 contract); UnitSystemManager.ConvertToCurrent / ConvertScalarToCurrent (category kept); FractionScalar.GetValue (to within 1e-8, scale-only units); an object built from a category alone in a given unit carries the category default (construction-forms contract, Scalar(category, unit=u) included). Amounts in a power of a unit - UnitDatabase.Convert with (unit, exponent) lists/tuples on either side, the route Quantity.Convert takes for derived quantities - follow v [u**e] = v * r**e [w**e] for every scale-only pair with ratio r, every finite v (zero and negative included) and every integer e != 0 (math.pow kept uninterpreted, its laws instantiated on the applications the path makes, A15). ChangeScalars is a two-line wrapper over CreateCopy(value, unit) and is not separately under contract.",
    "level_note": "floats are reals; WF/QI assumed for inputs",
}

PROPS["C08"] = {
    "tasks": lambda tier: [V(SC + ".__lt__#ordering"), ("lemma_c01_compose", {}), V("barril.units:value-objects#equality"), V("barril.units.unit_system:UnitSystem#equality"), V(QM + ":Quantity#value-semantics"), V("barril.basic.fraction._fraction_value:FractionValue#amount")] + [("verify", {"fq": "barril.basic.fraction._fraction:Fraction#rational-arithmetic", "part": i, "nparts": 6}) for i in range(6)] + [("verify", {"fq": "barril.units._fraction_scalar:FractionScalar#like-a-scalar", "part": i, "nparts": 7}) for i in range(7)],
    "level": "proof",
    "level_text": "Ordering: Scalar <, <=, >, >= evaluated through Python's rich-comparison dispatch on the real __lt__/__le__/__gt__/__ge__ bodies are proved equal to the same operator on value(a) and conv(unit(b)->unit(a))(value(b)) for arbitrary registered units of one quantity type, TypeError for different quantity types; with the C01 monotonicity lemma this is the order of physical amounts. FractionScalar: the same for one unit (different units by composition with the GetValue contract), TypeError across quantity types. Equality: for Quantity, Scalar, Array (unbounded length), FixedArray, Fraction, FractionValue - x == y, y == x, x != y evaluated through Python's == dispatch (subclass-first rule included) never raise against each other or against None / int / str / tuple, are symmetric and reflexive, mean 'same class, same value(s), same quantity (and dimension)', and Quantity's hash is congruent with ==. UnitSystem == / != (same id, caption, mapping and read-only flag; total, symmetric; unequal to None / str / int) is under contract; Curve and FractionScalar equality are replayed natively (probe equality) but not under contract.",
    "level_note": "floats are reals; WF/QI assumed for inputs",
}


OPS_KEY = SC + "._DoOperation#operators"
ARITH_TRUSTED = [
    "z3 5.1.0; cvc5 1.0.3 for z3's unknowns",
    "pyvc symbolic interpreter for Python semantics (operator dispatch, dict/OrderedDict, deepcopy)",
    "callee contracts used instead of bodies: UnitDatabase.Convert, _ConvertWithExp, GetInfo, ObtainQuantity, Quantity.__init__, ConvertScalarValue, Quantity.CreateEmpty - each verified against its own body; the clauses this property relies on are re-verified inside this check (callee closure). FixUnitIfIsLegacy on a non-literal string is the uninterpreted function fix (definitional; its ground behaviour is C16's table half)",
    "floats as reals (A1); a//b is floor of the real quotient",
]
PROPS["C03"] = {
    "tasks": lambda tier: VP(UDB + ":UnitDatabase.Sum", 5) + VP(UDB + ":UnitDatabase.Subtract", 5) + VP(OPS_KEY, 10) + VP("barril.units._array:Array._DoOperation#operators", 12) + [("lemma_arith", {}), V(UDB + ":UnitDatabase._ConvertMatchedValue")],
    "level": "proof",
    "level_text": "UnitDatabase.Sum/Subtract and the Scalar operators + and - (through Python's operator dispatch) are verified against a functional contract for operand quantities that are symbolic in every category, unit, exponent (unbounded integers), caption and value: the result has the left operand's categories and exponents with the matched units, the value is v1 +/- v2 re-expressed by the conversions unit -> matched unit, different dimensions raise. A log-domain lemma over the contract shows the result's base magnitude is the sum/difference of the operands' (hence a+b = b+a and (a+b)-b = a physically). Per shape (number of composing entries per operand: 0, 1, 2; thorough adds more pairs) this is a complete proof; across shapes it is a bound. An entry re-expressed with an exponent other than 1 scales by the unit ratio raised to that exponent (scale-only pairs; through the _ConvertWithExp contract) - the defect found here (exponent ignored) is repaired by f801d71.",
    "level_note": "shape-bounded: operands with at most 2 composing entries (quick: 10 shape pairs for + and -, 9 for the others; thorough: 14); preconditions N1 (a quantity-type name that is also a category names itself) and normalised operands; Arrays (element by element, any length and container kind) through the Array operator contract shared with C10; floats are reals",
    "trusted": ARITH_TRUSTED,
}
PROPS["C04"] = {
    "tasks": lambda tier: VP(UDB + ":UnitDatabase.Multiply", 4) + VP(UDB + ":UnitDatabase.Divide", 5) + VP(UDB + ":UnitDatabase.FloorDivide", 5) + VP(OPS_KEY, 10) + VP("barril.units._array:Array._DoOperation#operators", 12) + [("lemma_arith", {}), V(UDB + ":UnitDatabase._ConvertMatchedValue"), V(SC + ".__pow__")],
    "level": "proof",
    "level_text": "UnitDatabase.Multiply/Divide/FloorDivide and the Scalar operators *, /, // are verified against a functional contract for symbolic operand quantities (all names, units, unbounded integer exponents and values symbolic): the result's composing map is exactly the merged map (exponents added/subtracted per category, entries with zero exponent or zero joined exponent dropped), its exponent per quantity type is the sum/difference of the operands', no zero exponent survives, the value is v1 op v2 after matching; division by a zero amount raises. Log-domain lemmas (every re-expressed entry contributes e*(L(u)-L(m)), any exponent) over the contract give 'base magnitudes multiply/divide' and the dimension rule for every shape up to (2,2) (thorough (3,3)). An entry re-expressed with an exponent other than 1 scales by the unit ratio raised to that exponent (scale-only pairs; through the _ConvertWithExp contract) - the defect found here (exponent ignored) is repaired by f801d71. Scalar ** n (n = 1..6, thorough ..9) is proved equal to the n-fold product built with the * operator (same composing map, caption and value).",
    "level_note": "shape-bounded as C03; preconditions N1 and normalised operands; floats are reals; a//b = floor of the real quotient",
    "trusted": ARITH_TRUSTED,
}
PROPS["C09"] = {
    "tasks": lambda tier: VP(OPS_KEY, 10) + VP(AR + "._DoOperation#operators", 12) + [V(QM + ":Quantity.CreateEmpty")]
    + [("bounded_native", {"probe": "c09_float_bounded", "props": ["C09"], "bound": "10 values x 12 numbers k x 5 operators (+ - * / //), both operand orders, Scalar / Array over list, tuple, ndarray / FixedArray, plus one integer above 2**53 (1621 evaluations)", "what": "the operators apply exactly Python's / numpy's own float operation to the stored values (bit-for-bit), which the real-number model cannot distinguish from floor(fl(a/b)) or a value routed through a rounded intermediate"})],
    "level": "proof",
    "level_text": "For a Scalar x (simple, derived or empty quantity; thorough adds two-entry derived) and a plain int/float (thorough: numpy float) k, each of k*x, x*k, x/k, x//k, x+k, k+x, x-k, k-x, evaluated through Python's binary-operator dispatch on the real __op__/__rop__/_DoOperation bodies, is proved to return a new Scalar holding x's own quantity object and the operation applied to the value; k/x and k//x are proved to go through the database division with the empty quantity (reciprocal exponents, value k/x). The same is proved for list-, tuple- and numpy-backed Arrays of unbounded length with an int/float k on either side (Array._DoOperation with the database operations' contracts, see C10). A numpy array or numpy scalar k on the LEFT of an Array is decided by numpy's dispatch, which is outside the verified code (not claimed).",
    "level_note": "numpy-left operands (numpy scalar/ndarray OP Array) not claimed; numpy division excluded; floats are reals - the bit-exactness of the float operation itself (e.g. 1.0 // 0.1 == 9.0, not floor(fl(1.0/0.1)) == 10.0) is outside the real model and covered only by a BOUNDED native stand-in (grid stated in the evidence, never counted as proved); IsNumber's isinstance test on numpy.number modelled by the interpreter's type table",
    "trusted": ARITH_TRUSTED,
}

AR = "barril.units._array:Array"
AOPS_KEY = AR + "._DoOperation#operators"
PROPS["C10"] = {
    "tasks": lambda tier: VP(AOPS_KEY, 12) + [V(UDB + ":UnitDatabase._ConvertMatchedValue")],
    "level": "proof",
    "level_text": "Array OP Array and Array OP number (OP in + - * / //) for list-, tuple- and numpy-backed values of symbolic, unbounded length: Array._DoOperation and _ValueGenerator are executed from their real AST, the per-element loop by a map rule (generic index, quantified reading of element-dependent raises), the database operations by their contracts (proved in C03/C04). Proved: the result is a new Array whose quantity is the one the Scalar operation yields, whose element j is F(a_j, b_j) for the same value function F the Scalar contract uses, whose container kind is tuple iff all iterated operands are tuples (ndarray if any operand is), independent of the operands' container kinds; empty operands give an empty result; operands of different lengths raise ValueError; different dimensions raise InvalidOperationError. Array.FromScalars and unit conversion of Arrays are not yet under contract. UnitDatabase._ConvertMatchedValue (the re-expression step of the operations) is verified for float, list, tuple and ndarray values: elementwise scaling by ratio**exponent in a new container of the same kind, the operand's container never written. Conversions: the clauses of UnitDatabase.Convert (list / tuple / ndarray values) and Array.GetAbstractValue are re-verified here as callee clauses. Numpy-backed Arrays of different lengths raise ValueError (repaired by 47d5416).",
    "level_note": "operand quantities: simple x simple (thorough adds derived shapes); numpy division excluded (zero elements give inf/nan, outside the real model); numpy elementwise arithmetic assumed (A5); floats are reals",
    "trusted": ARITH_TRUSTED + ["numpy: arithmetic operators act elementwise on ndarrays of equal length and raise ValueError otherwise (A5)", "callee contracts used: UnitDatabase.Sum/Subtract/Multiply/Divide/FloorDivide (verified against their bodies in C03/C04)"],
}

STD_TRUSTED = [
    "z3 5.1.0; cvc5 1.0.3 for z3's unknowns",
    "pyvc symbolic interpreter for Python semantics",
    "floats as reals (A1)",
]
PROPS["C05"] = {
    "tasks": lambda tier: [V(QM + ":Quantity._CreateDerived"), V(UDB + ":UnitDatabase.GetInfo"), V(UDB + ":UnitDatabase.Convert"), V(UDB + ":UnitDatabase.CheckCategoryUnit"), V(QM + ":Quantity.__init__"), *VP(QM + ":ObtainQuantity", 16), V(QM + ":Quantity.ConvertScalarValue"), V(SC + ".__lt__#ordering")]
    + VP(UDB + ":UnitDatabase.Sum", 5) + VP(UDB + ":UnitDatabase.Subtract", 5) + VP(OPS_KEY, 10) + VP(AOPS_KEY, 12),
    "level": "proof",
    "level_text": "Exceptional postconditions, proved of the real bodies for arbitrary well-formed registries and symbolic arguments, in both directions (raises when it must, returns when it must not): GetInfo raises InvalidUnitError iff the unit does not resolve inside the (existing) quantity type and InvalidQuantityTypeError iff the type does not exist, with the explicit Unknown exemption; Convert, Quantity.ConvertScalarValue and Scalar.GetValue inherit; CheckCategoryUnit raises iff the unit is not valid for the category on the memo-hit and the memo-miss path; Quantity.__init__/ObtainQuantity raise for a unit outside the category's quantity type (after the legacy rewrite); adding/subtracting Scalars or Arrays of different dimensions raises InvalidOperationError with dimensionless operands exempt; ordering Scalars of different quantity types raises TypeError. On every path, raising or not, the registry is proved unchanged except for consistent memo/intern-table insertions, the operand value objects and the operand quantities are unchanged (frame obligations). Quantity.CreateDerived (the validating construction of derived quantities) rejects, entry by entry, an unregistered category or a unit that is not a unit of the category's quantity type.",
    "level_note": "arithmetic shape-bounded as C03; registry invariants WF/CC assumed for inputs; FractionScalar ordering not yet under contract",
    "trusted": STD_TRUSTED,
}

PROPS["C07"] = {
    "tasks": lambda tier: VP(QM + ":ObtainQuantity", 16) + [V(QM + ":Quantity.__init__"), V(QM + ":Quantity#value-semantics"), V(QM + ":Quantity.CreateEmpty")] + VP(UDB + ":UnitDatabase.Sum", 3) + VP(UDB + ":UnitDatabase.Multiply", 4) + VP(OPS_KEY, 10),
    "level": "proof",
    "level_text": "Quantity as an immutable interned value. (1) ObtainQuantity, every request form with symbolic names (unit with/without category and caption; composing maps with 1-2 entries (thorough 3), list or tuple pairs): the result is the object interned under the request's key; a repeated request returns the identical object; the intern table after the call is exactly the old table plus the keys of this request (so requests that differ in category, unit, exponent or caption never share an entry and nothing is overwritten); the new quantity owns a fresh composing map whose pairs are lists; failures leave the table unchanged. (2) Quantity.__init__ establishes the class invariant QI. (3) copy, deepcopy, Copy, MakeCopy(), CreateCopyInstance() return the object itself; SetUnknownCaption raises ReadOnlyError; == is exactly equality of (composing map, caption), symmetric, reflexive, False (never raising) against None/int/str/tuple; hash is congruent with ==; __reduce__ rebuilds an equal quantity. (4) Frame obligations: no database operation, Scalar operator, conversion or comparison under contract writes any slot of an operand quantity other than the two lazy caches, nor its composing map.",
    "level_note": "hash() is an uninterpreted function of the ==-class (A7); pickle itself is assumed to call __reduce__'s function on copies of its arguments (A8); intern-table invariant CC(K) assumed for hits; arithmetic frames shape-bounded as C03",
    "trusted": STD_TRUSTED + ["hash of str/float/tuple is a function of the value (A7)", "pickle protocol (A8)"],
}

AVQ = "barril.units._abstractvaluewithquantity:AbstractValueWithQuantityObject"
PROPS["C15"] = {
    "tasks": lambda tier: [("table_c15_queries", {"filler": "posc"}), ("table_c15_queries", {"filler": "simple"})] + [V(UDB + ":UnitDatabase.GetInfo"), V(UDB + ":UnitDatabase.Convert"), V(UDB + ":UnitDatabase.CheckCategoryUnit"), V(UDB + ":UnitDatabase.GetDefaultCategory"), V(UDB + ":UnitDatabase.GetValidUnits"), V(AVQ + ".GetValidUnits"), V(UDB + ":UnitDatabase.AddUnit"), V(UDB + ":UnitDatabase.AddUnitBase"), V(QM + ":Quantity.ConvertScalarValue"), V(QM + ":Quantity.CheckValue"), V(QM + ":Quantity.__init__"), V(SC + ".GetAbstractValue"), V(AVQ + ".CreateCopy"), V(QM + ":Quantity#value-semantics")]
    + VP(ADDCAT, 16) + VP(QM + ":ObtainQuantity", 16) + VP(OPS_KEY, 10),
    "level": "proof",
    "level_text": "Purity as frame obligations on every function under contract: lookups (GetInfo, GetDefaultCategory, GetValidUnits, value.GetValidUnits), conversions (Convert, ConvertScalarValue, Scalar.GetValue), validity checks (CheckCategoryUnit, CheckValue), construction (Quantity.__init__, ObtainQuantity, CreateCopy), comparisons/copies and Scalar arithmetic are proved to leave the three registry dictionaries unchanged (array equality pre = post); the only writes are insert-only additions to the validity memo and the intern table. Cache invisibility: CheckCategoryUnit's memo-hit and memo-miss paths return the same verdict (memo consistent with the registry: invariant CC, proved preserved by CheckCategoryUnit and by the mutators AddUnit/AddUnitBase/AddCategory, which now clear it); ObtainQuantity's hit and miss paths return a quantity denoting the same request. Hence every answer is a function of the registry and the arguments - the same on a warm and on a fresh database (meta-step A9). Ground half (the queries without a functional contract, incl. the whole-registry listings GetUnits() / GetInfos() / GetQuantityTypes() / IterCategories(), the name lookups and checks): 67 calls of 24 read-only methods are executed from their real AST on the registries the posc and simple fillers build; after each call the registry (lists, dictionaries, UnitInfo / CategoryInfo fields, object identities) is compared with before, and each call is repeated and must answer the same.",
    "level_note": "queries not under contract: GetUnits/GetBaseUnit/GetInfos/GetUnitName (inlined where called), the unit-system manager; intern-table consistency after AddCategory(override=True) (cached quantities keep the replaced CategoryInfo) is not covered; arithmetic shape-bounded as C03",
    "trusted": STD_TRUSTED,
}
PROPS["C12"] = {
    "tasks": lambda tier: [V(QM + ":Quantity.CheckValue"), V(QM + ":Quantity.ConvertScalarValue"), V(SC + ".CheckValidity"), V("barril.units._array:Array._DoValidateValues#flat"), V("barril.units._array:Array.CreateCopy#validity-memo")] + VP("barril.units._fraction_scalar:FractionScalar#like-a-scalar", 7) + VP(ADDCAT, 16) + table_tasks("table_c14"),
    "level": "proof",
    "level_text": "Quantity.CheckValue is verified against the functional contract 'accepts exactly when the amount re-expressed in the category's default unit satisfies the limits': for a symbolic category (limits present/absent, inclusive/exclusive, symbolic reals), a symbolic unit of its type and an extended float (NaN, +inf, -inf flags) it returns iff both limits hold for y = conv(unit -> default unit)(value), otherwise raises QuantityValidationError carrying y, the violated limit (min before max) and the operator matching exclusivity, in symbols or words; NaN satisfies no limit; derived quantities are accepted. AddCategory is proved never to register a default unit outside the category's quantity type or a default value outside its own limits (W3 of the new entry, for all combinations of given / inherited / absent limits, default value and default unit), and the shipped tables satisfy the same row by row. Scalar.CheckValidity / IsValid and FractionScalar.CheckValidity are proved to be exactly CheckValue of the stored amount (derived quantities always valid). Array.CheckValidity / IsValid on flat lists, tuples and ndarrays of unbounded length whose elements are finite numbers or NaN: the real scan (skip leading NaNs, then running minimum/maximum over the same iterator) is verified with two loop invariants (every consumed element is NaN; min <= every non-NaN element seen <= max, both attained) - init, preservation and exhaustion obligations - and, with C01's monotonicity of conversions, 'accepted iff every non-NaN amount satisfies the limits' is proved for every length, order and container kind. The verdict memo of Arrays (_is_valid / _validity_exception) is covered by the representation invariant MV - a memoised verdict is the verdict of the object's own values under its own category: assumed and preserved by ValidateValues from every memo state, and established by Array.CreateCopy in all its forms (plain, unit, unit and category, new values).",
    "level_note": "unit-independence is by construction of the contract (the verdict is a function of conv(unit -> default unit)(value) only) together with C01's monotonicity lemma (assumed as a precondition where the scan needs it); floats are reals with NaN/inf flags; Array elements finite or NaN (no infinities); the tuple-of-tuples branch of the scan and the ValidateValues memo across calls are replayed natively (probe validity) but not under contract; which limit a rejected Array reports is not specified",
    "trusted": STD_TRUSTED,
}

PROPS["C19"] = {
    "tasks": lambda tier: table_tasks("table_c19", fillers=("posc",)) + [V(AVQ + ".__init__#forms"), V(SC + ".__repr__"), V(UDB + ":UnitDatabase.GetDefaultCategory")] + VP(QM + ":ObtainQuantity", 16),
    "level": "proof",
    "level_text": "AbstractValueWithQuantityObject.__init__, Scalar/Array/FixedArray.__init__, CreateWithQuantity and the _InternalCreateWithQuantity methods are executed from their real AST on symbolic value, unit and category (ObtainQuantity and GetDefaultCategory by their verified contracts): for a unit whose default category is c, the forms (v,u), (v,u,c), (c,v,u), ((v,u)) (Scalar), (ObtainQuantity(u,c), v) and CreateWithQuantity are proved to build objects with equal quantity and equal value (or all to raise the same error), for Scalar, Array (values of unbounded length) and FixedArray; the object built from a category alone is proved equal to the one built from the category's default value and default unit. The precondition 'every unit's default category is registered and has the unit's quantity type' is established exhaustively for the 1548 table units by executing the real GetDefaultCategory on the table registry, together with 'no symbol or category contains a quote or backslash'; Scalar.__repr__ for a simple quantity is proved to be exactly the text of the (value, unit, category) constructor call. ObtainQuantity's exact intern-table postcondition rules out one request disturbing what a later, different request resolves to. An object built from a category alone owns its values container (not class- or module-level state shared with other objects).",
    "level_note": "FractionScalar forms not yet under contract; eval(repr(float)) == float assumed (A12); quantity equality through Quantity.__eq__ (C07)",
    "trusted": STD_TRUSTED + ["eval(repr(x)) == x for finite floats (A12)"],
}

FA = "barril.units._fixedarray:FixedArray"
PROPS["C11"] = {
    "tasks": lambda tier: [V(FA + "._InternalCreateWithQuantity#constructors"), V("barril.curve.curve:Curve#length-invariant"), V(AVQ + ".__init__#forms")] + VP(FA + "#operations", 15),
    "level": "proof",
    "level_text": "FixedArray: with values of symbolic, unbounded length (list, tuple, ndarray) and a symbolic dimension, every constructor route - FixedArray(dim, ...), CreateWithQuantity with and without dimension, CreateEmptyArray with and without values, the construction forms of C19 - is proved to yield len(values) == dimension >= 2 or to raise ValueError (dimension below 2, length mismatch), following the real _InternalCreateWithQuantity state machine. For an existing array satisfying the invariant: CreateCopy (plain, with values, with another unit), __reduce__ + rebuild, arithmetic with a number, ChangingIndex (number, Scalar, Scalar keeping the array's unit; symbolic index incl. negative) and IndexAsScalar are proved to return a new array/Scalar satisfying the invariant with the same dimension, element j equal to the source's element j re-expressed in the result unit for every j other than the index, the supplied amount at the index, the right quantity (category kept), IndexError / unit errors otherwise - and the source array (fields, dimension, container contents) is proved unchanged on every path, raising or not. Curve: constructor, SetImage, SetDomain (also through the property, and in sequence) keep len(image) == len(domain) or raise ValueError leaving the curve untouched.",
    "level_note": "FixedArray quantities: simple; value tuple form of ChangingIndex and FixedArray op Array arithmetic are replayed natively by the fixedarray probe only; pickle assumed to rebuild from __reduce__ (A8); floats are reals",
    "trusted": STD_TRUSTED + ["pickle protocol (A8)", "numpy elementwise arithmetic (A5)"],
}
PROPS["C13"] = {
    "tasks": lambda tier: [V(SC + ".GetAbstractValue"), V(AVQ + ".CreateCopy"), V(SC + ".__lt__#ordering"), V(AVQ + ".GetValidUnits"), V(QM + ":Quantity#value-semantics"), V(QM + ":Quantity.CheckValue"), V(QM + ":Quantity.ConvertScalarValue"), V(UDB + ":UnitDatabase.Convert"), V(UDB + ":UnitDatabase._ConvertMatchedValue")] + VP(FA + "#operations", 15) + VP(OPS_KEY, 10) + VP(AOPS_KEY, 12) + VP("barril.units._fraction_scalar:FractionScalar#like-a-scalar", 7),
    "level": "proof",
    "level_text": "Frame (modifies) obligations on every value-object operation under contract, with operand containers of symbolic unbounded length in region 'parameter': Scalar GetValue / CreateCopy / comparison / all ten arithmetic operators (incl. reflected and number operands), Array arithmetic for list-, tuple- and numpy-backed values (every write inside _DoOperation, _ValueGenerator and the database operations is checked to hit only objects allocated during the call), FixedArray CreateCopy / ChangingIndex / IndexAsScalar / __reduce__ / arithmetic, Quantity copy/eq/hash/reduce, UnitDatabase.Convert (results are new containers), CheckValue. Each proves: the receiver's and the other operand's fields are the same objects/values afterwards, the container contents are unchanged (array equality of the element maps), operand quantities are unchanged, results are new objects with new containers. CreateCopy() == self and reduce-rebuild == self are proved for Scalar-like simple/derived/empty quantities and FixedArray. In-place updates (x *= k on an ndarray, l += ...) are modelled as writes to the caller's object. FractionScalar GetValue / comparison / CheckValidity leave the receiver's FractionValue and Fraction untouched. Pickle round trips of quantities rest on the composing-map clauses of ObtainQuantity (callee clauses of this property).",
    "level_note": "FractionScalar conversion / comparison / validation frames included (its formatting and the str/repr of Arrays are not under contract); numpy aliasing is modelled by container identity tokens; arithmetic shape-bounded as C03; floats are reals",
    "trusted": STD_TRUSTED + ["numpy elementwise arithmetic returns new arrays (A5)"],
}

PROPS["C20"] = {
    "tasks": lambda tier: VP(QM + ":Quantity.__init__#derived-strings", 3 if tier == "quick" else 4) + [V(QM + ":Quantity.GetUnitName"), V(AVQ + ".GetFormattedSuffix"), V(SC + ".__repr__"), V(QM + ":Quantity.__init__")],
    "level": "proof",
    "level_text": "Quantity.__init__ (derived branch) with _MakeStr, _CreateUnitsWithJoinedExponentsString and GetComposingUnitsJoiningExponents, and Quantity.GetUnitName, are executed from their real AST with a token-level string model (a string = sequence of literal text, symbolic names and symbolic integers; concatenation, f-strings, str(int), truthiness exact). For composing maps with symbolic category/unit names and symbolic non-zero integer exponents the resulting category, quantity-type, unit and unit-name strings are proved equal, token by token, to the rendering spec: factors joined per category / quantity type / unit / unit name, numerator factors separated by '.' (unit) or ' * ' (long forms), a single '/' (' / '), '1/' ('1 / ') for a pure reciprocal, exponent as suffix ('m2') or '(x) ** n', zero joined exponents omitted, on every sign / magnitude / name-coincidence path. The composing units/categories tuples mirror the map. Simple quantities store exactly their registered category, quantity type and resolved unit (Quantity.__init__ contract); Scalar.__repr__ and GetFormattedSuffix embed that unit. Complete per number of entries; bounded across it.",
    "level_note": "number of composing entries: 1-2 plus three entries sharing one unit symbol (quick), 1-3 (thorough) - shape-bounded; exponents unbounded; 'parsing recovers the joined units' is an argument over the token sequences (separators and trailing digits do not occur in atomic symbols) replayed natively by the derived_strings probe for up to 3 factors, not a solver obligation; Array str/repr not under contract",
    "trusted": ["pyvc token-level string model (pyvc/strparts.py)", "z3 5.1.0"],
}

USM = "barril.units.unit_system_manager:UnitSystemManager"
PROPS["C17"] = {
    "tasks": lambda tier: VP(USM + "#operations", 12),
    "level": "proof",
    "level_text": "UnitSystemManager and UnitSystem methods are executed from their real AST on manager states satisfying the invariant MI (every system stored under its own id, ids unique, current = None or a registered system, the manager's listener registered on exactly the current system) with symbolic ids, categories and units; callbacks follow an assumed contract of oop_ext's Callback with a ghost log of every notification. Proved for AddUnitSystem (with/without mapping, with/without template), RemoveUnitSystem (each registered system, unknown id), current = s / SetCurrent(None), UnitSystem.SetDefaultUnit / RemoveCategory on the current and on a non-current system, SetTemplateUnitSystemByUnitsMapping, ConvertToCurrent, ConvertScalarToCurrent, GetNewId: MI holds afterwards; a system added while none is current becomes current, otherwise the current one stays; removing the current system selects the first remaining one or none; a new system must cover the template's categories; each accepted call sends exactly the notifications the property names (on_current once per change of current system, on_unit_changed once per default-unit change of the current system and never for another system), with the right arguments; every system owns its mapping; a rejected call changes nothing (manager, systems, mappings, listeners) and notifies nobody; ConvertToCurrent returns conv(unit -> current default unit)(value) or the arguments unchanged; ConvertScalarToCurrent additionally keeps the category. By induction the invariant and the notification discipline hold for every history (A9).",
    "level_note": "manager states with 0-2 registered systems, one mapping entry each (shape-bounded); public SetCurrent(x) with an unregistered system x is outside the contract (would break MI); oop_ext Callback semantics assumed (A10: Register idempotent per listener, Unregister of an absent listener is a no-op, a call invokes each listener once); UpdateObjects/Register of value objects (weak references) not modelled",
    "trusted": STD_TRUSTED + ["oop_ext Callback/Singleton/interface decorators (A10), modelled in pyvc/callbacks.py"],
}

PROPS["C06"] = {
    "tasks": lambda tier: [("table_c06", {"chunk": c, "nchunks": 7}) for c in range(7)] + [V(UDB + ":UnitDatabase._ConvertWithExp"), V(UDB + ":UnitDatabase.Convert#exponent-forms"), V(SC + ".__pow__")],
    "level": "proof",
    "level_text": "Exhaustive over the shipped table: the coefficient tuples of all 1548 rows are read, as exact decimal text, from the real AST of posc.FillUnitDatabaseWithPosc on every run (and cross-checked, row by row, against the slope of the to-base closure the real code builds, executed by the interpreter). A unit symbol is decomposed by the table's own grammar (one '/', factors separated by '.', integer exponent suffixes, numeric prefixes such as 1000ft3, registered symbols as atoms; a registered 'X<e>' counts as a power of X only when named after X). For each of the ~970 decomposable rows the obligation factor(u) x c_T == product of the component factors (c_T: the same product for the quantity type's base symbol) is decided in exact rational arithmetic, and for each of the ~150 atomic rows named '<SI prefix><name of X>' the obligation factor == 10^(n.e) x factor(X); the tolerance is the precision the rows are written in (half a unit in the last written digit of every non-exact literal involved, floor 1e-9). Rows that genuinely disagree with their parts are recorded one by one as known findings (or repaired); any other row that starts to disagree - one digit in one tuple - fails its own named obligation with a native replay. The second reading of the property (a Scalar in the named unit vs the amount built from component Scalars) also needs the exponent-aware conversion that compares them: UnitDatabase._ConvertWithExp and the (unit, exponent) forms of UnitDatabase.Convert are under the power-law contract v [u**e] -> v * r**e [w**e] (proved of the real bodies for all v, all integer e != 0, scale-only pairs).",
    "level_note": "symbols with two or more '/' are written both for a/(b.c) and a/(b/c) in the table and are not read (ambiguous); affine units enter through their slope; the equivalence with 'a Scalar in the named unit equals the product/quotient of Scalars in the component units' goes through C04's magnitude lemma and is replayed natively by probe c06_row; ground arithmetic with Python Fractions (no solver)",
    "trusted": ["Python fractions.Fraction (exact rational arithmetic)", "ast.parse reads the literals CPython runs (A4); closures cross-checked by executing their real AST"],
    "technique": "contract-based deductive verification: per-row ground obligations of the table function's quantified postcondition, generated from the real AST, decided in exact rational arithmetic",
}

FRAC = "barril.basic.fraction._fraction:Fraction"
FVAL = "barril.basic.fraction._fraction_value:FractionValue"
FSC = "barril.units._fraction_scalar:FractionScalar"
PROPS["C18"] = {
    "tasks": lambda tier: VP(FRAC + "#rational-arithmetic", 6) + [V(FVAL + "#amount")] + VP(FRAC + ".__init__", 5) + VP(FSC + "#like-a-scalar", 7)
    + [("bounded_native", {"probe": "c18_bounded", "props": ["C18"], "bound": "numbers -50..50 in steps of 0.25 with fractions a/d, d in {2,3,4,8,16}; CreateFromFloat on k/64 for |k| <= 640 and on decimals with 3 digits in (-10, 10) (8971 evaluations)", "what": "str -> CreateFromString round trip; CreateFromFloat preserves the amount"})],
    "level": "proof",
    "level_text": "Proved (fractions.Fraction assumed exact, A11): Fraction with symbolic integer numerators/denominators - +, -, *, /, unary -, abs, inv, copy, float, ==, !=, <, <=, >, >= between Fractions and with integers agree with exact rational arithmetic; == with None/str/tuple is False and never raises. Fraction.__init__ on real numbers: the scaling loop is verified with the loop invariant 'a/b constant, b only grows, nothing changes unless the loop is entered' (init / preservation / exit obligations), giving |stored value - a/b| <= SMALL/|b| and exactness for integers. FractionValue: float() = number + numerator/denominator; <, <=, >, >= are the order of those amounts; == is equality of number and fraction; copy is an equal, independent copy. FractionScalar: GetValue(unit) has float(result) within SMALL of conv(float(value)) for every conversion of the form x -> r*x + offset, r > 0 (scale-only and offset units; the offset case was a defect, repaired by dfb056b); GetValue() returns the stored value; <, <=, >, >= in one unit are the order of the amounts and raise TypeError across quantity types (different units: by composition of the two contracts, not re-proved); CheckValidity behaves exactly as Quantity.CheckValue(float(value)) (same cases, same exception attributes); receivers are never modified. BOUNDED (not proved, reported apart): str/CreateFromString round trip and CreateFromFloat by exhaustive native enumeration inside the stated grid - regular expressions, locale and str(float) digit counting have no usable theory in the installed solvers.",
    "level_note": "formatting/parsing and CreateFromFloat are a bounded stand-in only (grid stated in the evidence), never counted as proved; Fraction ** and % not under contract; floats are reals; partial correctness (termination of the scaling loop not proved, A14)",
    "trusted": STD_TRUSTED + ["fractions.Fraction is an exact rational (A11), modelled in pyvc/rational.py"],
}


# ------------------------------------------------------------------------------------------------
# Callee closure.  Verification is modular: a caller's proof assumes its callees' contracts.  A property's
# check therefore also verifies, against their real bodies, the callee clauses its argument rests on, and
# counts them as its own obligations ("tag": the clause patterns that carry the property; other clauses of
# the same callee - legacy spellings, error cases - are left to the properties they belong to, so that a
# change which breaks only those does not raise an alarm here).
_GI, _CV, _CSV, _QI, _OQ = UDB + ":UnitDatabase.GetInfo", UDB + ":UnitDatabase.Convert", QM + ":Quantity.ConvertScalarValue", QM + ":Quantity.__init__", QM + ":ObtainQuantity"
_NOTCONV = ["*legacy*", "*invalid-unit*", "*no-quantity-type*"]
DEP_CONV = [
    (_GI, 1, ["*/post?direct?*", "*/post?via-category?*", "*/post?unknown?*"], [], None),
    (_CV, 1, ["*/post?same-unit?*", "*/post?from:*"], _NOTCONV, None),
    (_CSV, 1, ["*/post?own-unit?*", "*/post?to:direct?*", "*/post?to:via-category?*", "*/post?to:unknown?*"], [], None),
    (_QI, 1, ["*/post?valid-unit?*", "*/post?default-unit?*"], [], None),
]
DEP_OBTAIN = [
    (_OQ, 16, ["*/post?resolved?*", "*/post?registered/resolved?*", "*/post?single-exp1/resolved?*", "*/post?derived/interned?*", "*/intern?*"], [], None),
    (_QI, 1, ["*/post?valid-unit?*", "*/post?default-unit?*"], [], None),
]
_DBOPS = [(UDB + ":UnitDatabase.Sum", 5), (UDB + ":UnitDatabase.Subtract", 5), (UDB + ":UnitDatabase.Multiply", 4), (UDB + ":UnitDatabase.Divide", 5), (UDB + ":UnitDatabase.FloorDivide", 5)]
# number operands go through the database operations with an empty quantity on one side
DEP_DBOPS_EMPTY = [(fq, 2, ["*/post?*"], ["*different-dimensions*"], ["*empty*"]) for fq, n in _DBOPS]
# operand quantities / registry untouched by the database operations (their own frame clauses)
DEP_DBOPS_FRAME = [(fq, n, ["*/frame?operand quantities unchanged?*"], [], None) for fq, n in _DBOPS]
DEP_LEGACY = [
    (_OQ, 16, ["*/post?legacy/*"], [], None),
    (_QI, 1, ["*/post?legacy-unit?*"], [], None),
    (_CSV, 1, ["*/post?to:legacy?*"], [], None),
    (UDB + ":UnitDatabase.GetDefaultCategory", 1, ["*/post?legacy/*"], [], None),
    # category registration: legacy spellings of valid / default units end up as the current symbols
    (ADDCAT, 16, ["*/post?W3 for the new category*", "*/inv?W3*", "*/post?stored*"], [], ["*,nodv,nomin,nomax"]),
]
DEPS = {
    "C03": DEP_CONV + DEP_OBTAIN,
    "C04": DEP_CONV + DEP_OBTAIN,
    "C08": DEP_CONV,
    "C09": DEP_CONV + DEP_OBTAIN + DEP_DBOPS_EMPTY,
    "C11": DEP_CONV + DEP_OBTAIN,
    "C12": DEP_CONV,
    "C13": DEP_OBTAIN + DEP_DBOPS_FRAME,
    # the second reading of C06 builds the amount with Scalar * and /: the value clauses of Multiply / Divide and
    # of the matching step's re-expression carry it
    "C06": [(UDB + ":UnitDatabase._ConvertMatchedValue", 1, ["*/post?power/scaled*", "*/post?plain/*"], _NOTCONV, None), (UDB + ":UnitDatabase.Multiply", 4, ["*/post?result/*"], [], None), (UDB + ":UnitDatabase.Divide", 5, ["*/post?result/*", "*/post?division-by-zero?*"], [], None)],
    # the value-object routes of a conversion go through the same closures as UnitDatabase.Convert
    "C01": [(_CSV, 1, ["*/post?own-unit?*", "*/post?to:direct?*", "*/post?to:via-category?*"], [], None), (SC + ".GetAbstractValue", 1, ["*/post?*"], _NOTCONV, None)],
    # unit conversion of Arrays (every container kind) against the Scalar / database conversion
    "C10": [(_CV, 1, ["*/post?same-unit?*", "*/post?from:*"], _NOTCONV, None), ("barril.units._array:Array.GetAbstractValue", 1, ["*/post?*"], _NOTCONV, None)],
    # "every registered unit and category can be used to build a valid Scalar": the limit check itself
    "C14": [(QM + ":Quantity.CheckValue", 1, ["*/post?*"], [], None), (SC + ".CheckValidity", 1, ["*/post?*"], [], None)],
    "C15": [(fq, n, ["*/frame?*"], [], None) for fq, n in _DBOPS],
    "C16": DEP_LEGACY,
    "C17": DEP_CONV + DEP_OBTAIN,
    "C18": DEP_CONV,
    "C19": DEP_CONV,
}


def _with_deps(pid, base):
    def tasks(tier):
        out = list(base(tier))
        for fq, n, inc, exc, vf in DEPS.get(pid, []):
            tag = {"prop": pid, "include": inc, "exclude": exc}
            present = [t for t in out if t[0] == "verify" and t[1]["fq"] == fq]
            if present:
                for t in present:
                    if "tag" in t[1]:
                        t[1]["tag"]["include"] = t[1]["tag"]["include"] + inc
                    else:
                        t[1]["tag"] = dict(tag)
                continue
            for i in range(n):
                a = {"fq": fq, "tag": dict(tag)}
                if n > 1:
                    a.update(part=i, nparts=n)
                if vf:
                    a["vfilter"] = vf
                out.append(("verify", a))
        return out

    return tasks


for _pid in DEPS:
    PROPS[_pid]["tasks"] = _with_deps(_pid, PROPS[_pid]["tasks"])
    PROPS[_pid]["level_note"] = PROPS[_pid].get("level_note", "") + "; callee closure: the clauses of the conversion / interning / database-operation contracts this property's proofs assume are re-verified against their bodies in this check and counted as its obligations (tagged_dependency)"


# ------------------------------------------------------------------------------------------------
# History-dependent state that no contract describes (a cache added to the database or to a value object):
# the deductive check is *undecided* on the paths that read such a field (it never guesses); the BOUNDED
# stand-in below - a prelude of legal but unusual calls, then the native probes with history-independent
# oracles - is what can still expose a wrong cache key or a missing invalidation.  Never counted as proved.
_HIST_BOUND = "one fixed prelude of ~760 legal calls (values of the Unknown quantity type asked for real units, failed lookups and conversions, unit matching with exponents 1, 2, 3, -1, -2 for the same unit pairs in both orders and for list / tuple / ndarray values, validity queries, copies with other units) followed twice by the listed native probes in the same process"
_HIST = {
    "C02": ("history_conversions", "conversion routes (Scalar.GetValue, CreateCopy, UnitDatabase.Convert incl. exponent forms, Array.GetValues, construction forms) answer the same after the prelude"),
    "C03": ("history_arithmetic", "+ and - (Scalar and Array, every container kind, exponents other than 1) answer the same after the prelude"),
    "C04": ("history_arithmetic", "* / // (Scalar and Array, every container kind, exponents other than 1) answer the same after the prelude"),
    "C15": ("history_all", "registration histories interleaved with queries report the same as a fresh database; queries, conversions, arithmetic, validity and interning answer the same after the prelude; the registry reports the same"),
}
for _pid, (_probe, _what) in _HIST.items():
    def _mk(base, _probe=_probe, _what=_what, _pid=_pid):
        return lambda tier: list(base(tier)) + [("bounded_native", {"probe": _probe, "props": [_pid], "bound": _HIST_BOUND, "what": _what})]

    PROPS[_pid]["tasks"] = _mk(PROPS[_pid]["tasks"])
    PROPS[_pid]["level_note"] = PROPS[_pid].get("level_note", "") + "; state added by a change and described by no contract (a new cache field) makes the deductive check undecided on the paths that read it - a BOUNDED native history stand-in (prelude + probes, stated in the evidence) is the only coverage there"
