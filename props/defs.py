"""Which tasks decide which property."""

UDB = "barril.units.unit_database"


def table_tasks(kind, fillers=("posc", "posc_nocat", "simple"), nchunks=7):
    out = []
    for f in fillers:
        n = 1 if f == "simple" else nchunks
        for c in range(n):
            out.append((kind, {"filler": f, "chunk": c, "nchunks": n}))
    return out


def V(fq):
    return ("verify", {"fq": fq})


PROPS = {}

PROPS["C01"] = {
    "tasks": lambda tier: table_tasks("table_c01") + [V(UDB + ":UnitDatabase.Convert"), V(UDB + ":UnitDatabase.GetInfo"), ("lemma_c01_compose", {})],
    "level": "proof",
    "trusted": [
        "z3 5.1.0 (python API); cvc5 1.0.3 only for z3's unknowns",
        "pyvc symbolic interpreter (this repository) for Python semantics",
        "floats as reals (A1): 'up to floating-point rounding' is proved as exact equality over the reals",
    ],
}
