#!/usr/bin/env python3
"""Regenerate MANIFEST.json from props/defs.py (claimed checks) and props/na.py (not applicable)."""
import json, os, sys
sys.path.insert(0, os.path.dirname(os.path.dirname(os.path.abspath(__file__))))
from props.defs import PROPS
from props.na import NOT_APPLICABLE

props = [json.loads(l) for l in open(os.path.join(os.path.dirname(__file__), "..", "properties.jsonl"))]
checks = []
na = []
for p in props:
    pid = p["id"]
    if pid in PROPS:
        d = PROPS[pid]
        checks.append({
            "property_id": pid,
            "quick_cmd": "./check %s --tier quick" % pid,
            "thorough_cmd": "./check %s --tier thorough" % pid,
            "evidence_file": "/verif/evidence/%s.json" % pid,
            "replay_cmd_template": "./check %s --replay {path}" % pid,
            "engine": "pyvc",
            "level_claimed": {"category": d.get("level", "proof"), "text": d["level_text"], "design_ref": d.get("design_ref", "DESIGN.md §4.%s" % pid)},
            "level_note": d["level_note"],
            "technique": d.get("technique", "contract-based deductive verification: VCs generated from the real AST by pyvc, discharged by z3 (cvc5 for unknowns)"),
        })
    else:
        na.append({"property_id": pid, "reason": NOT_APPLICABLE.get(pid, "check not built yet (framework under construction)")})
m = {
    "version": 1,
    "setup_cmd": "python3-vt -c 'import z3, cvc5; print(z3.get_version_string())' && test -x /venv/bin/python",
    "hooks": {
        "guard": "BARRIL_VERIF",
        "enable": "no hooks: pyvc reads /repo/src with ast on every run; nothing in /repo is instrumented (BARRIL_REPO=<dir> points the checks at another tree)",
        "baseline_off_cmd": "cd /repo && /venv/bin/python -m pytest -ra -q -p no:cacheprovider --timeout=900 --continue-on-collection-errors",
        "source_commits": [],
        "add_only": True,
    },
    "engines": [{"name": "pyvc", "path": "/verif/pyvc", "serves_properties": sorted(PROPS), "kind_free_text": "verification-condition generator over the real Python AST (path-enumerating symbolic interpreter, sidecar contracts, modular callee contracts), z3 back end, cvc5 fallback, native replay of counter-models"}],
    "checks": checks,
    "notes": "Contracts are sidecar files under /verif/contracts; genuine defects repaired by 'fix:' commits in /repo or listed in /verif/KNOWN_FINDINGS.txt. Exit codes: 0 held, 1 violation, 2 undecided (obligation outside the subset / solver unknown), 3 checker error.",
    "not_applicable": na,
}
json.dump(m, open(os.path.join(os.path.dirname(__file__), "..", "MANIFEST.json"), "w"), indent=1)
print("claimed:", [c["property_id"] for c in checks])
