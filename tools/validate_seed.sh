#!/bin/bash
# validate_seed.sh <worktree> <id>: confirm a seeded change (tests pass with it, demo fails with it, passes without it)
W=$1; ID=$2
cd $W || exit 9
export PYTHONPATH=$W/src
git diff -- src > /tmp/seed/$ID.patch.check
[ -s /tmp/seed/$ID.patch.check ] || { echo "$ID: no source diff"; exit 1; }
T=$(/venv/bin/python -m pytest -q -p no:cacheprovider -x 2>&1 | tail -1)
/venv/bin/python demo.py >/tmp/seed/$ID.demo_with.log 2>&1; A=$?
git stash -q -- src
/venv/bin/python demo.py >/tmp/seed/$ID.demo_without.log 2>&1; B=$?
git stash pop -q
echo "$ID tests_with_change=[$T] demo_with=$A demo_without=$B"
