#!/bin/bash
# validate_seed.sh <worktree> <id>: confirm a seeded change (tests pass with it, demo fails with it, passes without it).
# The sub-agent's patch.diff is the source of truth; no `git stash` (the stash is shared by all worktrees of a
# repository, so concurrent validations would swap each other's changes).
W=$1; ID=$2
cd $W || exit 9
export PYTHONPATH=$W/src
mkdir -p /tmp/seed
git checkout -q -- src
git apply patch.diff || { echo "$ID: patch.diff does not apply"; exit 1; }
git diff -- src > /tmp/seed/$ID.patch.check
[ -s /tmp/seed/$ID.patch.check ] || { echo "$ID: no source diff"; exit 1; }
T=$(/venv/bin/python -m pytest -q -p no:cacheprovider -x 2>&1 | tail -1)
/venv/bin/python demo.py >/tmp/seed/$ID.demo_with.log 2>&1; A=$?
git apply -R patch.diff
/venv/bin/python demo.py >/tmp/seed/$ID.demo_without.log 2>&1; B=$?
git apply patch.diff
echo "$ID tests_with_change=[$T] demo_with=$A demo_without=$B"
