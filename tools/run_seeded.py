#!/usr/bin/env python3
"""tools/run_seeded.py [seed-id ...] [--props C01,C02] [--tier quick]
For each seeded change under /verif/seeded/<id>/: copy /repo/src to a scratch directory, apply patch.diff,
run the check of the property it breaks (or the given properties) with BARRIL_REPO pointing at the copy and
evidence redirected to a scratch directory, print whether the check raised a VIOLATION, delete the copy."""
import json, os, shutil, subprocess, sys, tempfile
from concurrent.futures import ThreadPoolExecutor

V = os.path.dirname(os.path.dirname(os.path.abspath(__file__)))
args = [a for a in sys.argv[1:] if not a.startswith("--")]
opts = dict(a[2:].split("=", 1) for a in sys.argv[1:] if a.startswith("--") and "=" in a)
seeds = args or sorted(os.listdir(os.path.join(V, "seeded")))
claimed = {c["property_id"] for c in json.load(open(os.path.join(V, "MANIFEST.json")))["checks"]}


def run(seed):
    sd = os.path.join(V, "seeded", seed)
    meta = json.load(open(os.path.join(sd, "meta.json")))
    props = opts["props"].split(",") if "props" in opts else [meta["property"]]
    d = tempfile.mkdtemp(prefix="barril_seed_")
    out = []
    try:
        shutil.copytree("/repo/src", os.path.join(d, "src"), ignore=shutil.ignore_patterns("__pycache__"))
        p = subprocess.run(["patch", "-p1", "-s", "-d", d, "-i", os.path.join(sd, "patch.diff")], capture_output=True, text=True)
        if p.returncode != 0:
            return "%s: patch does not apply: %s" % (seed, p.stdout + p.stderr)
        for pid in props:
            if pid not in claimed and "force" not in opts:
                out.append("%s %s: not claimed" % (seed, pid))
                continue
            ev = os.path.join(d, "evidence")
            env = dict(os.environ, BARRIL_REPO=d, PYVC_EVIDENCE_DIR=ev, PYVC_REPLAY_DIR=os.path.join(d, "replays"))
            r = subprocess.run([os.path.join(V, "check"), pid, "--tier", opts.get("tier", "quick")], capture_output=True, text=True, env=env, cwd=V)
            vio = [l for l in r.stdout.splitlines() if l.startswith("VIOLATION")]
            repro = [l for l in vio if not l.endswith("no-failing-input-found")]
            verdict = ""
            if meta.get("kind") == "harmless-refactoring":
                verdict = "[harmless: %s] " % ("FALSE ALARM" if vio or r.returncode == 1 else ("no alarm" if r.returncode == 0 else "undecided (exit %d)" % r.returncode))
            else:
                verdict = "[breaking: %s] " % ("reported" if vio else ("MISSED" if r.returncode == 0 else "undecided (exit %d)" % r.returncode))
            out.append("%s %s: %sexit=%d violations=%d replayed=%d %s" % (seed, pid, verdict, r.returncode, len(vio), len(repro), (vio[0][:230] if vio else r.stdout.strip().splitlines()[-1][:200] if r.stdout.strip() else r.stderr[-300:])))
    finally:
        shutil.rmtree(d, ignore_errors=True)
    return "\n".join(out)


with ThreadPoolExecutor(max_workers=int(opts.get("jobs", 2))) as tp:
    for res in tp.map(run, seeds):
        print(res, flush=True)
