#!/usr/bin/env python3
"""tools/mut.py <file-rel-to-src/barril> <old> <new> -- <command...>
Copy /repo/src to a scratch dir, replace the first (unique) occurrence of <old> by <new>, run the
command with BARRIL_REPO pointing at the scratch copy, delete the copy."""
import os, shutil, subprocess, sys, tempfile
i = sys.argv.index("--")
rel, old, new = sys.argv[1:4]
cmd = sys.argv[i + 1 :]
d = tempfile.mkdtemp(prefix="barril_mut_")
try:
    shutil.copytree("/repo/src", os.path.join(d, "src"), ignore=shutil.ignore_patterns("__pycache__", "_tests"))
    p = os.path.join(d, "src", "barril", rel)
    s = open(p).read()
    n = s.count(old)
    if n != 1:
        print("mut: %d occurrences of the pattern" % n)
        sys.exit(9)
    open(p, "w").write(s.replace(old, new))
    env = dict(os.environ, BARRIL_REPO=d)
    sys.exit(subprocess.call(cmd, env=env))
finally:
    shutil.rmtree(d, ignore_errors=True)
