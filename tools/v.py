#!/usr/bin/env python3-vt
"""tools/v.py <substring of fq> ... : verify contracts and print a summary (developer tool)"""
import sys, time, os
sys.path.insert(0, os.path.dirname(os.path.dirname(os.path.abspath(__file__))))
from collections import Counter
import contracts
contracts.load_all()
from pyvc.contract import verify, REGISTRY
verbose = "-v" in sys.argv
pats = [a for a in sys.argv[1:] if not a.startswith("-")]
vsel = [a.split("=", 1)[1] for a in sys.argv[1:] if a.startswith("--variant=")]
tier = ([a.split("=", 1)[1] for a in sys.argv[1:] if a.startswith("--tier=")] or ["quick"])[0]
for fq, spec in REGISTRY.items():
    if (pats and not any(p in fq for p in pats)) or type(spec).setup is __import__("pyvc.contract").contract.FunctionSpec.setup:
        continue
    t = time.time()
    if vsel:
        _v0 = spec.variants
        spec.variants = lambda tier_, _v0=_v0: [v for v in _v0(tier_) if any(x in str(v) for x in vsel)]
    r = verify(spec, tier)
    c = Counter(o.status for o in r.obligations)
    print("%-70s paths=%d obligations=%d %s %.1fs (solver %.1fs)" % (fq, r.paths, len(r.obligations), dict(c), time.time() - t, r.solver_s))
    shown = 0
    for o in r.obligations:
        if o.status != "discharged" and shown < (40 if verbose else 8):
            shown += 1
            print("    %s %s | %s | %s" % (o.status, o.name, o.detail, (dict(list(o.model.items())[:8]) if (o.model and verbose) else "")))
    if verbose:
        print("    covers:", sorted(r.covers))
        print("    inlined:", sorted(r.inlined))
        print("    summarised:", r.summarised)
