#!/usr/bin/env python3-vt
"""tools/list_cases.py <fq substring> ...: clause names of a contract with the properties each obligation is tagged with"""
import sys, os, re, collections
sys.path.insert(0, os.path.dirname(os.path.dirname(os.path.abspath(__file__))))
import contracts
contracts.load_all()
from pyvc.contract import verify, REGISTRY
for fq, spec in REGISTRY.items():
    if not any(p in fq for p in sys.argv[1:]) or type(spec).setup is __import__("pyvc.contract").contract.FunctionSpec.setup:
        continue
    r = verify(spec)
    agg = collections.OrderedDict()
    for o in r.obligations:
        n = re.sub(r"#p\d+$", "", o.name)
        n = re.sub(r"\{[^}]*\}", "", n, count=1)
        agg.setdefault((n, tuple(o.props)), 0)
        agg[(n, tuple(o.props))] += 1
    print("==", fq, "spec props", spec.props)
    for (n, p), k in agg.items():
        print("   %-90s %s x%d" % (n[:90], ",".join(p), k))
