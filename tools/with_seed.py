#!/usr/bin/env python3
"""tools/with_seed.py <seed-id> -- <command...>: copy /repo/src to a scratch dir, apply seeded/<id>/patch.diff,
run the command with BARRIL_REPO pointing at the copy (evidence/replays redirected), delete the copy."""
import os, shutil, subprocess, sys, tempfile
V = os.path.dirname(os.path.dirname(os.path.abspath(__file__)))
i = sys.argv.index("--")
seed, cmd = sys.argv[1], sys.argv[i + 1 :]
d = tempfile.mkdtemp(prefix="barril_seed_")
try:
    shutil.copytree("/repo/src", os.path.join(d, "src"), ignore=shutil.ignore_patterns("__pycache__"))
    p = subprocess.run(["patch", "-p1", "-s", "-d", d, "-i", os.path.join(V, "seeded", seed, "patch.diff")])
    if p.returncode:
        sys.exit(9)
    env = dict(os.environ, BARRIL_REPO=d, PYVC_EVIDENCE_DIR=os.path.join(d, "evidence"), PYVC_REPLAY_DIR=os.path.join(d, "replays"))
    sys.exit(subprocess.call(cmd, env=env, cwd=V))
finally:
    shutil.rmtree(d, ignore_errors=True)
