#!/usr/bin/env python3
"""tools/store_seed.py <worktree-root> <suffix> <Cxx> ...: store validated sub-agent seeds as /verif/seeded/<Cxx>-<suffix>/
(reads /tmp/seed/<id>.patch.check written by validate_seed.sh and the validation line passed on stdin)"""
import json, os, shutil, sys, re
root, suffix, ids = sys.argv[1], sys.argv[2], sys.argv[3:]
V = os.path.dirname(os.path.dirname(os.path.abspath(__file__)))
lines = {l.split()[0]: l for l in sys.stdin if l.strip()}
for c in ids:
    sid = "%s-%s" % (c, suffix)
    l = lines.get(sid, "")
    m = re.search(r"tests_with_change=\[(.*?)\] demo_with=(\d+) demo_without=(\d+)", l)
    if not m or "322 passed" not in m.group(1) or m.group(2) == "0" or m.group(3) != "0":
        print(sid, "NOT CONFIRMED:", l.strip())
        continue
    d = os.path.join(V, "seeded", sid)
    os.makedirs(d, exist_ok=True)
    shutil.copy("/tmp/seed/%s.patch.check" % sid, os.path.join(d, "patch.diff"))
    shutil.copy(os.path.join(root, c, "demo.py"), os.path.join(d, "demo.py"))
    meta = json.load(open(os.path.join(root, c, "meta.json")))
    meta["property"] = c
    meta["confirmed_by_me"] = {
        "tests_with_change": "322 passed (cd <worktree> && PYTHONPATH=<worktree>/src /venv/bin/python -m pytest -q -p no:cacheprovider -x)",
        "demo_with_change_exit": int(m.group(2)),
        "demo_without_change_exit": int(m.group(3)),
        "how": "tools/validate_seed.sh <worktree> <id> in the sub-agent's scratch worktree; patch.diff regenerated with git diff -- src",
    }
    meta["origin"] = "written by a fresh sub-agent given only the property text and a scratch worktree (round %s)" % suffix
    json.dump(meta, open(os.path.join(d, "meta.json"), "w"), indent=1)
    print(sid, "stored")
