"""Equivalent construction forms (C19): for a unit u whose default category is c and a value v,
Scalar(v,u), Scalar(v,u,c), Scalar(c,v,u), Scalar((v,u)), Scalar(ObtainQuantity(u,c), v) and
CreateWithQuantity(ObtainQuantity(u,c), v) build objects with equal value and equal quantity; same for
Array and FixedArray; the object built from a category alone equals the one built from the
category's default value and default unit.  AbstractValueWithQuantityObject.__init__ and the
_InternalCreateWithQuantity methods are executed from their real AST; ObtainQuantity by its contract."""
import ast
import z3

from pyvc.engine import NameS, FnS, RealS, IntS, BoolS, lit, PyRaise, OutOfSubset
from pyvc.values import *
from pyvc.interp import to_z3b
from pyvc.contract import FunctionSpec, Case, ret, rai, unspecified, register, REGISTRY, same_value
from pyvc import symseq
from .schema import *
from .unit_database import UDB, nm
from .values import std_db, harness, BASE_CALLEES, AVQ, SC, AR, FA
from .obtain import getdefaultcategory_cases, resolved_unit, obtain_simple_cases
from .arith import And, Or, T, F, S

CLASSES = {"Scalar": SC, "Array": AR, "FixedArray": FA}


def cls_of(I, name):
    return SClass(vclass(I, name))


@register
class ConstructionFormsSpec(FunctionSpec):
    fq = AVQ + ".__init__"
    key = AVQ + ".__init__#forms"
    props = ("C19", "C02")
    callees = BASE_CALLEES + (UDB + ":UnitDatabase.GetDefaultCategory",)
    probe = "construct_forms"

    def variants(self, tier):
        out = []
        for k in ("Scalar", "Array", "FixedArray"):
            out.append((k, "unit-forms"))
            out.append((k, "category-only"))
        out.append(("Scalar", "category-and-unit"))
        return out

    def setup(self, I, variant):
        kname, what = variant
        db, R = std_db(I)
        P = I.P
        K = cls_of(I, kname)
        u, c = nm("unit"), nm("category")
        R.touch(u.name, c.name)
        st = R.snapshot()
        if kname == "Scalar":
            v = SNum(z3.Real("value"), "float")
        else:
            v = symseq.fresh_seq(P, "list", base="values")
        dim = SNum(z3.Int("dimension"), "int")
        pre = [dim] if kname == "FixedArray" else []
        oq = SFunc(I.repo.func(Q_MOD + ":ObtainQuantity"))

        def build(I, *args, **kw):
            return I.call(K, pre + list(args), kw)

        if what == "unit-forms":
            # precondition of the property: c is the default category of u
            alts = []
            for n, g, k_, x in getdefaultcategory_cases(R, st, u.name):
                if k_ == "value":
                    isnone, cat = x
                    alts.append(z3.And(g, z3.Not(isnone), cat == c.name, cat != lit("")))
            P.assume(Or(alts), "pre:c is the default category of u")
            P.assume(R.valid(c.name, u.name, st), "pre:u belongs to the quantity type of its default category (table obligation C19/default_category)")

            def run(I):
                forms = [
                    ("(v,u)", lambda: build(I, v, u)),
                    ("(v,u,c)", lambda: build(I, v, u, c)),
                    ("(c,v,u)", lambda: build(I, c, v, u)),
                    ("(quantity,v)", lambda: build(I, I.call(oq, [u, c]), v)),
                    ("CreateWithQuantity", lambda: I.call(I.getattr(K, "CreateWithQuantity"), [I.call(oq, [u, c]), v] , ({"dimension": dim} if kname == "FixedArray" else {}))),
                ]
                if kname == "Scalar":
                    forms.append(("((v,u))", lambda: build(I, STuple([v, u]))))
                out = []
                for name, f in forms:
                    try:
                        out.append(STuple([SStr(name), f()]))
                    except PyRaise as e:
                        out.append(STuple([SStr(name), SStr("raise:" + e.exc.o.clsname())]))
                return STuple(out)

        elif what == "category-and-unit":
            # Scalar(category, unit=u): the category's default amount expressed in u
            def run(I):
                return build(I, c, SNone, u)

        else:
            def run(I):
                ci = I.call(I.getattr(db, "GetCategoryInfo"), [c])
                a = build(I, c)
                b = build(I, c, I.getattr(ci, "default_value") if kname == "Scalar" else a.o.fields["_value"], I.getattr(ci, "default_unit"))
                return STuple([STuple([SStr("(c)"), a]), STuple([SStr("(c,default_value,default_unit)"), b])])

        return {"f": harness(run), "args": [], "R": R, "st": st, "db": db, "unit": u, "category": c, "value": v, "kname": kname, "what": what, "dim": dim}

    def cases(self, I, ctx):
        R, st, u, c, v = ctx["R"], ctx["st"], ctx["unit"], ctx["category"], ctx["value"]
        kname, what = ctx["kname"], ctx["what"]

        def same_objects(I, res):
            objs = [it.items for it in res.items]
            firstname, first = objs[0]
            conj = []
            for name, o in objs:
                if isinstance(first, SStr) or isinstance(o, SStr):
                    # a form raised: then every form raises the same class
                    if not (isinstance(first, SStr) and isinstance(o, SStr) and first.py == o.py):
                        return F
                    continue
                if not (isinstance(o, SRef) and isinstance(o.o, HObj) and o.o.cls.name == kname):
                    return F
                fa, fb = first.o.fields, o.o.fields
                qa, qb = fa.get("_quantity"), fb.get("_quantity")
                if qa is None or qb is None:
                    return F
                conj.append(to_z3b(I.equal(qa, qb)))
                va, vb = fa.get("_value"), fb.get("_value")
                if isinstance(va, SNum) and isinstance(vb, SNum):
                    conj.append(va.real() == vb.real())
                elif isinstance(va, symseq.SymSeq) and isinstance(vb, symseq.SymSeq):
                    conj.append(z3.And(va.n == vb.n, va.elems == vb.elems, z3.BoolVal(va.kind == vb.kind)))
                elif isinstance(va, SRef) and isinstance(vb, SRef) and isinstance(va.o, HList) and isinstance(vb.o, HList):
                    conj.append(to_z3b(I.equal(va, vb)))
                else:
                    return F
                if kname == "FixedArray":
                    conj.append(to_z3b(I.equal(fa.get("_dimension"), fb.get("_dimension"))))
            return And(conj)

        if what == "category-and-unit":
            from .unit_database import getinfo_cases
            from .obtain import obtain_simple_cases
            from pyvc.engine import app

            reg = S(st["C_dom"], c.name)
            du, dv = S(st["C_du"], c.name), S(st["C_dv"], c.name)
            qt = S(st["C_qt"], c.name)
            out = [rai("unknown-category", z3.Not(reg), "InvalidQuantityTypeError", props=("C05",))]
            # the default amount re-expressed: own unit keeps it, otherwise conv(default unit -> u)
            same = du == u.name
            for n_, g_, k_, x_ in getinfo_cases(R, st, qt, u.name, True, True):
                g = z3.And(reg, z3.Not(same), g_)
                if k_ == "raise":
                    out.append(rai("unit:" + n_, g, x_, props=("C05",)))
                elif n_ in ("direct", "via-category"):
                    def chk(I, res, x_=x_):
                        if not (isinstance(res, SRef) and isinstance(res.o, HObj) and res.o.cls.name == "Scalar"):
                            return F
                        v_ = res.o.fields.get("_value")
                        q_ = res.o.fields.get("_quantity")
                        exp = app(S(st["U_fb"], x_), app(S(st["U_tb"], du), dv))
                        return z3.And(v_.real() == exp, to_z3b(I.equal(q_.o.fields["_category"], c)), q_.o.fields["_unit"].name == x_) if isinstance(v_, SNum) else F

                    out.append(ret("default-amount-in-the-unit:" + n_, g, props=("C02", "C19"), check=chk))
                else:
                    out.append(unspecified("unit:" + n_, g))

            def chk_same(I, res):
                v_ = res.o.fields.get("_value") if isinstance(res, SRef) else None
                return v_.real() == dv if isinstance(v_, SNum) else F

            out.append(ret("default-unit: the default value itself", z3.And(reg, same), props=("C02", "C19"), check=chk_same))
            return out
        if what == "category-only":
            small = (ctx["dim"].t < 2) if kname == "FixedArray" else F
            reg = S(st["C_dom"], c.name)
            same0 = same_objects

            def same_objects(I, res):
                # the default values container of an object built from the category alone is its own: a
                # container shared through class- or module-level state would let one object's values leak
                # into every later one
                o = res.items[0].items[1]
                if isinstance(o, SRef) and isinstance(o.o, HObj):
                    v = o.o.fields.get("_value")
                    if isinstance(v, SRef) and getattr(v.o, "region", "fresh") in ("class-state", "module-state", "param", "registry"):
                        return F
                return same0(I, res)

            return [
                rai("unknown-category", z3.Not(reg), "InvalidQuantityTypeError", props=("C05",)),
                rai("dimension-below-2", z3.And(reg, small), "ValueError", props=("C11",)),
                ret("category-alone-equals-defaults", z3.And(z3.Not(small), reg), props=("C19", "C02"), check=same_objects),
            ]
        return [ret("all-forms-build-equal-objects", T, props=("C19",), check=same_objects)]

    def extra_obligations(self, I, ctx, outcome):
        return [("frame[registry: only memo and intern table]", ("C15",), all(w[0] in ("M", "K") for w in ctx["R"].writes))]

    def allowed_write(self, I, ctx, obj, what):
        if getattr(obj, "region", "") == "quantity" and what[1] in LAZY_SLOTS:
            return True
        return FunctionSpec.allowed_write(self, I, ctx, obj, what)


@register
class ScalarReprSpec(FunctionSpec):
    """repr(Scalar) for a simple quantity is the text  Scalar(<float>, '<unit>', '<category>')  - the
    (value, unit, category) construction form, which builds an equal Scalar (forms contract above);
    symbols contain no quote or backslash (table obligation), repr(float) evals back (A12)."""

    fq = SC + ".__repr__"
    props = ("C19", "C20")
    probe = "construct_forms"

    def setup(self, I, variant):
        from pyvc import strparts

        db, R = std_db(I)
        strparts.install(I.P)
        q = simple_quantity(I, R, db, z3.Const("c", NameS), z3.Const("u", NameS))
        s = scalar_obj(I, db, q)
        return {"f": I.getattr(s, "__repr__"), "args": [], "R": R, "self": s, "q": q}

    def cases(self, I, ctx):
        from pyvc.strparts import parts_of, parts_equal

        s, q = ctx["self"], ctx["q"]
        exp = [("lit", "Scalar("), ("float", s.o.fields["_value"].real()), ("lit", ", '"), ("name", q.o.fields["_unit"].name), ("lit", "', '"), ("name", q.o.fields["_category"].name), ("lit", "')")]

        def chk(I, res):
            p = parts_of(res) if isinstance(res, SStr) else None
            if p is None:
                return F
            return to_z3b(parts_equal(p, exp))

        return [ret("repr-is-the-constructor-call", T, check=chk)]
