"""Derived unit / category / quantity-type strings (C20): Quantity.__init__ (derived branch),
_MakeStr, _CreateUnitsWithJoinedExponentsString, GetComposingUnitsJoiningExponents and GetUnitName
are executed from their real AST with the token-level string model (pyvc/strparts.py); the
resulting strings are compared, part by part, with the rendering spec below."""
import ast
import z3

from pyvc.engine import NameS, FnS, RealS, IntS, BoolS, lit, PyRaise, OutOfSubset
from pyvc.values import *
from pyvc.interp import to_z3b
from pyvc.contract import FunctionSpec, Case, ret, rai, unspecified, register, REGISTRY, same_value
from pyvc import strparts
from pyvc.strparts import parts_of, parts_equal
from .schema import *
from .unit_database import UDB, nm
from .values import std_db, harness, BASE_CALLEES
from .arith import And, Or, T, F, S


class Undetermined(Exception):
    pass


def decide(P, cond):
    """truth value of cond under the path condition (the code has branched on the same facts)"""
    if isinstance(cond, bool):
        return cond
    if P.valid(cond):
        return True
    if P.valid(z3.Not(cond)):
        return False
    raise Undetermined(str(cond))


def join_by_key(P, seq):
    """OrderedDict accumulation: [(key term, exp term)] with equal keys merged (first position kept)"""
    out = []
    for k, e in seq:
        for i, (k0, e0) in enumerate(out):
            if decide(P, k0 == k):
                out[i] = (k0, e0 + e)
                break
        else:
            out.append((k, e))
    return out


def render(P, seq, long):
    """the rendering spec.  seq: [(name term, exponent term)].
    long:  'a * (b) ** 2 / c * (d) ** 3'   (category / quantity type / unit-name strings)
    short: 'a.b2/c.d3', '1/c' for a pure reciprocal   (unit strings, the table's own grammar)"""
    sep = " * " if long else "."
    div = " / " if long else "/"
    one = "1 / " if long else "1/"

    def factor(name, e, mag):
        if decide(P, mag == 1):
            return [("name", name)]
        if long:
            return [("lit", "("), ("name", name), ("lit", ") ** "), ("int", mag)]
        return [("name", name), ("int", mag)]

    num, den = [], []
    for name, e in seq:
        if decide(P, e > 0):
            num.append(factor(name, e, e))
        elif decide(P, e < 0):
            den.append(factor(name, e, -e))
    parts = []
    for i, f in enumerate(num):
        if i:
            parts.append(("lit", sep))
        parts += f
    if den:
        parts.append(("lit", div if num else one))
        for i, f in enumerate(den):
            if i:
                parts.append(("lit", sep))
            parts += f
    return strparts.mk(parts)


def norm_parts(v):
    """parts with integer terms simplified (|e| may be written abs(e) or -e)"""
    p = parts_of(v) if isinstance(v, SStr) else None
    return p


def same_text(P, got, expected):
    a, b = norm_parts(got), norm_parts(expected)
    if a is None or b is None or len(a) != len(b):
        return F
    conj = []
    for x, y in zip(a, b):
        if x[0] != y[0]:
            return F
        if x[0] == "lit":
            if x[1] != y[1]:
                return F
        else:
            conj.append(x[1] == y[1])
    return And(conj)


@register
class DerivedStringsSpec(FunctionSpec):
    """Quantity.__init__ with a composing map: category, quantity-type and unit strings list every
    factor (joined per category / quantity type / unit) with its exponent in the grammar above;
    composing units/categories tuples mirror the map."""

    fq = Q_MOD + ":Quantity.__init__"
    key = Q_MOD + ":Quantity.__init__#derived-strings"
    props = ("C20", "C07")
    callees = (UDB + ":UnitDatabase.GetInfo",)
    probe = "derived_strings"

    def variants(self, tier):
        # (3, "one-unit"): three categories of one quantity type sharing one unit symbol - where joined
        # exponents cancel part-way (m2 . m-2 . m); the general three-entry shape is thorough only
        return [(1,), (2,), (3, "one-unit")] + ([(3,)] if tier == "thorough" else [])

    def setup(self, I, variant):
        n = variant[0]
        db, R = std_db(I)
        P = I.P
        strparts.install(P)
        ents = fresh_entries(P, n, "d")
        if n > 1:
            P.assume(z3.Distinct(*[c for c, _, _ in ents]), "pre:dict keys are distinct")
        if len(variant) > 1 and variant[1] == "one-unit":
            P.assume(z3.And(*[z3.And(u == ents[0][1], S(R.C_qt, c) == S(R.C_qt, ents[0][0])) for c, u, e in ents[1:]]), "variant:one unit symbol, one quantity type")
        items = []
        for c, u, e in ents:
            R.touch(c, u)
            P.assume(z3.And(S(R.C_dom, c), e != 0, c != lit(""), u != lit("")), "pre:registered category, non-zero exponent, non-empty symbols")
            R.on_cat(c)
            qt = S(R.C_qt, c)
            P.assume(qt != lit(""), "pre:non-empty quantity type name")
            items.append((sname(c), SRef(P.alloc(HList([sname(u), SNum(e, "int")], region="param")))))
        m = SRef(P.alloc(HDict(items, ordered=True, region="param")))
        o = P.alloc(HObj(qclass(I), region="fresh-self"))
        self_ = SRef(o)
        init = SFunc(I.repo.func(self.fq))
        return {"f": init, "args": [self_, m, SNone, SNone], "R": R, "st": R.snapshot(), "self": self_, "ents": ents, "map": m}

    def cases(self, I, ctx):
        P = I.P
        st, ents, self_ = ctx["st"], ctx["ents"], ctx["self"]

        def chk(I, res):
            f = self_.o.fields
            try:
                cat = render(P, [(c, e) for c, u, e in ents], True)
                qts = render(P, join_by_key(P, [(S(st["C_qt"], c), e) for c, u, e in ents]), True)
                unit = render(P, join_by_key(P, [(u, e) for c, u, e in ents]), False)
            except Undetermined as ex:
                return F
            conj = [same_text(P, f.get("_category"), cat), same_text(P, f.get("_quantity_type"), qts), same_text(P, f.get("_unit"), unit)]
            cu, cc = f.get("_composing_units"), f.get("_composing_categories")
            if not (isinstance(cu, STuple) and isinstance(cc, STuple) and len(cu.items) == len(ents) == len(cc.items)):
                return F
            for (c, u, e), pu, pc in zip(ents, cu.items, cc.items):
                conj += [pu.items[0].name == u, pu.items[1].t == e, pc.name == c]
            conj.append(z3.BoolVal(f.get("_category_to_unit_and_exps").o is ctx["map"].o))
            conj.append(to_z3b(I.equal(f.get("_is_derived"), SBool(True))))
            return And(conj)

        return [ret("strings-render-every-factor", T, check=chk)]

    def allowed_write(self, I, ctx, obj, what):
        return obj is ctx["self"].o or FunctionSpec.allowed_write(self, I, ctx, obj, what)

    def extra_obligations(self, I, ctx, outcome):
        return [("frame[registry unchanged]", ("C15",), not [w for w in ctx["R"].writes if w[0] not in ("M",)])]


@register
class GetUnitNameSpec(FunctionSpec):
    """Quantity.GetUnitName(): the registered unit names, joined per name, in the long grammar."""

    fq = Q_MOD + ":Quantity.GetUnitName"
    props = ("C20",)
    callees = (UDB + ":UnitDatabase.GetInfo",)
    probe = "derived_strings"

    def variants(self, tier):
        return [(1,), (2,)] + ([(3,)] if tier == "thorough" else [])

    def setup(self, I, variant):
        n = variant[0]
        db, R = std_db(I)
        P = I.P
        strparts.install(P)
        ents = fresh_entries(P, n, "d")
        q = derived_quantity(I, R, db, ents)
        for c, u, e in ents:
            P.assume(S(R.U_nm, u) != lit(""), "pre:non-empty unit name")
        return {"f": I.getattr(q, "GetUnitName"), "args": [], "R": R, "st": R.snapshot(), "q": q, "ents": ents, "qsnap": quantity_snapshot(q)}

    def cases(self, I, ctx):
        P, st, ents = I.P, ctx["st"], ctx["ents"]

        def chk(I, res):
            try:
                exp = render(P, join_by_key(P, [(S(st["U_nm"], u), e) for c, u, e in ents]), True)
            except Undetermined:
                return F
            return same_text(P, res, exp)

        return [ret("unit-names-render-every-factor", T, check=chk)]

    def extra_obligations(self, I, ctx, outcome):
        return [("frame[quantity unchanged]", ("C07", "C13"), quantity_unchanged(I, ctx["q"], ctx["qsnap"]))]

    def allowed_write(self, I, ctx, obj, what):
        if getattr(obj, "region", "") == "quantity" and what[1] in LAZY_SLOTS:
            return True
        return FunctionSpec.allowed_write(self, I, ctx, obj, what)


@register
class ScalarFormattedSuffixSpec(FunctionSpec):
    """GetFormattedSuffix: ' [<unit>]' with the quantity's unit string (what str(Scalar)/str(Array) append)"""

    fq = "barril.units._abstractvaluewithquantity:AbstractValueWithQuantityObject.GetFormattedSuffix"
    props = ("C20",)
    probe = "derived_strings"

    def setup(self, I, variant):
        db, R = std_db(I)
        strparts.install(I.P)
        q = simple_quantity(I, R, db, z3.Const("c", NameS), z3.Const("u", NameS))
        s = scalar_obj(I, db, q)
        return {"f": I.getattr(s, "GetFormattedSuffix"), "args": [], "R": R, "q": q}

    def cases(self, I, ctx):
        u = ctx["q"].o.fields["_unit"].name
        exp = strparts.mk([("lit", " ["), ("name", u), ("lit", "]")])
        return [ret("suffix-shows-the-unit", T, check=lambda I, res: same_text(I.P, res, exp))]
