"""Registry mutators and queries (C14, C15, C12): AddUnit, AddUnitBase, AddCategory preserve the
registry invariant WF (and the memo-consistency invariant CC), leave the registry exactly as it was
when they reject the call, and write nothing but the entry they register; queries write nothing.

Invariant preservation is proved 'for a generic key': the post-state arrays are Store-terms over the
pre-state arrays, WF is assumed for the pre-state at fresh symbolic keys (and the shifted/derived
keys the proof needs), and each clause of WF is proved for the post-state at those keys."""
import ast
import z3

from pyvc.engine import NameS, FnS, RealS, IntS, BoolS, app, fixf, lit, PyRaise, OutOfSubset
from pyvc.values import *
from pyvc.interp import to_z3b
from pyvc.contract import FunctionSpec, Case, ret, rai, unspecified, register, REGISTRY, same_value
from pyvc.registry import make_db, RegInfo, RegCat, Reg, ident, FIELDS, RegUnitList, RegVU
from pyvc import symseq
from .schema import *
from .unit_database import UDB, nm, bound
from .values import std_db, AVQ, SC
from .arith import And, Or, T, F, S

GROUPS = {
    "U": ("U_dom", "U_qt", "U_nm", "U_tb", "U_fb", "U_dc_none", "U_dc"),
    "Q": ("Q_dom", "Q_len", "Q_at", "Q_mem"),
    "C": ("C_dom", "C_qt", "C_du", "C_vu_none", "C_vu_len", "C_vu_at", "C_vu_mem", "C_dv", "C_min_none", "C_min", "C_max_none", "C_max", "C_minex", "C_maxex", "C_cap"),
    "M": ("M_dom", "M_val"),
}


def unchanged(st0, st1, groups=("U", "Q", "C", "M")):
    conj = []
    for g in groups:
        for f in GROUPS[g]:
            conj.append(st0[f] == st1[f])
    return And(conj)


def observable_units(st, q, i):
    """the unit symbol listed at position i of quantity type q (what GetUnits / GetBaseUnit report)"""
    return S(S(st["Q_at"], q), i)


class Generic:
    """fresh keys at which WF is assumed before and proved after"""

    def __init__(self, P, R, st0):
        self.u = P.fresh("g_unit", NameS)
        self.q = P.fresh("g_qt", NameS)
        self.c = P.fresh("g_cat", NameS)
        self.i = P.fresh("g_i", IntS)
        self.j = P.fresh("g_j", IntS)
        u, q, c, i, j = self.u, self.q, self.c, self.i, self.j
        du = S(st0["C_du"], c)
        vu = S(S(st0["C_vu_at"], c), j)
        li = S(S(st0["Q_at"], q), i)
        lim = S(S(st0["Q_at"], q), i - 1)
        pre = []
        for x in (u, du, vu, li, lim):
            pre += [R.inv_W1a(x, st0), R.inv_F1(x, st0)]
        for (qq, ii) in ((q, i), (q, i - 1), (q, z3.IntVal(0)), (S(st0["U_qt"], u), S(st0["U_pos"], u))):
            pre.append(R.inv_W1b(qq, ii, st0))
        for qq in (q, S(st0["U_qt"], u), S(st0["C_qt"], c)):
            pre += [R.inv_W2(qq, st0), R.inv_Qlen(qq, st0)]
        pre += [R.inv_W3(c, st0), R.inv_W3vu(c, j, st0), R.inv_CC(c, u, st0)]
        for qq, nn in ((q, u), (S(st0["U_qt"], u), u), (q, li), (q, lim), (S(st0["C_qt"], c), du), (S(st0["C_qt"], c), vu)):
            pre.append(R.inv_W1c(qq, nn, st0))
        for f in pre:
            if f is not None:
                P.assume(f, "inv:WF(pre) at generic keys")

    def goals(self, R, st1):
        u, q, c, i, j = self.u, self.q, self.c, self.i, self.j
        return [
            ("W1[every registered symbol is listed, at its position, in its own quantity type]", R.inv_W1a(u, st1)),
            ("W1[every listed unit is registered under that type and position (one type per symbol, no duplicates)]", R.inv_W1b(q, i, st1)),
            ("W1[the membership view of every list agrees with the registered symbols of the type]", R.inv_W1c(q, u, st1)),
            ("W2[the first-listed unit of every quantity type has identity conversions]", R.inv_W2(q, st1)),
            ("W3[category: existing type, default unit of that type, ordered limits, default value inside]", R.inv_W3(c, st1)),
            ("W3[valid units belong to the category's type and to the set view]", R.inv_W3vu(c, j, st1)),
            ("F1[registered symbols are fix-points of the legacy rewriting]", R.inv_F1(u, st1)),
        ]

    def cc_goal(self, R, st1):
        return R.inv_CC(self.c, self.u, st1)


def fresh_fn(P, tag):
    return SFn(P.fresh(tag, FnS))


# ------------------------------------------------------------------------------------------------
@register
class AddUnitSpec(FunctionSpec):
    """AddUnit(qt, name, unit, frombase, tobase, default_category) with callable conversions.
    unit already registered ⇒ RuntimeError, registry unchanged;  otherwise the unit is registered
    with exactly the given fields and appended to its quantity type's list; nothing else changes."""

    fq = UDB + ":UnitDatabase.AddUnit"
    props = ("C14", "C15")
    probe = "registry_history"

    def variants(self, tier):
        return [("nodc",), ("dc",)]

    def setup(self, I, variant):
        db, R = std_db(I)
        P = I.P
        qt, name, unit = nm("qt"), nm("name"), nm("unit")
        fb, tb = fresh_fn(P, "frombase"), fresh_fn(P, "tobase")
        dc = nm("default_category") if variant[0] == "dc" else SNone
        R.touch(unit.name, qt.name)
        st0 = R.snapshot()
        G = Generic(P, R, st0)
        P.assume(fixf(unit.name) == unit.name, "pre:the new symbol is not a legacy spelling")
        kwargs = {} if dc is SNone else {"default_category": dc}
        return {"f": bound(I, db, "AddUnit"), "args": [qt, name, unit, fb, tb], "kwargs": kwargs, "R": R, "st": st0, "G": G, "qt": qt, "name": name, "unit": unit, "fb": fb, "tb": tb, "dc": dc}

    def cases(self, I, ctx):
        st, unit = ctx["st"], ctx["unit"]
        known = S(st["U_dom"], unit.name)
        return [
            rai("already-registered", known, "RuntimeError", props=("C14",)),
            ret("registered", z3.Not(known), SNone, props=("C14",)),
        ]

    def expected(self, ctx):
        st, qt, name, unit, fb, tb, dc = ctx["st"], ctx["qt"].name, ctx["name"].name, ctx["unit"].name, ctx["fb"], ctx["tb"], ctx["dc"]
        n = z3.If(S(st["Q_dom"], qt), S(st["Q_len"], qt), z3.IntVal(0))
        exp = dict(st)
        exp["U_dom"] = z3.Store(st["U_dom"], unit, T)
        exp["U_qt"] = z3.Store(st["U_qt"], unit, qt)
        exp["U_nm"] = z3.Store(st["U_nm"], unit, name)
        exp["U_tb"] = z3.Store(st["U_tb"], unit, tb.t)
        exp["U_fb"] = z3.Store(st["U_fb"], unit, fb.t)
        exp["U_dc_none"] = z3.Store(st["U_dc_none"], unit, z3.BoolVal(dc is SNone))
        if dc is not SNone:
            exp["U_dc"] = z3.Store(st["U_dc"], unit, dc.name)
        exp["Q_dom"] = z3.Store(st["Q_dom"], qt, T)
        exp["Q_len"] = z3.Store(st["Q_len"], qt, n + 1)
        exp["Q_at"] = z3.Store(st["Q_at"], qt, z3.Store(S(st["Q_at"], qt), n, unit))
        mem0 = z3.If(S(st["Q_dom"], qt), S(st["Q_mem"], qt), z3.K(NameS, F))
        exp["Q_mem"] = z3.Store(st["Q_mem"], qt, z3.Store(mem0, unit, T))
        return exp

    def extra_obligations(self, I, ctx, outcome):
        R, st0, G = ctx["R"], ctx["st"], ctx["G"]
        st1 = R.snapshot()
        obs = []
        if outcome[0] == "raise":
            obs.append(("unchanged_on_raise[registry]", ("C14", "C15"), unchanged(st0, st1)))
            return obs
        exp = self.expected(ctx)
        new_qt = z3.Not(S(st0["Q_dom"], ctx["qt"].name))
        # an absent quantity type has no observable list: only positions below the new length matter
        k = I.P.fresh("k", IntS)
        q = ctx["qt"].name
        same_list = z3.Implies(z3.And(k >= 0, k < S(exp["Q_len"], q)), S(S(st1["Q_at"], q), k) == S(S(exp["Q_at"], q), k))
        conj = [st1[f] == exp[f] for g in ("U", "C") for f in GROUPS[g]] + [st1["Q_dom"] == exp["Q_dom"], st1["Q_len"] == exp["Q_len"], st1["Q_mem"] == exp["Q_mem"], same_list]
        oq = I.P.fresh("other_qt", NameS)
        conj.append(z3.Implies(oq != q, S(st1["Q_at"], oq) == S(st0["Q_at"], oq)))
        obs.append(("post[exactly the new unit is registered, appended to its type; categories untouched]", ("C14", "C15"), And(conj)))
        stored_unit = getattr(R, "last_stored_unit_field", None)
        obs.append(("post[the stored info's symbol is its key]", ("C14",), to_z3b(I.equal(stored_unit, ctx["unit"])) if stored_unit is not None else F))
        for name, goal in G.goals(R, st1):
            if name.startswith("W2"):
                obs.append(("inv[%s]/existing-quantity-type" % name, ("C14",), z3.Implies(z3.Not(new_qt), goal)))
                obs.append(("inv[%s]/new-quantity-type" % name, ("C14",), z3.Implies(new_qt, goal)))
            else:
                obs.append(("inv[%s]" % name, ("C14",), goal))
        obs.append(("inv[CC memo stays consistent with the registry]", ("C15",), G.cc_goal(R, st1)))
        return obs


@register
class AddUnitBaseSpec(FunctionSpec):
    """AddUnitBase(qt, name, unit): as AddUnit with identity conversions, listed FIRST."""

    fq = UDB + ":UnitDatabase.AddUnitBase"
    props = ("C14", "C15")
    probe = "registry_history"

    def setup(self, I, variant):
        db, R = std_db(I)
        P = I.P
        qt, name, unit = nm("qt"), nm("name"), nm("unit")
        R.touch(unit.name, qt.name)
        st0 = R.snapshot()
        G = Generic(P, R, st0)
        P.assume(fixf(unit.name) == unit.name, "pre:the new symbol is not a legacy spelling")
        return {"f": bound(I, db, "AddUnitBase"), "args": [qt, name, unit], "R": R, "st": st0, "G": G, "qt": qt, "name": name, "unit": unit}

    def cases(self, I, ctx):
        st, unit = ctx["st"], ctx["unit"]
        known = S(st["U_dom"], unit.name)
        return [rai("already-registered", known, "RuntimeError"), ret("registered", z3.Not(known), SNone)]

    def extra_obligations(self, I, ctx, outcome):
        R, st0, G = ctx["R"], ctx["st"], ctx["G"]
        st1 = R.snapshot()
        if outcome[0] == "raise":
            return [("unchanged_on_raise[registry]", ("C14", "C15"), unchanged(st0, st1))]
        obs = []
        q, unit = ctx["qt"].name, ctx["unit"].name
        x = I.P.fresh("x", RealS)
        tbn, fbn = S(st1["U_tb"], unit), S(st1["U_fb"], unit)
        # the closure `identity` registered for both directions returns its argument
        defs = I.P.ghost.get("fn_defs", {})
        idc = []
        for t in (tbn, fbn):
            ok = F
            for tid, (ft, fv) in defs.items():
                r = I.call(fv, [SNum(x, "float")])
                ok = z3.Or(ok, z3.And(t == ft, to_z3b(isinstance(r, SNum) and r.real() == x)))
            idc.append(ok)
        obs.append(("post[both conversions of the base unit are the identity function]", ("C14",), And(idc)))
        n = z3.If(S(st0["Q_dom"], q), S(st0["Q_len"], q), z3.IntVal(0))
        k = I.P.fresh("k", IntS)
        conj = [
            S(st1["U_dom"], unit), S(st1["U_qt"], unit) == q, S(st1["Q_dom"], q), S(st1["Q_len"], q) == n + 1,
            S(S(st1["Q_at"], q), 0) == unit,
            z3.Implies(z3.And(k >= 1, k <= n), S(S(st1["Q_at"], q), k) == S(S(st0["Q_at"], q), k - 1)),
        ]
        ou = I.P.fresh("other_unit", NameS)
        conj.append(z3.Implies(ou != unit, And([S(st1[f], ou) == S(st0[f], ou) for f in GROUPS["U"]])))
        oq = I.P.fresh("other_qt", NameS)
        conj.append(z3.Implies(oq != q, And([S(st1[f], oq) == S(st0[f], oq) for f in GROUPS["Q"]])))
        conj.append(S(S(st1["Q_mem"], q), unit))
        conj += [st1[f] == st0[f] for f in GROUPS["C"]]
        obs.append(("post[the new unit is listed first, the others keep their order; nothing else changes]", ("C14", "C15"), And(conj)))
        # with the identity functions identified with `ident`, WF is preserved (W2 now unconditionally)
        I.P.assume(z3.And(tbn == ident, fbn == ident), "def:identity closures are the identity conversion (proved above)")
        for name, goal in G.goals(R, st1):
            obs.append(("inv[%s]" % name, ("C14",), goal))
        obs.append(("inv[CC memo stays consistent with the registry]", ("C15",), G.cc_goal(R, st1)))
        return obs


# ------------------------------------------------------------------------------------------------
# queries


def getvalidunits_cases(R, st, c):
    """[(name, guard, kind, payload)]: kind 'empty' | 'own' (category whose list) | 'units' (quantity type) | 'raise'"""
    empty = c == lit("")
    reg = S(st["C_dom"], c)
    has = z3.Not(S(st["C_vu_none"], c))
    qt = S(st["C_qt"], c)
    qreg = S(st["C_dom"], qt)
    qhas = z3.Not(S(st["C_vu_none"], qt))
    ne = z3.Not(empty)
    deleg = z3.And(ne, reg, z3.Not(has), qt != c)
    return [
        ("empty-name", empty, "empty", None),
        ("unknown-category", z3.And(ne, z3.Not(reg)), "raise", "InvalidQuantityTypeError"),
        ("own-valid-units", z3.And(ne, reg, has), "own", c),
        ("units-of-the-type", z3.And(ne, reg, z3.Not(has), qt == c), "units", qt),
        ("type-named-category/empty-name", z3.And(deleg, qt == lit("")), "empty", None),
        ("type-named-category-missing", z3.And(deleg, qt != lit(""), z3.Not(qreg)), "raise", "InvalidQuantityTypeError"),
        ("type-named-category/own-valid-units", z3.And(deleg, qt != lit(""), qreg, qhas), "own", qt),
        ("type-named-category/units-of-the-type", z3.And(deleg, qt != lit(""), qreg, z3.Not(qhas)), "units", qt),
    ]


@register
class GetValidUnitsSpec(FunctionSpec):
    """GetValidUnits(category): '' ⇒ [];  a category with valid_units ⇒ that very list;  otherwise the
    units of its quantity type, taken from the quantity-type-named category.  Pure.
    Precondition N1: the quantity-type-named category (when registered) has that quantity type."""

    fq = UDB + ":UnitDatabase.GetValidUnits"
    props = ("C15", "C14")
    probe = "registry_history"

    def setup(self, I, variant):
        db, R = std_db(I)
        c = nm("category")
        R.touch(c.name)
        st = R.snapshot()
        self.assume_n1(I, st, c.name)
        return {"f": bound(I, db, "GetValidUnits"), "args": [c], "R": R, "st": st, "category": c}

    @staticmethod
    def assume_n1(I, st, c):
        qt = S(st["C_qt"], c)
        I.P.assume(z3.Implies(S(st["C_dom"], qt), S(st["C_qt"], qt) == qt), "pre:N1 quantity-type names are not categories of another type")
        I.P.ghost["reg"].touch(qt)

    def bind_call(self, I, f, args, kwargs):
        ctx = FunctionSpec.bind_call(self, I, f, args, kwargs)
        R = I.P.ghost["reg"]
        ctx["R"], ctx["st"] = R, R.snapshot()
        if not isinstance(ctx["category"], SStr):
            raise OutOfSubset("GetValidUnits with a non-string category")
        self.assume_n1(I, ctx["st"], ctx["category"].name)
        return ctx

    def cases(self, I, ctx):
        R, st, c = ctx["R"], ctx["st"], ctx["category"].name
        is_call = ctx.get("$call")
        out = []
        for name, g, kind, x in getvalidunits_cases(R, st, c):
            if kind == "raise":
                out.append(rai(name, g, x, props=("C05",)))
            elif kind == "empty":
                out.append(ret(name, g, (lambda I: SRef(I.P.alloc(HList([])))) if is_call else None, check=None if is_call else (lambda I, res: z3.BoolVal(isinstance(res, SRef) and isinstance(res.o, HList) and not res.o.items))))
            elif kind == "own":
                out.append(ret(name, g, (lambda I, x=x: RegVU(R, x)) if is_call else None, check=None if is_call else (lambda I, res, x=x: (res.cat == x) if isinstance(res, RegVU) else F)))
            else:
                out.append(ret(name, g, (lambda I, x=x: RegUnitList(R, x)) if is_call else None, check=None if is_call else (lambda I, res, x=x: z3.And(res.qt == x, z3.BoolVal(not res.extras)) if isinstance(res, RegUnitList) else F)))
        return out

    def extra_obligations(self, I, ctx, outcome):
        return [("frame[registry unchanged]", ("C15",), unchanged(ctx["st"], ctx["R"].snapshot()))]


@register
class ValueGetValidUnitsSpec(FunctionSpec):
    """AbstractValueWithQuantityObject.GetValidUnits(): the category's valid units plus the
    object's own unit — reported without changing what the database reports."""

    fq = AVQ + ".GetValidUnits"
    props = ("C15", "C13")
    callees = (UDB + ":UnitDatabase.GetInfo", UDB + ":UnitDatabase.GetValidUnits")
    probe = "registry_history"

    def variants(self, tier):
        return ["simple", "unknown"]

    def setup(self, I, variant):
        db, R = std_db(I)
        q = simple_quantity(I, R, db, z3.Const("c", NameS), z3.Const("u", NameS), unknown=(variant == "unknown"))
        s = scalar_obj(I, db, q)
        return {"f": I.getattr(s, "GetValidUnits"), "args": [], "R": R, "st": R.snapshot(), "self": s, "q": q, "snap": dict(s.o.fields)}

    def cases(self, I, ctx):
        R, st = ctx["R"], ctx["st"]
        q = ctx["q"]
        u, c = q.o.fields["_unit"], q.o.qinfo["c"]
        out = []
        for name, g, kind, x in getvalidunits_cases(R, st, c):
            if kind == "raise":
                out.append(rai(name, g, x))
                continue

            def chk(I, res, kind=kind, x=x):
                # a list of the caller's own: the category's valid units (or the type's units) plus the own unit
                if isinstance(res, RegVU):
                    return F  # the registry's own list must not be handed out for modification
                probe_ = z3.Const("some_unit", NameS)
                inres = to_z3b(I.contains(res, sname(probe_)))
                if kind == "empty":
                    base = F
                elif kind == "own":
                    base = S(S(st["C_vu_mem"], x), probe_)
                else:
                    base = S(S(st["Q_mem"], x), probe_)
                return inres == z3.Or(base, probe_ == u.name)

            out.append(ret(name, g, check=chk))
        return out

    def extra_obligations(self, I, ctx, outcome):
        return [
            ("frame[registry unchanged]", ("C15",), unchanged(ctx["st"], ctx["R"].snapshot())),
            ("frame[receiver unchanged]", ("C13",), value_unchanged(I, ctx["self"], ctx["snap"])),
        ]


class SymLike:
    pass


# ------------------------------------------------------------------------------------------------
@register
class AddCategorySpec(FunctionSpec):
    """AddCategory: on normal return exactly one category entry is written, it satisfies W3 (existing
    quantity type, default unit and valid units of that type, ordered limits, default value inside
    the limits), stores the given/inherited/derived fields, and WF is preserved; a rejected call
    leaves the registry exactly as it was.  Well-formed arguments are accepted."""

    fq = UDB + ":UnitDatabase.AddCategory"
    props = ("C14", "C12", "C15", "C16")
    callees = (UDB + ":FixUnitIfIsLegacy",)
    probe = "registry_history"

    def variants(self, tier):
        out = []
        vus = ("none", "list1") + (("list2", "list0") if tier == "thorough" else ())
        for src in ("qt", "from"):
            for vu in vus:
                for du in ("nodu", "du"):
                    for dv in ("nodv", "dv"):
                        for mn in ("nomin", "min"):
                            for mx in ("nomax", "max"):
                                out.append((src, vu, du, dv, mn, mx))
        return out

    def setup(self, I, variant):
        src, vu, du, dv, mn, mx = variant
        db, R = std_db(I)
        P = I.P
        P.ghost["abstract_text"] = True  # the caption derived from the category name is some text
        cat = nm("category")
        kw = {}
        ctx = {}
        if src == "qt":
            qt = nm("quantity_type")
            kw["quantity_type"] = qt
            R.touch(qt.name)
        else:
            fc = nm("from_category")
            kw["from_category"] = fc
            R.touch(fc.name)
            P.assume(fc.name != lit(""), "pre:from_category is a non-empty name")
            ctx["from_category"] = fc
        R.touch(cat.name)
        vlist = None
        if vu != "none":
            n = int(vu[4:])
            names = [z3.Const("vu%d" % i, NameS) for i in range(n)]
            for x in names:
                R.touch(x)
            vlist = SRef(P.alloc(HList([sname(x) for x in names], region="param")))
            kw["valid_units"] = vlist
            ctx["vu_names"] = names
        if du == "du":
            kw["default_unit"] = nm("default_unit")
            R.touch(kw["default_unit"].name)
        if dv == "dv":
            kw["default_value"] = SNum(z3.Real("default_value"), "float")
        if mn == "min":
            kw["min_value"] = SNum(z3.Real("min_value"), "float")
        if mx == "max":
            kw["max_value"] = SNum(z3.Real("max_value"), "float")
        kw["override"] = SBool(z3.Bool("override"))
        kw["is_min_exclusive"] = SBool(z3.Bool("is_min_exclusive"))
        kw["is_max_exclusive"] = SBool(z3.Bool("is_max_exclusive"))
        st0 = R.snapshot()
        G = Generic(P, R, st0)
        if "from_category" in ctx:
            # the source category's entry and list elements satisfy WF as well
            fcn = ctx["from_category"].name
            vu = S(S(st0["C_vu_at"], fcn), G.j)
            for f in (R.inv_W3(fcn, st0), R.inv_W3vu(fcn, G.j, st0), R.inv_W1a(vu, st0), R.inv_F1(vu, st0), R.inv_W1c(S(st0["C_qt"], fcn), vu, st0), R.inv_W1c(S(st0["C_qt"], fcn), G.u, st0)):
                if f is not None:
                    P.assume(f, "inv:WF(pre) at the source category")
        ctx.update({"f": bound(I, db, "AddCategory"), "args": [cat], "kwargs": kw, "R": R, "st": st0, "G": G, "category": cat, "kw": kw, "vlist": vlist, "variant": variant})
        return ctx

    def inputs(self, ctx):
        """the effective arguments after inheritance from from_category: z3 views"""
        st, kw = ctx["st"], ctx["kw"]
        fc = ctx.get("from_category")
        d = {}
        if fc is None:
            d["qt"] = kw["quantity_type"].name
        else:
            d["qt"] = S(st["C_qt"], fc.name)

        def opt(key, none_f, val_f):
            if key in kw:
                return F, kw[key].real()
            if fc is not None:
                return S(st[none_f], fc.name), S(st[val_f], fc.name)
            return T, z3.RealVal(0)

        d["min_none"], d["min"] = opt("min_value", "C_min_none", "C_min")
        d["max_none"], d["max"] = opt("max_value", "C_max_none", "C_max")
        if "default_value" in kw:
            d["dv_none"], d["dv"] = F, kw["default_value"].real()
        elif fc is not None:
            d["dv_none"], d["dv"] = F, S(st["C_dv"], fc.name)
        else:
            d["dv_none"], d["dv"] = T, z3.RealVal(0)
        d["minex"], d["maxex"] = to_z3b(kw["is_min_exclusive"].t), to_z3b(kw["is_max_exclusive"].t)
        return d

    def cases(self, I, ctx):
        R, st, kw = ctx["R"], ctx["st"], ctx["kw"]
        cat = ctx["category"].name
        d = self.inputs(ctx)
        fc = ctx.get("from_category")
        qt = d["qt"]
        exists = S(st["C_dom"], cat)
        ov = to_z3b(kw["override"].t)
        # sufficient conditions for acceptance (all checks of the function are satisfied)
        good = [z3.Or(ov, z3.Not(exists)), S(st["Q_dom"], qt), S(st["Q_len"], qt) > 0]
        if fc is not None:
            good.append(S(st["C_dom"], fc.name))
        good.append(z3.Or(d["min_none"], d["max_none"], d["min"] <= d["max"]))
        inq = lambda x: z3.And(S(st["U_dom"], x), S(st["U_qt"], x) == qt)
        if "vu_names" in ctx:
            for x in ctx["vu_names"]:
                good.append(z3.And(fixf(x) == x, inq(x)))
        elif fc is not None:
            # inherited list: stored units are registered fix-points (WF)
            pass
        if "default_unit" in kw:
            good.append(z3.And(fixf(kw["default_unit"].name) == kw["default_unit"].name, inq(kw["default_unit"].name)))
        elif fc is not None:
            good.append(inq(S(st["C_du"], fc.name)))
        dvn = d["dv_none"]
        good.append(z3.Implies(dvn, z3.Not(z3.Or(d["minex"], d["maxex"]))))
        good.append(z3.Implies(z3.And(z3.Not(dvn), z3.Not(d["min_none"])), z3.If(d["minex"], d["dv"] > d["min"], d["dv"] >= d["min"])))
        good.append(z3.Implies(z3.And(z3.Not(dvn), z3.Not(d["max_none"])), z3.If(d["maxex"], d["dv"] < d["max"], d["dv"] <= d["max"])))
        g = And(good)
        return [ret("well-formed-arguments-are-accepted", g, props=("C14",), check=lambda I, res: z3.BoolVal(res is not SNone)), unspecified("other-arguments", z3.Not(g))]

    def extra_obligations(self, I, ctx, outcome):
        R, st0, G, kw = ctx["R"], ctx["st"], ctx["G"], ctx["kw"]
        st1 = R.snapshot()
        cat = ctx["category"].name
        obs = []
        if outcome[0] == "raise":
            obs.append(("unchanged_on_raise[registry]", ("C14", "C15"), unchanged(st0, st1, ("U", "Q", "C"))))
            return obs
        d = self.inputs(ctx)
        c = cat
        oc = I.P.fresh("other_cat", NameS)
        frame = [st1[f] == st0[f] for g in ("U", "Q") for f in GROUPS[g]]
        frame.append(z3.Implies(oc != c, And([S(st1[f], oc) == S(st0[f], oc) for f in GROUPS["C"]])))
        frame[-1] = z3.Implies(oc != c, And([S(st1[f], oc) == S(st0[f], oc) for f in GROUPS["C"]]))
        obs.append(("post[only the entry of this category is written]", ("C14", "C15"), And(frame)))
        # stored fields
        conj = [S(st1["C_dom"], c), S(st1["C_qt"], c) == d["qt"]]
        conj += [S(st1["C_min_none"], c) == d["min_none"], z3.Implies(z3.Not(d["min_none"]), S(st1["C_min"], c) == d["min"])]
        conj += [S(st1["C_max_none"], c) == d["max_none"], z3.Implies(z3.Not(d["max_none"]), S(st1["C_max"], c) == d["max"])]
        conj += [S(st1["C_minex"], c) == d["minex"], S(st1["C_maxex"], c) == d["maxex"]]
        dv1 = S(st1["C_dv"], c)
        conj.append(z3.If(z3.Not(d["dv_none"]), dv1 == d["dv"], z3.If(z3.Not(d["min_none"]), dv1 == d["min"], z3.If(z3.Not(d["max_none"]), dv1 == d["max"], dv1 == 0))))
        if "default_unit" in kw:
            conj.append(S(st1["C_du"], c) == fixf(kw["default_unit"].name))
        if "vu_names" in ctx:
            names = ctx["vu_names"]
            conj += [z3.Not(S(st1["C_vu_none"], c)), S(st1["C_vu_len"], c) == len(names)]
            for k, x in enumerate(names):
                conj.append(S(S(st1["C_vu_at"], c), k) == fixf(x))
            pm = I.P.fresh("some_unit", NameS)
            conj.append(S(S(st1["C_vu_mem"], c), pm) == Or([pm == fixf(x) for x in names]))
            vus = getattr(R, "stored_vus", None)
            conj.append(to_z3b(self.set_matches(I, vus, [fixf(x) for x in names])))
        elif ctx.get("from_category") is None:
            conj.append(S(st1["C_vu_none"], c))
        stored_cat = getattr(R, "stored_category_field", None)
        conj.append(to_z3b(I.equal(stored_cat, ctx["category"])) if stored_cat is not None else F)
        obs.append(("post[stored fields are the given / inherited / derived ones]", ("C14", "C12"), And(conj)))
        # the new entry satisfies W3; WF preserved everywhere (generic keys)
        j = G.j
        obs.append(("post[W3 for the new category: type exists, default unit of the type, ordered limits, default value inside limits]", ("C14", "C12"), R.inv_W3(c, st1)))
        obs.append(("post[W3 for the new category: every valid unit belongs to the type]", ("C14", "C12"), R.inv_W3vu(c, j, st1)))
        for name, goal in G.goals(R, st1):
            obs.append(("inv[%s]" % name, ("C14",), goal))
        obs.append(("inv[CC memo stays consistent with the registry]", ("C15",), G.cc_goal(R, st1)))
        return obs

    @staticmethod
    def set_matches(I, setv, terms):
        """valid_units_set == set(valid_units)"""
        if not (isinstance(setv, SRef) and isinstance(setv.o, HSet)):
            return False
        pm = I.P.fresh("member", NameS)
        inset = to_z3b(I.contains(setv, sname(pm)))
        return inset == Or([pm == t for t in terms])

    def allowed_write(self, I, ctx, obj, what):
        # the caller's valid_units list is rewritten in place with the current spellings
        if ctx.get("vlist") is not None and obj is ctx["vlist"].o:
            return True
        return FunctionSpec.allowed_write(self, I, ctx, obj, what)
