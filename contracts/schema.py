"""Input schemas: symbolic objects satisfying their class invariants (type invariants of inputs go
into preconditions)."""
import z3

from pyvc.engine import NameS, FnS, RealS, IntS, lit, OutOfSubset
from pyvc.values import *
from pyvc.registry import make_db, RegCat, RegInfo, UNKNOWN_QT, UNKNOWN_UNIT
from pyvc import symseq

Q_MOD = "barril.units._quantity"
S = z3.Select


def caption_norm(cap):
    return SStr("") if cap is SNone else cap

LAZY_SLOTS = ("_hash", "_composing_units_joining_exponents")


def nm(base):
    return sname(z3.Const(base, NameS))


def qclass(I):
    return I.repo.cls(Q_MOD + ":Quantity")


def simple_quantity(I, R, db, c, u, caption=None, tag="q", assume=True, unknown=False):
    """A simple Quantity satisfying QI:  category c registered, unit u resolves inside c's quantity
    type (or, unknown=True, the type is 'Unknown' and u is arbitrary), cached _tobase is the
    registered to-base function of the resolved unit."""
    P = I.P
    S = z3.Select
    o = P.alloc(HObj(qclass(I), region="quantity"))
    qt = S(R.C_qt, c)
    if assume:
        P.assume(S(R.C_dom, c), "QI:category registered")
        R.on_cat(c)
        if unknown:
            P.assume(z3.And(qt == lit(UNKNOWN_QT), z3.Not(R.hit(qt, u)), R.hit(lit(UNKNOWN_QT), lit(UNKNOWN_UNIT))), "QI:unknown quantity")
            R.on_unit(lit(UNKNOWN_UNIT))
        else:
            P.assume(R.hit(qt, u), "QI:unit belongs to the category's quantity type")
            R.on_unit(u)
    key = lit(UNKNOWN_UNIT) if unknown else u
    m = P.alloc(HDict([(sname(c), SRef(P.alloc(HList([sname(u), SNum(1)], region="quantity-internal")))),], ordered=True, region="quantity-internal"))
    f = o.fields
    f["_unit_database"] = db
    f["_unknown_unit_caption"] = caption if caption is not None else SStr("")
    f["_is_derived"] = SBool(False)
    f["_category_info"] = RegCat(R, c)
    f["_category_to_unit_and_exps"] = SRef(m)
    f["_category"] = sname(c)
    f["_quantity_type"] = sname(qt)
    f["_unit"] = sname(u)
    f["_tobase"] = SFn(S(R.U_tb, key))
    f["_composing_units"] = sname(u)
    f["_composing_categories"] = sname(c)
    o.qinfo = {"kind": "simple", "c": c, "u": u, "key": key, "unknown": unknown, "entries": [(c, u, z3.IntVal(1))]}
    return SRef(o)


def derived_quantity(I, R, db, entries, tag="dq", caption=None, assume=True, allow_zero_exp=False):
    """A derived Quantity over the composing map entries [(c_i, u_i, e_i)] (names and exponents
    symbolic; the number of entries is the shape).  QI: categories pairwise distinct and registered,
    each unit belongs to its category's quantity type, exponents are non-zero integers."""
    P = I.P
    S = z3.Select
    o = P.alloc(HObj(qclass(I), region="quantity"))
    ents = []
    for c, u, e in entries:
        ents.append((sname(c), SRef(P.alloc(HList([sname(u), SNum(e, "int")], region="quantity-internal")))))
        if assume:
            P.assume(S(R.C_dom, c), "QI:category registered")
            R.on_cat(c)
            P.assume(R.hit(S(R.C_qt, c), u), "QI:unit belongs to the category's quantity type")
            R.on_unit(u)
            if not allow_zero_exp:
                P.assume(e != 0, "QI:non-zero exponent")
    if assume and len(entries) > 1:
        P.assume(z3.Distinct(*[c for c, _, _ in entries]), "QI:distinct categories (dict keys)")
    m = P.alloc(HDict(ents, ordered=True, region="quantity-internal"))
    f = o.fields
    f["_unit_database"] = db
    f["_unknown_unit_caption"] = caption if caption is not None else SStr("")
    f["_is_derived"] = SBool(True)
    f["_category_info"] = SNone
    f["_category_to_unit_and_exps"] = SRef(m)
    f["_category"] = sname(P.fresh(tag + "_category", NameS))
    f["_quantity_type"] = sname(P.fresh(tag + "_qtype", NameS))
    f["_unit"] = sname(P.fresh(tag + "_unit", NameS))
    f["_composing_units"] = STuple([STuple([sname(u), SNum(e, "int")]) for _, u, e in entries])
    f["_composing_categories"] = STuple([sname(c) for c, _, _ in entries])
    o.qinfo = {"kind": "derived", "entries": list(entries)}
    return SRef(o)


def fresh_entries(P, n, tag):
    out = []
    for i in range(n):
        out.append((z3.Const("%s_c%d" % (tag, i), NameS), z3.Const("%s_u%d" % (tag, i), NameS), z3.Const("%s_e%d" % (tag, i), IntS)))
    return out


def cmap_of(q):
    """[(category Name term, unit Name term, exponent Int term)] read from the object's map"""
    m = q.o.fields["_category_to_unit_and_exps"].o
    out = []
    for k, v in m.entries:
        items = v.items if isinstance(v, STuple) else v.o.items
        out.append((k.name, items[0].name, items[1].t))
    return out


def quantity_snapshot(q):
    """deep snapshot of everything C07 calls the value of a quantity"""
    f = q.o.fields
    m = f["_category_to_unit_and_exps"]
    ents = []
    for k, v in m.o.entries:
        items = v.items if isinstance(v, STuple) else v.o.items
        ents.append((k, v, list(items)))
    return {
        "fields": {k: v for k, v in f.items() if k not in LAZY_SLOTS},
        "map_obj": m.o,
        "entries": ents,
    }


def quantity_unchanged(I, q, snap):
    """z3 Bool: every slot (other than the two lazy ones) and the composing map are as in snap"""
    from pyvc.contract import same_value
    from pyvc.interp import to_z3b

    f = q.o.fields
    conj = []
    for k, v in snap["fields"].items():
        if k not in f:
            return False
        conj.append(to_z3b(same_value(I, f[k], v)))
    for k in f:
        if k not in snap["fields"] and k not in LAZY_SLOTS:
            return False
    m = f["_category_to_unit_and_exps"]
    if not (isinstance(m, SRef) and m.o is snap["map_obj"]):
        return False
    if len(m.o.entries) != len(snap["entries"]):
        return False
    for (k, v), (k0, v0, items0) in zip(m.o.entries, snap["entries"]):
        conj.append(to_z3b(I.equal(k, k0)))
        if isinstance(v, SRef) and isinstance(v0, SRef):
            if v.o is not v0.o:
                return False
            items = v.o.items
        elif isinstance(v, STuple) and isinstance(v0, STuple):
            items = v.items
        else:
            return False
        if len(items) != len(items0):
            return False
        for a, b in zip(items, items0):
            conj.append(to_z3b(I.equal(a, b)))
    return z3.And(*conj) if conj else True


# ------------------------------------------------------------------------------------------------
# value objects


def vclass(I, name):
    mod = {
        "Scalar": "barril.units._scalar",
        "Array": "barril.units._array",
        "FixedArray": "barril.units._fixedarray",
        "FractionScalar": "barril.units._fraction_scalar",
    }[name]
    return I.repo.cls("%s:%s" % (mod, name))


def scalar_obj(I, db, q, value=None, tag="s", cls="Scalar"):
    P = I.P
    o = P.alloc(HObj(vclass(I, cls), region="param"))
    if value is None:
        value = SNum(z3.Real(tag + "_value"), "float")
    o.fields["_value"] = value
    o.fields["_quantity"] = q
    o.fields["_unit_database"] = db
    return SRef(o)


def array_obj(I, db, q, values, tag="a", cls="Array", dimension=None):
    P = I.P
    o = P.alloc(HObj(vclass(I, cls), region="param"))
    o.fields["_value"] = values
    o.fields["_quantity"] = q
    o.fields["_unit_database"] = db
    o.fields["_is_valid"] = SNone
    o.fields["_validity_exception"] = SNone
    if cls == "FixedArray":
        o.fields["_dimension"] = dimension
    return SRef(o)


def value_unchanged(I, ref, snap):
    from pyvc.contract import same_value
    from pyvc.interp import to_z3b

    f = ref.o.fields
    conj = []
    for k, v in snap.items():
        if k in ("_is_valid", "_validity_exception"):
            continue
        if k not in f:
            return False
        conj.append(to_z3b(same_value(I, f[k], v)))
    return z3.And(*conj) if conj else True


def fill_simple_fields(I, o, R, db, c, u_res, cap, st=None):
    """make object o the simple quantity (c, u_res) — used by summaries (QI by the callee's contract)"""
    P = I.P
    st = st or R.snapshot()
    qt = S(st["C_qt"], c)
    tb = P.fresh("tobase", FnS)
    alts = []
    from .unit_database import getinfo_cases

    for n, g, k, x in getinfo_cases(R, st, qt, u_res, True, True):
        if k == "info":
            alts.append(z3.And(g, tb == S(st["U_tb"], x)))
    P.assume(z3.Or(*alts), "post:Quantity.__init__ (_tobase)")
    m = P.alloc(HDict([(sname(c), SRef(P.alloc(HList([sname(u_res), SNum(1)], region="quantity-internal"))))], ordered=True, region="quantity-internal"))
    f = o.fields
    f["_unit_database"] = db
    f["_unknown_unit_caption"] = caption_norm(cap)
    f["_is_derived"] = SBool(False)
    f["_category_info"] = RegCat(R, c)
    f["_category_to_unit_and_exps"] = SRef(m)
    f["_category"] = sname(c)
    f["_quantity_type"] = sname(qt)
    f["_unit"] = sname(u_res)
    f["_tobase"] = SFn(tb)
    f["_composing_units"] = sname(u_res)
    f["_composing_categories"] = sname(c)
    o.region = "quantity"
    o.qinfo = {"kind": "simple", "c": c, "u": u_res, "key": None, "unknown": None, "entries": [(c, u_res, z3.IntVal(1))]}


def new_simple_quantity(I, R, db, c, u_res, cap):
    o = I.P.alloc(HObj(qclass(I), region="quantity"))
    fill_simple_fields(I, o, R, db, c, u_res, cap)
    R.on_cat(c)
    return SRef(o)


