"""Contracts for barril.units._quantity and the category/unit checks of unit_database."""
import ast
import z3

from pyvc.engine import NameS, FnS, RealS, IntS, app, fixf, lit, PyRaise, OutOfSubset
from pyvc.values import *
from pyvc.interp import to_z3b
from pyvc.contract import FunctionSpec, Case, ret, rai, unspecified, register, REGISTRY, same_value
from pyvc.registry import make_db, RegInfo, RegCat, UNKNOWN_QT, UNKNOWN_UNIT
from pyvc import symseq
from .schema import *
from .unit_database import getinfo_cases, conv_term, UDB, nm, bound

T = z3.BoolVal(True)
F = z3.BoolVal(False)
S = z3.Select


def ext_value(P, base="value"):
    """a float that may be NaN / +inf / -inf (flags mutually exclusive)"""
    nan, pinf, ninf = z3.Bool(base + "_nan"), z3.Bool(base + "_pinf"), z3.Bool(base + "_ninf")
    P.assume(z3.AtMost(nan, pinf, ninf, 1), "float: at most one special flag")
    return SNum(z3.Real(base), "float", nan, pinf, ninf)


# ------------------------------------------------------------------------------------------------
@register
class CheckCategoryUnitSpec(FunctionSpec):
    """returns iff valid(R,c,u), else InvalidUnitError; the verdict is memoised: M' = M[(c,u) ↦ valid]
    on the miss path, M' = M on the hit path (the memo agrees with valid by invariant CC)."""

    probe = "db_lookup"

    fq = UDB + ":UnitDatabase.CheckCategoryUnit"
    props = ("C05", "C15")
    callees = (UDB + ":UnitDatabase.GetInfo",)

    def setup(self, I, variant):
        db, R = make_db(I)
        c, u = nm("category"), nm("unit")
        return {"f": bound(I, db, "CheckCategoryUnit"), "args": [c, u], "R": R, "st": R.snapshot(), "category": c, "unit": u}

    def bind_call(self, I, f, args, kwargs):
        ctx = FunctionSpec.bind_call(self, I, f, args, kwargs)
        R = I.P.ghost["reg"]
        ctx["R"], ctx["st"] = R, R.snapshot()
        return ctx

    def cases(self, I, ctx):
        R, st = ctx["R"], ctx["st"]
        c, u = ctx["category"], ctx["unit"]
        if not (isinstance(c, SStr) and isinstance(u, SStr)):
            return [rai("non-str", T, "AssertionError", props=("C05",))]
        c, u = c.name, u.name
        v = R.valid(c, u, st)
        known = S(S(st["M_dom"], c), u)

        def eff(val):
            def apply(I):
                # memo: insert-only, consistent with valid (CC)
                R.M_dom = z3.If(known, R.M_dom, z3.Store(R.M_dom, c, z3.Store(S(R.M_dom, c), u, T)))
                R.M_val = z3.If(known, R.M_val, z3.Store(R.M_val, c, z3.Store(S(R.M_val, c), u, z3.BoolVal(val))))
                R.writes.append(("M", (c, u)))

            return apply

        return [
            ret("valid", v, SNone, props=("C05",), effects=eff(True)),
            rai("invalid", z3.Not(v), "InvalidUnitError", props=("C05",), effects=eff(False)),
        ]

    def extra_obligations(self, I, ctx, outcome):
        R, st = ctx["R"], ctx["st"]
        c, u = ctx["category"].name, ctx["unit"].name
        v = R.valid(c, u, st)
        known = S(S(st["M_dom"], c), u)
        exp_dom = z3.If(known, st["M_dom"], z3.Store(st["M_dom"], c, z3.Store(S(st["M_dom"], c), u, T)))
        exp_val = z3.If(known, st["M_val"], z3.Store(st["M_val"], c, z3.Store(S(st["M_val"], c), u, v)))
        only_memo = all(w[0] == "M" for w in R.writes)
        return [
            ("memo[insert-only, consistent with valid]", ("C15", "C05"), z3.And(R.M_dom == exp_dom, R.M_val == exp_val)),
            ("frame[only the memo is written]", ("C15", "C05"), only_memo),
        ]


# ------------------------------------------------------------------------------------------------
@register
class ConvertScalarValueSpec(FunctionSpec):
    """simple quantity: to_unit == unit ⇒ result is value; else result = conv(unit → resolved to_unit)(value),
    the cached _tobase being the registered to-base function (QI)."""

    probe = "scalar_getvalue"

    fq = Q_MOD + ":Quantity.ConvertScalarValue"
    props = ("C02", "C05", "C12")
    callees = (UDB + ":UnitDatabase.GetInfo",)

    def variants(self, tier):
        return ["simple", "unknown"]

    def setup(self, I, variant):
        db, R = make_db(I)
        q = simple_quantity(I, R, db, z3.Const("c", NameS), z3.Const("u", NameS), unknown=(variant == "unknown"))
        v = SNum(z3.Real("value"), "float")
        tu = nm("to_unit")
        return {"f": I.getattr(q, "ConvertScalarValue"), "args": [v, tu], "R": R, "st": R.snapshot(), "self": q, "value": v, "to_unit": tu}

    def bind_call(self, I, f, args, kwargs):
        ctx = FunctionSpec.bind_call(self, I, f, args, kwargs)
        R = I.P.ghost["reg"]
        ctx["R"], ctx["st"] = R, R.snapshot()
        return ctx

    def inline_when(self, I, f, args, kwargs):
        q = args[0]
        qi = getattr(getattr(q, "o", None), "qinfo", None)
        return qi is None or qi["kind"] != "simple"

    def cases(self, I, ctx):
        R, st = ctx["R"], ctx["st"]
        q, v, tu = ctx["self"], ctx["value"], ctx["to_unit"]
        qi = getattr(q.o, "qinfo", None)
        if qi is None or qi["kind"] != "simple" or not isinstance(tu, SStr):
            return [unspecified("derived-or-unknown-shape", T)]
        if not isinstance(v, SNum):
            return [unspecified("non-float value", T)]
        u, c = qi["u"], qi["c"]
        tbt = q.o.fields["_tobase"].t  # QI: the registered to-base function of the (resolved) unit
        qt = S(st["C_qt"], c)
        same = u == tu.name
        out = [ret("own-unit", same, v, props=("C02",))]
        for n, g, k, x in getinfo_cases(R, st, qt, tu.name, True, True):
            g = z3.And(z3.Not(same), g)
            if k == "raise":
                out.append(rai("to:%s" % n, g, x, props=("C05",)))
            else:
                def chk(I, res, x=x):
                    if not isinstance(res, SNum):
                        return False
                    r = res.real() == app(S(st["U_fb"], x), app(tbt, v.real()))
                    if v.extended:
                        if not res.extended:
                            return False
                        r = z3.And(r, res.nan == v.nan, res.pinf == v.pinf, res.ninf == v.ninf)
                    return r

                def val(I, x=x):
                    t = app(S(st["U_fb"], x), app(tbt, v.real()))
                    if v.extended:
                        return SNum(t, "float", v.nan, v.pinf, v.ninf)
                    return SNum(t, "float")

                out.append(ret("to:%s" % n, g, val, props=("C02",) if n != "legacy" else ("C16",), check=chk))
        return out

    def extra_obligations(self, I, ctx, outcome):
        return [("frame[registry unchanged]", ("C15", "C13"), not ctx["R"].writes)]


# ------------------------------------------------------------------------------------------------
def limit_terms(R, st, c):
    return {
        "min_none": S(st["C_min_none"], c),
        "max_none": S(st["C_max_none"], c),
        "min": S(st["C_min"], c),
        "max": S(st["C_max"], c),
        "minex": S(st["C_minex"], c),
        "maxex": S(st["C_maxex"], c),
    }


def limits_ok(I, L, y):
    """spec: y (extended float) satisfies the limits L ; returns (ok_min, ok_max)"""
    mn, mx = SNum(L["min"], "float"), SNum(L["max"], "float")
    gt = to_z3b(I.num_cmp(ast.Gt(), y, mn))
    ge = to_z3b(I.num_cmp(ast.GtE(), y, mn))
    lt = to_z3b(I.num_cmp(ast.Lt(), y, mx))
    le = to_z3b(I.num_cmp(ast.LtE(), y, mx))
    ok_min = z3.Or(L["min_none"], z3.If(L["minex"], gt, ge))
    ok_max = z3.Or(L["max_none"], z3.If(L["maxex"], lt, le))
    return ok_min, ok_max


@register
class CheckValueSpec(FunctionSpec):
    """derived ⇒ accepts;  otherwise with y = value re-expressed in the category's default unit:
    raises QuantityValidationError(value=y, operator, limit) for the first violated limit (min before
    max; operator by exclusivity), returns None iff y satisfies both.  NaN satisfies no limit."""

    fq = Q_MOD + ":Quantity.CheckValue"
    props = ("C12",)
    probe = "validity"
    callees = (Q_MOD + ":Quantity.ConvertScalarValue",)

    def variants(self, tier):
        return [("simple", False), ("simple", True), ("derived", False)]

    def setup(self, I, variant):
        kind, lits = variant
        db, R = make_db(I)
        if kind == "simple":
            q = simple_quantity(I, R, db, z3.Const("c", NameS), z3.Const("u", NameS))
        else:
            q = derived_quantity(I, R, db, fresh_entries(I.P, 1, "q"))
        v = ext_value(I.P)
        return {"f": I.getattr(q, "CheckValue"), "args": [v], "kwargs": {"use_literals": SBool(lits)}, "R": R, "st": R.snapshot(), "self": q, "value": v, "use_literals": SBool(lits)}

    def bind_call(self, I, f, args, kwargs):
        ctx = FunctionSpec.bind_call(self, I, f, args, kwargs)
        R = I.P.ghost["reg"]
        ctx["R"], ctx["st"] = R, R.snapshot()
        return ctx

    OPS = {False: {">": ">", ">=": ">=", "<": "<", "<=": "<="}, True: {">": "greater than", ">=": "greater or equal to", "<": "less than", "<=": "less or equal to"}}

    def cases(self, I, ctx):
        R, st = ctx["R"], ctx["st"]
        q, v = ctx["self"], ctx["value"]
        qi = getattr(q.o, "qinfo", None)
        if qi is None:
            return [unspecified("unknown quantity shape", T)]
        if qi["kind"] == "derived":
            return [ret("derived", T, SNone)]
        if not isinstance(v, SNum):
            return [unspecified("non-float", T)]
        lits = ctx["use_literals"].concrete()
        if lits is None:
            return [unspecified("symbolic use_literals", T)]
        c, u = qi["c"], qi["u"]
        tbt = q.o.fields["_tobase"].t
        L = limit_terms(R, st, c)
        du = S(st["C_du"], c)
        # y: the amount in the default unit
        conv = app(S(st["U_fb"], du), app(tbt, v.real()))
        yr = z3.If(u == du, v.real(), conv)
        if v.extended:
            y = SNum(yr, "float", v.nan, v.pinf, v.ninf)
        else:
            y = SNum(yr, "float")
        ok_min, ok_max = limits_ok(I, L, y)
        nolim = z3.And(L["min_none"], L["max_none"])
        ops = self.OPS[lits]

        def exc_check(opx, opi, limit):
            def chk(I, e):
                f = e.o.fields
                if not all(k in f for k in ("value", "operator", "limit_value")):
                    return False
                val, op, lim = f["value"], f["operator"], f["limit_value"]
                if not (isinstance(val, SNum) and isinstance(op, SStr) and isinstance(lim, SNum)):
                    return False
                conj = [val.real() == yr, lim.real() == limit]
                if op.py is None:
                    return False
                ex = L["minex"] if opx in (">",) else L["maxex"]
                conj.append(z3.If(ex, z3.BoolVal(op.py == ops[opx]), z3.BoolVal(op.py == ops[opi])))
                if v.extended:
                    if not val.extended:
                        return False
                    conj.append(z3.And(val.nan == v.nan, val.pinf == v.pinf, val.ninf == v.ninf))
                return z3.And(*conj)

            return chk

        return [
            ret("no-limits", nolim, SNone),
            rai("below-min", z3.And(z3.Not(nolim), z3.Not(ok_min)), "QuantityValidationError", check_exc=exc_check(">", ">=", L["min"])),
            rai("above-max", z3.And(z3.Not(nolim), ok_min, z3.Not(ok_max)), "QuantityValidationError", check_exc=exc_check("<", "<=", L["max"])),
            ret("inside", z3.And(z3.Not(nolim), ok_min, ok_max), SNone),
        ]

    def extra_obligations(self, I, ctx, outcome):
        return [("frame[registry unchanged]", ("C15", "C13", "C12"), not ctx["R"].writes)]


# ------------------------------------------------------------------------------------------------
@register
class QuantityInitSpec(FunctionSpec):
    """Quantity.__init__, simple branch: establishes QI or raises with the registry unchanged
    (memo extended consistently)."""

    fq = Q_MOD + ":Quantity.__init__"
    props = ("C05", "C07", "C16", "C02", "C14")
    callees = (UDB + ":UnitDatabase.CheckCategoryUnit", UDB + ":UnitDatabase.GetInfo", UDB + ":FixUnitIfIsLegacy")

    def variants(self, tier):
        return [("unit", "nocap"), ("unit", "cap"), ("nounit", "nocap")]

    def setup(self, I, variant):
        uk, ck = variant
        db, R = make_db(I)
        o = I.P.alloc(HObj(qclass(I), region="fresh-self"))
        self_ = SRef(o)
        c = nm("category")
        u = nm("unit") if uk == "unit" else SNone
        cap = nm("caption") if ck == "cap" else SNone
        init = SFunc(I.repo.func(self.fq))
        return {"f": init, "args": [self_, c, u, cap], "R": R, "st": R.snapshot(), "self": self_, "category": c, "unit": u, "unknown_unit_caption": cap}

    def allowed_write(self, I, ctx, obj, what):
        return obj is ctx["self"].o or FunctionSpec.allowed_write(self, I, ctx, obj, what)

    def bind_call(self, I, f, args, kwargs):
        ctx = FunctionSpec.bind_call(self, I, f, args, kwargs)
        R = I.P.ghost["reg"]
        ctx["R"], ctx["st"] = R, R.snapshot()
        if ctx["category"].pytype() == "OrderedDict":
            raise OutOfSubset("derived Quantity.__init__ through the simple-branch contract")
        return ctx

    def inline_when(self, I, f, args, kwargs):
        # derived branch (composing map given): the real body is executed at the call site
        a = args[1] if len(args) > 1 else kwargs.get("category")
        return a is not None and a.pytype() == "OrderedDict"

    def resolution(self, R, st, c, u):
        """(guard_ok_direct, guard_ok_legacy, resolved unit term)"""
        v1 = R.valid(c, u, st)
        v2 = z3.And(z3.Not(v1), fixf(u) != u, R.valid(c, fixf(u), st))
        return v1, v2

    def cases(self, I, ctx):
        R, st = ctx["R"], ctx["st"]
        c, u, cap = ctx["category"], ctx["unit"], ctx["unknown_unit_caption"]
        self_ = ctx["self"]
        if not isinstance(c, SStr):
            return [rai("non-str-category", T, "TypeError", props=("C05",))]
        if not (u is SNone or isinstance(u, SStr)) or not (cap is SNone or isinstance(cap, SStr)):
            return [unspecified("non-str unit/caption", T)]
        cdom = S(st["C_dom"], c.name)
        is_call = ctx.get("$call")

        def eff(ures):
            if not is_call:
                return None

            def apply(I):
                from .obtain import havoc_memo

                havoc_memo(I, R)
                fill_simple_fields(I, self_.o, R, I.P.ghost["db"], c.name, ures, cap, st)

            return apply

        def chk(ures):
            return None if is_call else self.qi_check(ctx, ures)

        val = SNone if is_call else None
        out = [rai("unknown-category", z3.Not(cdom), "InvalidQuantityTypeError", props=("C05",))]
        if u is SNone:
            ures = S(st["C_du"], c.name)
            out.append(ret("default-unit", cdom, val, props=("C07", "C02"), check=chk(ures), effects=eff(ures)))
            return out
        v1, v2 = self.resolution(R, st, c.name, u.name)
        out.append(ret("valid-unit", z3.And(cdom, v1), val, props=("C07", "C02", "C05"), check=chk(u.name), effects=eff(u.name)))
        out.append(ret("legacy-unit", z3.And(cdom, v2), val, props=("C16",), check=chk(fixf(u.name)), effects=eff(fixf(u.name))))
        out.append(rai("invalid-unit", z3.And(cdom, z3.Not(v1), z3.Not(v2)), "InvalidUnitError", props=("C05",), effects=(lambda I: __import__("contracts.obtain", fromlist=["havoc_memo"]).havoc_memo(I, R)) if is_call else None))
        return out

    def qi_check(self, ctx, ures):
        R, st = ctx["R"], ctx["st"]
        c, cap = ctx["category"], ctx["unknown_unit_caption"]
        self_ = ctx["self"]

        def chk(I, res):
            f = self_.o.fields
            need = ("_category", "_unit", "_quantity_type", "_tobase", "_category_info", "_category_to_unit_and_exps", "_is_derived", "_unknown_unit_caption", "_composing_units", "_composing_categories", "_unit_database")
            if not all(k in f for k in need):
                return False
            qt = S(st["C_qt"], c.name)
            conj = []
            conj.append(to_z3b(I.equal(f["_category"], c)))
            conj.append(to_z3b(I.equal(f["_unit"], sname(ures))))
            conj.append(to_z3b(I.equal(f["_quantity_type"], sname(qt))))
            conj.append(to_z3b(I.identical(f["_category_info"], RegCat(R, c.name))))
            conj.append(to_z3b(I.equal(f["_is_derived"], SBool(False))))
            conj.append(to_z3b(I.equal(f["_unknown_unit_caption"], caption_norm(cap))))
            conj.append(to_z3b(I.equal(f["_composing_units"], sname(ures))))
            conj.append(to_z3b(I.equal(f["_composing_categories"], c)))
            # cached to-base function: that of the unit GetInfo(fix_unknown=True) resolves to
            tb = f["_tobase"]
            if not isinstance(tb, SFn):
                return False
            alts = []
            for n, g, k, x in getinfo_cases(R, st, qt, ures, True, True):
                if k == "info":
                    alts.append(z3.And(g, tb.t == S(st["U_tb"], x)))
            conj.append(z3.Or(*alts))
            m = f["_category_to_unit_and_exps"]
            if not (isinstance(m, SRef) and isinstance(m.o, HDict) and m.o.ordered and len(m.o.entries) == 1):
                return False
            k, v = m.o.entries[0]
            if not (isinstance(v, SRef) and isinstance(v.o, HList) and len(v.o.items) == 2):
                return False  # QI demands a *list* [unit, exp]
            conj.append(to_z3b(I.equal(k, c)))
            conj.append(to_z3b(I.equal(v.o.items[0], sname(ures))))
            conj.append(to_z3b(I.equal(v.o.items[1], SNum(1))))
            return z3.And(*conj)

        return chk

    def extra_obligations(self, I, ctx, outcome):
        R = ctx["R"]
        only_memo = all(w[0] == "M" for w in R.writes)
        return [("frame[registry: only the memo]", ("C05", "C15", "C07"), only_memo)]
