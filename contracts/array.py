"""Array operators (C10, C09, C03, C04): Array OP Array and Array OP number for list-, tuple- and
numpy-backed values of *unknown length*.  Array._DoOperation is verified modularly: the database
operations it calls per element are replaced by their contracts (contracts/arith.py), the loop over
the value generator by the map rule of pyvc/loops.py.  Because Scalar and Array go through the same
database-operation contract, 'each element equals the Scalar result' is the statement that element j
of the result is F(a_j, b_j) for the contract's value function F, and the result quantity is the
contract's quantity - independent of the container kinds."""
import ast
import z3

from pyvc.engine import NameS, FnS, RealS, IntS, BoolS, app, fixf, lit, PyRaise, OutOfSubset
from pyvc.values import *
from pyvc.interp import to_z3b
from pyvc.contract import FunctionSpec, Case, ret, rai, unspecified, register, REGISTRY, same_value
from pyvc import symseq
from .schema import *
from .unit_database import UDB, nm, bound
from .values import std_db, mk_q, harness, SC, AR, BASE_CALLEES
from .arith import (
    arith_setup, arith_frames, match_spec, merged_spec, needs_power, reexpress_code, dims_equal, same_entries, entries, caption_of,
    quantity_is, seq_matches, real_op, number_value, BINOPS, NUMBER_KINDS, dim_sum, And, Or, T, F, S,
)

DB_OPS = tuple(UDB + ":UnitDatabase." + n for n in ("Sum", "Subtract", "Multiply", "Divide", "FloorDivide"))
CONTAINERS = ("list", "tuple", "numpy.ndarray")
SHORT = {"list": "list", "tuple": "tuple", "numpy.ndarray": "ndarray"}
LONG = {v: k for k, v in SHORT.items()}


def is_array(res, clsname="Array"):
    return isinstance(res, SRef) and isinstance(res.o, HObj) and getattr(res.o.cls, "name", "") == clsname


@register
class ArrayBinopSpec(FunctionSpec):
    """a OP b, OP in + - * / //, where a, b are Arrays (list / tuple / ndarray values of symbolic
    length) or one of them is a plain number."""

    fq = AR + "._DoOperation"
    key = AR + "._DoOperation#operators"
    props = ("C10", "C09", "C03", "C04", "C05", "C13")
    callees = BASE_CALLEES + DB_OPS
    probe = "array_ops"

    def variants(self, tier):
        out = []
        qpairs = [("simple", "simple")] + ([("simple", "derived1"), ("derived2", "simple")] if tier == "thorough" else [])
        cpairs = [("list", "list"), ("tuple", "tuple"), ("list", "tuple"), ("ndarray", "ndarray"), ("list", "ndarray"), ("ndarray", "list")]
        if tier == "thorough":
            cpairs += [("tuple", "list"), ("tuple", "ndarray"), ("ndarray", "tuple")]
        for op in BINOPS:
            for ca, cb in cpairs:
                if op in ("truediv", "floordiv") and "ndarray" in (ca, cb):
                    continue  # numpy division by zero yields inf/nan: outside the real-number model
                for qa, qb in qpairs:
                    out.append((op, ca, cb, qa, qb))
            for c in ("list", "tuple", "ndarray"):
                # npfloat32: a numpy scalar that is a number without being a python int / float (numpy.int64, float32 ...)
                for k in ("float", "int", "npfloat32"):
                    for qk in ["simple"] + (["derived1", "empty"] if tier == "thorough" else []):
                        if not (op in ("truediv", "floordiv") and c == "ndarray"):
                            out.append((op, c, k, qk, "empty"))
                            out.append((op, k, c, "empty", qk))
        return out

    def setup(self, I, variant):
        op, ca, cb, qka, qkb = variant
        db, R, st, qa, qb = arith_setup(I, qka, qkb)
        P = I.P

        def operand(c, q, tag):
            if c in NUMBER_KINDS:
                return number_value(P, c, "k" + tag)
            vals = symseq.fresh_seq(P, LONG[c], base=tag + "_vals")
            return array_obj(I, db, q, vals, tag=tag)

        a, b = operand(ca, qa, "a"), operand(cb, qb, "b")
        f = harness(lambda I: I.binop(BINOPS[op], a, b))
        vs = tuple(dict(x.o.fields) if isinstance(x, SRef) else None for x in (a, b))
        return {"f": f, "args": [], "R": R, "st": st, "db": db, "qa": qa, "qb": qb, "a": a, "b": b, "op": op, "snaps": (quantity_snapshot(qa), quantity_snapshot(qb)), "vsnaps": vs}

    def cases(self, I, ctx):
        st, op, a, b = ctx["st"], ctx["op"], ctx["a"], ctx["b"]
        qa, qb = ctx["qa"], ctx["qb"]
        num_a, num_b = isinstance(a, SNum), isinstance(b, SNum)
        va = a if num_a else a.o.fields["_value"]
        vb = b if num_b else b.o.fields["_value"]
        E1 = [] if num_a else entries(qa)
        E2 = [] if num_b else entries(qb)
        cap1 = SStr("") if num_a else caption_of(qa)
        cap2 = SStr("") if num_b else caption_of(qb)
        M1, M2 = match_spec(st, E1, E2)
        pw = z3.Or(needs_power(M1), needs_power(M2))
        seqs = [v for v in (va, vb) if isinstance(v, symseq.SymSeq)]
        numpy_path = any(s.kind == "numpy.ndarray" for s in seqs)
        n = seqs[0].n
        same_len = (seqs[0].n == seqs[1].n) if len(seqs) == 2 else T
        if numpy_path:
            kind = "numpy.ndarray"
        else:
            kind = "tuple" if all(s.kind == "tuple" for s in seqs) else "list"
        j = z3.Int("j!elem")
        inr = z3.And(j >= 0, j < n)
        xa = va.real() if num_a else S(va.elems, j)
        xb = vb.real() if num_b else S(vb.elems, j)
        addsub = op in ("add", "sub")
        minus = op in ("truediv", "floordiv")
        X1 = [(x["c"], x["m"], x["e"]) for x in M1]
        X2 = [(x["c"], x["m"], x["e"]) for x in M2]
        if addsub:
            eq = z3.And(same_entries(E1, E2), to_z3b(I.equal(cap1, cap2)))
            deq = dims_equal(M1, M2)
            conv = real_op(op, reexpress_code(st, M1, xa), reexpress_code(st, M2, xb))
            elem = z3.If(eq, real_op(op, xa, xb), conv)
            if not E1 and E2:
                q_exp = lambda I, q: quantity_is(I, q, X2, cap2)
                bad_dims = F
            elif not E1 and not E2:
                # both sides dimensionless (a number and an Array without unit): some empty quantity (the
                # process-wide one and the operand's are equal; which object comes back is not specified)
                q_exp = lambda I, q: quantity_is(I, q, [], cap1)
                bad_dims = F
            else:
                q_exp = lambda I, q: z3.If(eq, z3.BoolVal(q.o is qa.o) if isinstance(q, SRef) else F, quantity_is(I, q, X1, cap1))
                bad_dims = z3.And(z3.Not(eq), z3.Not(deq)) if (E1 and E2) else F
            pw_case = z3.And(z3.Not(eq), pw)
            zero_some = F
            dummy_zero = F
        else:
            merged = merged_spec(M1, M2, minus)
            elem = real_op(op, reexpress_code(st, M1, xa), reexpress_code(st, M2, xb))

            def q_exp(I, q):
                if not is_array(q, "Quantity"):
                    return F
                return z3.And(seq_matches(cmap_of(q), merged), to_z3b(I.equal(caption_of(q), SStr(""))))

            bad_dims = F
            pw_case = pw
            zero_some = z3.Exists([j], z3.And(inr, reexpress_code(st, M2, xb) == 0)) if minus else F
            dummy_zero = (reexpress_code(st, M2, z3.RealVal(1)) == 0) if minus else F

        def chk(I, res):
            if not is_array(res) or any(isinstance(x, SRef) and x.o is res.o for x in (a, b)):
                return F
            f = res.o.fields
            vals, q = f.get("_value"), f.get("_quantity")
            conc = None
            if isinstance(vals, SRef) and isinstance(vals.o, HList) and kind == "list":
                conc = vals.o.items
            elif isinstance(vals, STuple) and kind == "tuple":
                conc = vals.items
            if conc is not None:
                # a container of concrete length (the empty result)
                if not all(isinstance(x, SNum) for x in conc):
                    return F
                el = [x.real() == z3.substitute(elem, (j, z3.IntVal(k))) for k, x in enumerate(conc)]
                return z3.And(to_z3b(q_exp(I, q)), n == len(conc), And(el))
            if not (isinstance(vals, symseq.SymSeq) and vals.kind == kind):
                return F
            if any(vals.token == s.token for s in seqs):
                return F  # results are new containers
            return z3.And(
                to_z3b(q_exp(I, q)),
                vals.n == n,
                z3.ForAll([j], z3.Implies(inr, S(vals.elems, j) == elem)),
            )

        ok = z3.Not(pw_case)
        out = [unspecified("exp-ne-1", pw_case)]
        out.append(unspecified("different-dimensions-and-lengths", z3.And(ok, bad_dims, z3.Not(same_len))))
        out.append(rai("different-dimensions", z3.And(ok, bad_dims, same_len), "InvalidOperationError", props=("C05", "C03")))
        good = z3.And(ok, z3.Not(bad_dims))
        if numpy_path and len(seqs) == 2:
            # numpy repeats an operand of length 1 instead of rejecting it (recorded finding)
            bcast = z3.And(z3.Not(same_len), z3.Or(seqs[0].n == 1, seqs[1].n == 1))
            out.append(rai("different-lengths/numpy-broadcast", z3.And(good, bcast), "ValueError", props=("C10",)))
            out.append(rai("different-lengths", z3.And(good, z3.Not(same_len), z3.Not(bcast)), "ValueError", props=("C10",)))
        else:
            out.append(rai("different-lengths", z3.And(good, z3.Not(same_len)), "ValueError", props=("C10",)))
        good = z3.And(good, same_len)
        pr = ("C10", "C09") if (num_a or num_b) else ("C10",)
        pr = pr + (("C03",) if addsub else ("C04",))
        if minus:
            out.append(rai("division-by-zero", z3.And(good, n > 0, zero_some), "ZeroDivisionError", props=("C04",)))
            out.append(unspecified("empty/dummy-division", z3.And(good, n <= 0, dummy_zero)))
            good = z3.And(good, z3.Or(z3.And(n > 0, z3.Not(zero_some)), z3.And(n <= 0, z3.Not(dummy_zero))))
        out.append(ret("elementwise", good, props=pr, check=chk))
        return out

    def extra_obligations(self, I, ctx, outcome):
        obs = arith_frames(I, ctx)
        conj = []
        for x, sn in zip((ctx["a"], ctx["b"]), ctx["vsnaps"]):
            if sn is not None:
                conj.append(to_z3b(value_unchanged(I, x, sn)))
        obs.append(("frame[operand Arrays unchanged]", ("C13",), And(conj)))
        return obs

    def allowed_write(self, I, ctx, obj, what):
        if getattr(obj, "region", "") == "quantity" and what[1] in LAZY_SLOTS:
            return True
        return FunctionSpec.allowed_write(self, I, ctx, obj, what)


# ------------------------------------------------------------------------------------------------
from .fixedarray import getvalue_cases_fa


@register
class ArrayGetValuesSpec(FunctionSpec):
    """Array.GetAbstractValue(unit) / GetValues / values: no unit or the own unit returns the stored
    container itself; another unit returns a new container of the same kind whose element j is
    conv(own unit -> unit)(element j) - for flat lists, tuples and ndarrays of unbounded length and for
    sequences of tuples (here: 1-2 tuples of 2 numbers, shape-bounded)."""

    fq = AR + ".GetAbstractValue"
    props = ("C02", "C10", "C13")
    callees = BASE_CALLEES
    probe = "array_getvalues"

    def variants(self, tier):
        out = []
        for c in ("list", "tuple", "ndarray", "list-of-tuples", "tuple-of-tuples"):
            for u in ("none", "unit"):
                out.append((c, u))
        return out

    def setup(self, I, variant):
        c, uk = variant
        db, R = std_db(I)
        P = I.P
        q = simple_quantity(I, R, db, z3.Const("c", NameS), z3.Const("u", NameS))
        if c in LONG:
            vals = symseq.fresh_seq(P, LONG[c], base="vals")
        else:
            rows = [STuple([SNum(z3.Real("v%d%d" % (i, j)), "float") for j in range(2)]) for i in range(2)]
            vals = SRef(P.alloc(HList(rows, region="param"))) if c == "list-of-tuples" else STuple(rows)
        a = array_obj(I, db, q, vals)
        u = SNone if uk == "none" else nm("unit")
        if u is not SNone:
            R.touch(u.name)
        return {"f": I.getattr(a, "GetAbstractValue"), "args": [u], "R": R, "st": R.snapshot(), "self": a, "q": q, "vals": vals, "unit": u, "kind": c, "snap": dict(a.o.fields), "qsnap": quantity_snapshot(q)}

    def cases(self, I, ctx):
        R, st, q, vals, u, kind = ctx["R"], ctx["st"], ctx["q"], ctx["vals"], ctx["unit"], ctx["kind"]

        def same_container(I, res):
            if isinstance(vals, symseq.SymSeq):
                return z3.BoolVal(isinstance(res, symseq.SymSeq) and res.token == vals.token)
            if isinstance(vals, SRef):
                return z3.BoolVal(isinstance(res, SRef) and res.o is vals.o)
            return z3.BoolVal(res is vals)

        if u is SNone:
            return [ret("stored-values", T, check=same_container)]
        out = []
        for n_, g_, k_, x_ in getvalue_cases_fa(R, st, q, u.name):
            if k_ == "raise":
                out.append(rai("unit:" + n_, g_, x_, props=("C05",)))
                continue
            if n_ == "own-unit":
                out.append(ret("own-unit", g_, check=same_container))
                continue

            def chk(I, res, x_=x_):
                if isinstance(vals, symseq.SymSeq):
                    if not (isinstance(res, symseq.SymSeq) and res.kind == vals.kind and res.token != vals.token):
                        return F
                    j = z3.Int("j!gv")
                    return z3.And(res.n == vals.n, z3.Implies(z3.And(j >= 0, j < vals.n), S(res.elems, j) == x_(S(vals.elems, j))))
                rows0 = vals.o.items if isinstance(vals, SRef) else vals.items
                rows1 = res.o.items if (isinstance(res, SRef) and isinstance(res.o, HList)) else (res.items if isinstance(res, STuple) else None)
                if rows1 is None or len(rows1) != len(rows0) or (isinstance(res, SRef)) != (isinstance(vals, SRef)):
                    return F
                if isinstance(res, SRef) and res.o is vals.o:
                    return F
                conj = []
                for r0, r1 in zip(rows0, rows1):
                    if not (isinstance(r1, STuple) and len(r1.items) == len(r0.items)):
                        return F
                    for e0, e1 in zip(r0.items, r1.items):
                        if not isinstance(e1, SNum):
                            return F
                        conj.append(e1.real() == x_(e0.real()))
                return And(conj)

            out.append(ret("converted:" + n_, g_, props=("C02", "C10"), check=chk))
        return out

    def extra_obligations(self, I, ctx, outcome):
        return [
            ("frame[receiver unchanged]", ("C13",), value_unchanged(I, ctx["self"], ctx["snap"])),
            ("frame[quantity unchanged]", ("C07", "C13"), quantity_unchanged(I, ctx["q"], ctx["qsnap"])),
            ("frame[registry unchanged]", ("C15",), not ctx["R"].writes),
        ]

    def allowed_write(self, I, ctx, obj, what):
        if getattr(obj, "region", "") == "quantity" and what[1] in LAZY_SLOTS:
            return True
        return FunctionSpec.allowed_write(self, I, ctx, obj, what)
