_loaded = False


def load_all():
    global _loaded
    if _loaded:
        return
    _loaded = True
    from . import unit_database  # noqa
    from . import quantity  # noqa
    from . import obtain  # noqa
    from . import values  # noqa
    from . import arith  # noqa
    from . import array  # noqa
    from . import quantity_values  # noqa
    from . import registry  # noqa
    from . import construct  # noqa
    from . import fixedarray  # noqa
    from . import render  # noqa
    from . import unit_system  # noqa
    from . import fraction  # noqa
    from . import validation  # noqa
