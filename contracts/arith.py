"""Arithmetic between quantities (C03, C04, C05, C09): spec functions for unit matching, the
same-quantity operations (Sum, Subtract), the new-quantity operations (Multiply, Divide,
FloorDivide), and the contracts of the UnitDatabase operations and of the Scalar operators.

Operand quantities are symbolic in every name, unit and exponent; only the *number of entries* of
each composing map is fixed per variant (shape).  Shapes are listed by `variants`; results for
shapes beyond those listed are not claimed (reported as a bound in the evidence)."""
import ast
import z3

from pyvc.engine import NameS, FnS, RealS, IntS, BoolS, app, fixf, lit, PyRaise, OutOfSubset
from pyvc.values import *
from pyvc.interp import to_z3b
from pyvc.contract import FunctionSpec, Case, ret, rai, unspecified, register, REGISTRY, same_value
from pyvc.registry import make_db, RegInfo, RegCat
from pyvc import symseq
from .schema import *
from .unit_database import getinfo_cases, conv_term, UDB, nm, bound, install_additional_conversions
from .values import std_db, mk_q, harness, SC, BASE_CALLEES

T = z3.BoolVal(True)
F = z3.BoolVal(False)
S = z3.Select

# ratio of two scale-only units and its integer powers (used only where the property speaks about
# "each unit ratio raised to that unit's exponent")
from .unit_database import ratio, scale_only
from pyvc.engine import upow


def rpow(r, e):
    """r ** e for an integer exponent, as the (uninterpreted) real power function math.pow denotes"""
    return upow(r, z3.ToReal(e))


def Or(xs):
    xs = list(xs)
    return z3.Or(*xs) if xs else F


def And(xs):
    xs = list(xs)
    return z3.And(*xs) if xs else T


def entries(q):
    return list(q.o.qinfo["entries"])


def caption_of(q):
    return q.o.fields["_unknown_unit_caption"]


# ------------------------------------------------------------------------------------------------
# spec functions over composing entries [(category, unit, exponent)] (z3 terms)


def match_spec(st, E1, E2):
    """_MatchQuantities: every quantity type keeps the unit of its first occurrence (iterating the
    first map, then the second); later entries of that type are re-expressed in it.
    returns (M1, M2): lists of dicts c,u,e,qt,m (matched unit),found (an earlier entry has the type)"""
    seen = []
    out = ([], [])
    for k, E in ((0, E1), (1, E2)):
        for c, u, e in E:
            qt = S(st["C_qt"], c)
            found = Or([qt == q for q, _ in seen])
            m = u
            for q, uu in reversed(seen):
                m = z3.If(qt == q, uu, m)
            out[k].append({"c": c, "u": u, "e": e, "qt": qt, "m": m, "found": found})
            seen.append((qt, u))
    return out


def needs_power(M):
    """some re-expressed entry changes unit and has an exponent other than 1"""
    return Or([z3.And(x["found"], x["u"] != x["m"], x["e"] != 1) for x in M])


def power_entries_scale_only(M):
    """every re-expressed entry with an exponent other than 1 is between a scale-only pair of units"""
    return And([z3.Implies(z3.And(x["found"], x["u"] != x["m"], x["e"] != 1), scale_only(x["u"], x["m"])) for x in M])


def reexpress_code(st, M, v):
    """value after matching when every re-expressed entry has exponent 1 (or keeps its unit):
    the composition of the float conversions unit → matched unit, in entry order"""
    for x in M:
        v = z3.If(z3.And(x["found"], x["u"] != x["m"]), conv_term(st, x["u"], x["m"], v), v)
    return v


def reexpress_spec(st, M, v, facts):
    """the property's reading: scale by each unit ratio raised to the entry's exponent.  For an
    entry with exponent 1 this is the float conversion itself; for another exponent the units are
    taken as scale-only (conv(u→m)(x) = x·ratio(u,m), ratio > 0) and the factor is ratio^e, about
    which only  r^e = r ⇔ r = 1  (for e ≠ 1, r > 0) is used."""
    for x in M:
        conv = conv_term(st, x["u"], x["m"], v)
        r = ratio(x["u"], x["m"])
        powered = v * rpow(r, x["e"])
        facts.append(z3.Implies(z3.And(x["found"], x["u"] != x["m"], x["e"] != 1, scale_only(x["u"], x["m"])), z3.And(r > 0, rpow(r, x["e"]) > 0, conv == v * r, (rpow(r, x["e"]) == r) == (r == 1))))
        v = z3.If(z3.And(x["found"], x["u"] != x["m"]), z3.If(x["e"] == 1, conv, powered), v)
    return v


def dim_sum(M, qt):
    return z3.Sum([z3.If(x["qt"] == qt, x["e"], z3.IntVal(0)) for x in M]) if M else z3.IntVal(0)


def dims_equal(M1, M2):
    """exponent per quantity type agrees (operands are normalised: no type sums to zero)"""
    return And([dim_sum(M1, x["qt"]) == dim_sum(M2, x["qt"]) for x in M1 + M2])


def normalised(M):
    return And([dim_sum(M, x["qt"]) != 0 for x in M])


def same_entries(E1, E2):
    if len(E1) != len(E2):
        return F
    return And([z3.And(a[0] == b[0], a[1] == b[1], a[2] == b[2]) for a, b in zip(E1, E2)])


def merged_spec(M1, M2, minus):
    """_DoOperationResultingInNewQuantity after matching: entries of the first map with the second
    operand's exponent added (subtracted) where the category coincides, then the second map's other
    categories; an entry disappears when its exponent is 0 or its unit's joined exponent is 0.
    returns [(c, m, e', kept)]"""
    sgn = -1 if minus else 1
    out = []
    for x in M1:
        e = x["e"]
        for y in M2:
            e = e + z3.If(y["c"] == x["c"], sgn * y["e"], z3.IntVal(0))
        out.append([x["c"], x["m"], e, x["qt"]])
    for y in M2:
        new = And([y["c"] != x["c"] for x in M1])
        out.append([y["c"], y["m"], sgn * y["e"], y["qt"], new])
    # presence: first-map entries always present before filtering; second-map ones only if new
    res = []
    for i, it in enumerate(out):
        present = it[4] if len(it) > 4 else T
        res.append({"c": it[0], "m": it[1], "e": it[2], "qt": it[3], "present": present})
    for r in res:
        usum = z3.Sum([z3.If(z3.And(o["present"], o["m"] == r["m"]), o["e"], z3.IntVal(0)) for o in res])
        r["kept"] = z3.And(r["present"], r["e"] != 0, usum != 0)
    return res


def seq_matches(actual, expected):
    """the actual entry list [(c,u,e)] is the subsequence of `expected` with kept = True"""

    def rec(k, i):
        if i == len(expected):
            return z3.BoolVal(k == len(actual))
        x = expected[i]
        skip = z3.And(z3.Not(x["kept"]), rec(k, i + 1))
        if k < len(actual):
            a = actual[k]
            take = z3.And(x["kept"], a[0] == x["c"], a[1] == x["m"], a[2] == x["e"], rec(k + 1, i + 1))
            return z3.Or(take, skip)
        return skip

    return rec(0, 0)


def quantity_is(I, q, expected, caption):
    """q is a Quantity whose composing map is exactly `expected` [(c,u,e)] and whose caption is `caption`"""
    if not (isinstance(q, SRef) and isinstance(q.o, HObj) and getattr(q.o.cls, "name", "") == "Quantity"):
        return F
    act = cmap_of(q)
    if len(act) != len(expected):
        return F
    conj = [z3.And(a[0] == b[0], a[1] == b[1], a[2] == b[2]) for a, b in zip(act, expected)]
    conj.append(to_z3b(I.equal(caption_of(q), caption)))
    return And(conj)


# ------------------------------------------------------------------------------------------------
SHAPES_QUICK = [
    ("simple", "simple"),
    ("simple", "derived1"),
    ("derived1", "simple"),
    ("derived1", "derived1"),
    ("simple", "empty"),
    ("empty", "simple"),
    ("simple", "derived2"),
    ("derived2", "simple"),
    ("empty", "derived2"),
]
SHAPES_THOROUGH = SHAPES_QUICK + [("derived2", "derived1"), ("derived1", "derived2"), ("derived2", "derived2"), ("derived2", "empty"), ("empty", "empty")]


def arith_setup(I, ka, kb):
    """two operand quantities over one registry; preconditions N1 (a quantity-type name that is also
    a category names itself) and normalised operands"""
    db, R = std_db(I)
    qa = mk_q(I, R, db, ka, "a")
    qb = mk_q(I, R, db, kb, "b")
    st = R.snapshot()
    P = I.P
    for q in (qa, qb):
        for c, u, e in entries(q):
            qt = S(st["C_qt"], c)
            P.assume(z3.Implies(S(st["C_dom"], qt), S(st["C_qt"], qt) == qt), "pre:N1 quantity-type names are not categories of another type")
    M1, M2 = match_spec(st, entries(qa), entries(qb))
    P.assume(z3.And(normalised(M1), normalised(M2)), "pre:operands are normalised (no quantity type with joined exponent 0)")
    return db, R, st, qa, qb


class DbSameQuantitySpec(FunctionSpec):
    """UnitDatabase.Sum / Subtract (q1, q2, v1, v2) -> (quantity, value)"""

    op = None  # "Sum" | "Subtract"
    props = ("C03", "C05", "C07", "C13", "C15")
    callees = BASE_CALLEES + (UDB + ":UnitDatabase._ConvertWithExp",)
    probe = "arith"

    def variants(self, tier):
        # two units on both sides (in either order) is where the compatibility test compares sets of
        # (unit, exponent) pairs: part of the quick tier for + and -
        return list(SHAPES_THOROUGH if tier == "thorough" else SHAPES_QUICK + [("derived2", "derived2")])

    def setup(self, I, variant):
        ka, kb = variant
        db, R, st, qa, qb = arith_setup(I, ka, kb)
        v1, v2 = SNum(z3.Real("v1"), "float"), SNum(z3.Real("v2"), "float")
        f = I.getattr(db, self.op)
        return {"f": f, "args": [qa, qb, v1, v2], "R": R, "st": st, "db": db, "qa": qa, "qb": qb, "v1": v1, "v2": v2, "snaps": (quantity_snapshot(qa), quantity_snapshot(qb))}

    def value(self, a, b):
        return a + b if self.op == "Sum" else a - b

    def bind_call(self, I, f, args, kwargs):
        return _db_bind(self, I, f, args, kwargs)

    def cases(self, I, ctx):
        if ctx.get("$call"):
            return same_quantity_summary(I, ctx, self.value)
        return same_quantity_cases(I, ctx, self.value, lambda q, v: STuple([q, v]), self.result_parts)

    def result_parts(self, res):
        if isinstance(res, STuple) and len(res.items) == 2:
            return res.items
        return None, None

    def extra_obligations(self, I, ctx, outcome):
        return arith_frames(I, ctx)

    def allowed_write(self, I, ctx, obj, what):
        if getattr(obj, "region", "") == "quantity" and what[1] in LAZY_SLOTS:
            return True
        return FunctionSpec.allowed_write(self, I, ctx, obj, what)


def arith_frames(I, ctx):
    R = ctx["R"]
    qa, qb = ctx["qa"], ctx["qb"]
    return [
        ("frame[operand quantities unchanged]", ("C07", "C13", "C05"), z3.And(to_z3b(quantity_unchanged(I, qa, ctx["snaps"][0])), to_z3b(quantity_unchanged(I, qb, ctx["snaps"][1])))),
        ("frame[registry: only memo and intern table]", ("C15", "C05"), all(w[0] in ("M", "K") for w in R.writes)),
    ]


def same_quantity_cases(I, ctx, opfn, pack, unpack):
    st = ctx["st"]
    qa, qb, v1, v2 = ctx["qa"], ctx["qb"], ctx["v1"], ctx["v2"]
    E1, E2 = entries(qa), entries(qb)
    M1, M2 = match_spec(st, E1, E2)
    cap1, cap2 = caption_of(qa), caption_of(qb)
    eq = z3.And(same_entries(E1, E2), to_z3b(I.equal(cap1, cap2)))
    deq = dims_equal(M1, M2)
    pw = z3.Or(needs_power(M1), needs_power(M2))
    code1, code2 = reexpress_code(st, M1, v1.real()), reexpress_code(st, M2, v2.real())
    facts = []
    spec1, spec2 = reexpress_spec(st, M1, v1.real(), facts), reexpress_spec(st, M2, v2.real(), facts)
    X1 = [(x["c"], x["m"], x["e"]) for x in M1]
    X2 = [(x["c"], x["m"], x["e"]) for x in M2]

    def chk(expected_entries, cap, val, identical=None):
        def f(I, res):
            q, v = unpack(res)
            if q is None or not isinstance(v, SNum):
                return F
            for fa in facts:
                I.P.assume(fa, "def:ratio powers")
            qok = z3.BoolVal(q.o is identical.o) if identical is not None else quantity_is(I, q, expected_entries, cap)
            return z3.And(qok, v.real() == val)

        return f

    out = [ret("same-quantity", eq, props=("C03",), check=chk(None, None, opfn(v1.real(), v2.real()), identical=qa))]
    e1, e2 = len(E1) == 0, len(E2) == 0
    ne0 = z3.Not(eq)
    # an entry re-expressed with an exponent other than 1 scales by the unit ratio raised to it; that
    # reading exists for scale-only pairs only
    lin = z3.And(power_entries_scale_only(M1), power_entries_scale_only(M2))
    out.append(unspecified("exp-ne-1/not-scale-only", z3.And(ne0, pw, z3.Not(lin))))
    ne = z3.And(ne0, z3.Implies(pw, lin))
    ok = z3.And(ne, deq)
    if E1 or not E2:
        # left operand's categories/exponents with the matched units (its own units when it is consistent)
        out.append(ret("matching-dimensions/exp1", z3.And(ok, z3.Not(pw)), props=("C03",), check=chk(X1, cap1, opfn(code1, code2))))
        out.append(ret("matching-dimensions/exp-ne-1", z3.And(ok, pw), props=("C03",), check=chk(X1, cap1, opfn(spec1, spec2))))
    bad = z3.And(ne, z3.Not(deq))
    if e1 and not e2:
        out.append(ret("left-dimensionless", bad, props=("C03", "C05"), check=chk(X2, cap2, opfn(spec1, spec2))))
    elif e2 and not e1:
        out.append(ret("right-dimensionless", bad, props=("C03", "C05"), check=chk(X1, cap1, opfn(spec1, spec2))))
    elif e1 and e2:
        out.append(ret("both-dimensionless", ne, props=("C03",), check=chk(X1, cap1, opfn(spec1, spec2))))
    else:
        out.append(rai("different-dimensions", bad, "InvalidOperationError", props=("C05", "C03")))
    return out


@register
class DbSumSpec(DbSameQuantitySpec):
    fq = UDB + ":UnitDatabase.Sum"
    op = "Sum"


@register
class DbSubtractSpec(DbSameQuantitySpec):
    fq = UDB + ":UnitDatabase.Subtract"
    op = "Subtract"


# ------------------------------------------------------------------------------------------------
class DbNewQuantitySpec(FunctionSpec):
    """UnitDatabase.Multiply / Divide / FloorDivide (q1, q2, v1, v2) -> (quantity, value)"""

    op = None
    props = ("C04", "C05", "C07", "C13", "C15")
    callees = BASE_CALLEES + (UDB + ":UnitDatabase._ConvertWithExp",)
    probe = "arith"

    def variants(self, tier):
        return list(SHAPES_THOROUGH if tier == "thorough" else SHAPES_QUICK)

    def setup(self, I, variant):
        ka, kb = variant
        db, R, st, qa, qb = arith_setup(I, ka, kb)
        v1, v2 = SNum(z3.Real("v1"), "float"), SNum(z3.Real("v2"), "float")
        f = I.getattr(db, self.op)
        return {"f": f, "args": [qa, qb, v1, v2], "R": R, "st": st, "db": db, "qa": qa, "qb": qb, "v1": v1, "v2": v2, "snaps": (quantity_snapshot(qa), quantity_snapshot(qb))}

    def value(self, a, b):
        if self.op == "Multiply":
            return a * b
        if self.op == "Divide":
            return a / b
        return z3.ToReal(z3.ToInt(a / b))

    def bind_call(self, I, f, args, kwargs):
        return _db_bind(self, I, f, args, kwargs)

    def cases(self, I, ctx):
        if ctx.get("$call"):
            return new_quantity_summary(I, ctx, self.value, self.op != "Multiply")
        return new_quantity_cases(I, ctx, self.value, self.op != "Multiply", self.result_parts)

    def result_parts(self, res):
        if isinstance(res, STuple) and len(res.items) == 2:
            return res.items
        return None, None

    def extra_obligations(self, I, ctx, outcome):
        return arith_frames(I, ctx)

    def allowed_write(self, I, ctx, obj, what):
        if getattr(obj, "region", "") == "quantity" and what[1] in LAZY_SLOTS:
            return True
        return FunctionSpec.allowed_write(self, I, ctx, obj, what)


def new_quantity_cases(I, ctx, opfn, minus, unpack, props=("C04",)):
    st = ctx["st"]
    qa, qb, v1, v2 = ctx["qa"], ctx["qb"], ctx["v1"], ctx["v2"]
    E1, E2 = entries(qa), entries(qb)
    M1, M2 = match_spec(st, E1, E2)
    pw = z3.Or(needs_power(M1), needs_power(M2))
    code1, code2 = reexpress_code(st, M1, v1.real()), reexpress_code(st, M2, v2.real())
    facts = []
    spec1, spec2 = reexpress_spec(st, M1, v1.real(), facts), reexpress_spec(st, M2, v2.real(), facts)
    merged = merged_spec(M1, M2, minus)

    def chk(val):
        def f(I, res):
            q, v = unpack(res)
            if q is None or not isinstance(v, SNum):
                return F
            if not (isinstance(q, SRef) and isinstance(q.o, HObj) and getattr(q.o.cls, "name", "") == "Quantity"):
                return F
            for fa in facts:
                I.P.assume(fa, "def:ratio powers")
            act = cmap_of(q)
            # exponent per quantity type of the result = sum / difference of the operands'
            dimc = []
            sgn = -1 if minus else 1
            for x in M1 + M2:
                got = z3.Sum([z3.If(S(st["C_qt"], a[0]) == x["qt"], a[2], z3.IntVal(0)) for a in act]) if act else z3.IntVal(0)
                dimc.append(got == dim_sum(M1, x["qt"]) + sgn * dim_sum(M2, x["qt"]))
            nozero = And([a[2] != 0 for a in act])
            return z3.And(seq_matches(act, merged), And(dimc), nozero, to_z3b(I.equal(caption_of(q), SStr(""))), v.real() == val)

        return f

    # the divisor is the second value as re-expressed by the matching step
    lin = z3.And(power_entries_scale_only(M1), power_entries_scale_only(M2))
    out = [unspecified("exp-ne-1/not-scale-only", z3.And(pw, z3.Not(lin)))]
    live = z3.Implies(pw, lin)
    zero_div = (spec2 == 0) if minus else F
    nz = z3.And(live, z3.Not(zero_div))
    if minus:
        out.append(rai("division-by-zero", z3.And(live, zero_div), "ZeroDivisionError", props=props, facts=lambda I: list(facts)))
    out.append(ret("result/exp1", z3.And(nz, z3.Not(pw)), props=props, check=chk(opfn(code1, code2)), facts=lambda I: list(facts)))
    out.append(ret("result/exp-ne-1", z3.And(nz, pw), props=props, check=chk(opfn(spec1, spec2)), facts=lambda I: list(facts)))
    return out


@register
class DbMultiplySpec(DbNewQuantitySpec):
    fq = UDB + ":UnitDatabase.Multiply"
    op = "Multiply"


@register
class DbDivideSpec(DbNewQuantitySpec):
    fq = UDB + ":UnitDatabase.Divide"
    op = "Divide"


@register
class DbFloorDivideSpec(DbNewQuantitySpec):
    fq = UDB + ":UnitDatabase.FloorDivide"
    op = "FloorDivide"


# ------------------------------------------------------------------------------------------------
# Scalar operators (through Python's binary-operator dispatch)

BINOPS = {"add": ast.Add(), "sub": ast.Sub(), "mul": ast.Mult(), "truediv": ast.Div(), "floordiv": ast.FloorDiv()}
NUMBER_KINDS = ("float", "int", "npfloat", "npfloat32")


def real_op(opname, a, b):
    if opname == "add":
        return a + b
    if opname == "sub":
        return a - b
    if opname == "mul":
        return a * b
    if opname == "truediv":
        return a / b
    return z3.ToReal(z3.ToInt(a / b))


def number_value(P, kind, tag):
    if kind == "int":
        return SNum(z3.Int(tag + "_i"), "int")
    return SNum(z3.Real(tag), kind)


@register
class ScalarBinopSpec(FunctionSpec):
    """a OP b for OP in + - * / // where each operand is a Scalar (simple / derived / empty quantity)
    or a plain number.  Scalar OP Scalar follows the database operations' contracts; a number is a
    dimensionless operand: the Scalar's own quantity object is kept and the operation is applied to
    the value, except number / Scalar and number // Scalar, which have the reciprocal dimension.
    The result is always a new object of the Scalar operand's class."""

    fq = SC + "._DoOperation"
    key = SC + "._DoOperation#operators"
    props = ("C03", "C04", "C05", "C09", "C13", "C07")
    callees = BASE_CALLEES + (UDB + ":UnitDatabase._ConvertWithExp",)
    probe = "arith"

    def variants(self, tier):
        out = []
        qk = ["simple", "derived1", "empty"] + (["derived2"] if tier == "thorough" else [])
        pairs = [("simple", "simple"), ("simple", "derived1"), ("derived1", "simple"), ("simple", "empty"), ("empty", "simple"), ("derived1", "derived1")]
        if tier == "thorough":
            pairs = list(SHAPES_THOROUGH)
        # npfloat32: a numpy scalar that is a number (numpy.number) without being an int or a float
        nk = NUMBER_KINDS if tier == "thorough" else ("float", "int", "npfloat32")
        for op in BINOPS:
            for a, b in pairs:
                out.append((op, a, b))
            for k in nk:
                for q in qk:
                    out.append((op, k, q))
                    out.append((op, q, k))
        return out

    def setup(self, I, variant):
        op, ka, kb = variant
        qa_kind = ka if ka not in NUMBER_KINDS else "empty"
        qb_kind = kb if kb not in NUMBER_KINDS else "empty"
        db, R, st, qa, qb = arith_setup(I, qa_kind, qb_kind)
        a = number_value(I.P, ka, "ka") if ka in NUMBER_KINDS else scalar_obj(I, db, qa, tag="a")
        b = number_value(I.P, kb, "kb") if kb in NUMBER_KINDS else scalar_obj(I, db, qb, tag="b")
        f = harness(lambda I: I.binop(BINOPS[op], a, b))
        snaps = (quantity_snapshot(qa), quantity_snapshot(qb))
        vs = tuple(dict(x.o.fields) if isinstance(x, SRef) else None for x in (a, b))
        return {"f": f, "args": [], "R": R, "st": st, "db": db, "qa": qa, "qb": qb, "a": a, "b": b, "op": op, "snaps": snaps, "vsnaps": vs, "ka": ka, "kb": kb}

    def scalar_parts(self, ctx):
        def unpack(res):
            if not (isinstance(res, SRef) and isinstance(res.o, HObj) and getattr(res.o.cls, "name", "") == "Scalar"):
                return None, None
            for x in (ctx["a"], ctx["b"]):
                if isinstance(x, SRef) and x.o is res.o:
                    return None, None  # results are new objects
            return res.o.fields.get("_quantity"), res.o.fields.get("_value")

        return unpack

    def cases(self, I, ctx):
        op, a, b = ctx["op"], ctx["a"], ctx["b"]
        unpack = self.scalar_parts(ctx)
        opfn = lambda x, y: real_op(op, x, y)
        num_a, num_b = isinstance(a, SNum), isinstance(b, SNum)
        if not num_a and not num_b:
            c2 = dict(ctx, v1=a.o.fields["_value"], v2=b.o.fields["_value"])
            if op in ("add", "sub"):
                return same_quantity_cases(I, c2, opfn, None, unpack)
            return new_quantity_cases(I, c2, opfn, op != "mul", unpack)
        # one plain number
        x = b if num_a else a
        k = a if num_a else b
        q = x.o.fields["_quantity"]
        xv = x.o.fields["_value"].real()
        kv = k.real()
        if num_a and op in ("truediv", "floordiv"):
            # number / Scalar: reciprocal dimension, value k / x
            c2 = dict(ctx, qa=I.P.ghost.get("empty_quantity") or ctx["qa"], v1=SNum(kv, "float"), v2=x.o.fields["_value"])
            return new_quantity_cases(I, c2, opfn, True, unpack, props=("C09", "C04"))
        val = opfn(kv, xv) if num_a else opfn(xv, kv)

        def chk(I, res):
            rq, rv = unpack(res)
            if rq is None or not isinstance(rv, SNum):
                return F
            return z3.And(z3.BoolVal(rq.o is q.o), rv.real() == val)

        if op in ("truediv", "floordiv"):
            zero = kv == 0
            return [
                rai("division-by-zero", zero, "ZeroDivisionError", props=("C09",)),
                ret("number-operand", z3.Not(zero), props=("C09",), check=chk),
            ]
        return [ret("number-operand", T, props=("C09",), check=chk)]

    def extra_obligations(self, I, ctx, outcome):
        obs = arith_frames(I, ctx)
        conj = []
        for x, sn in zip((ctx["a"], ctx["b"]), ctx["vsnaps"]):
            if sn is not None:
                conj.append(to_z3b(value_unchanged(I, x, sn)))
        obs.append(("frame[operand Scalars unchanged]", ("C13",), And(conj)))
        return obs

    def allowed_write(self, I, ctx, obj, what):
        if getattr(obj, "region", "") == "quantity" and what[1] in LAZY_SLOTS:
            return True
        return FunctionSpec.allowed_write(self, I, ctx, obj, what)


# ------------------------------------------------------------------------------------------------
# spec-level lemmas over the contracts above (no code): physical soundness in the log domain.
# For scale-only units (to-base = multiplication by k(u) > 0; established row by row in C01) write
# L(u) = ln k(u).  conv(u→m)(x) = x·exp(L(u) − L(m)), and the base-unit magnitude of a value v with
# composing entries E is v·exp(Σ e·L(u)).  The lemmas show that the *contracts'* result (matched
# units, merged exponents, composed conversions) has the magnitude the properties demand.

# Every lemma below has the form  A(L) = B(L)  with both sides *linear* in the function L (L occurs
# only in sums of terms e·L(u) and ±L(u)).  A linear identity over the finitely many units involved
# holds for every L iff it holds for every indicator function L = [· = t]; the lemmas are therefore
# discharged with L(u) := (u = t ? 1 : 0) for an arbitrary unit t, which keeps the queries linear.
_t_unit = z3.Const("t!unit", NameS)


def Lf(u):
    return z3.If(u == _t_unit, z3.RealVal(1), z3.RealVal(0))


def eL(e, u):
    """e · L(u) under the indicator instantiation"""
    return z3.If(u == _t_unit, z3.ToReal(e), z3.RealVal(0))


def lg_factor(M):
    """ln of the factor the contract applies to an operand's value: every re-expressed entry contributes
    e * (L(u) - L(m)) (the unit ratio raised to the entry's exponent; the float conversion for e = 1)"""
    return z3.Sum([z3.If(z3.And(x["found"], x["u"] != x["m"]), eL(x["e"], x["u"]) - eL(x["e"], x["m"]), z3.RealVal(0)) for x in M]) if M else z3.RealVal(0)


def lg_factor_exp1(M):
    """the factor of a matching step that converts with exponent 1 whatever the entry's exponent (the
    defect repaired by f801d71): used only by the canary, which must be refutable"""
    return z3.Sum([z3.If(z3.And(x["found"], x["u"] != x["m"]), Lf(x["u"]) - Lf(x["m"]), z3.RealVal(0)) for x in M]) if M else z3.RealVal(0)


def arith_lemma_canaries():
    """[(name, hypotheses, goal)] that must NOT be provable: the magnitude lemmas with the exponent-blind factor"""
    C_qt = z3.Const("C_qt", z3.ArraySort(NameS, NameS))
    U_qt = z3.Const("U_qt", z3.ArraySort(NameS, NameS))
    st = {"C_qt": C_qt}
    E1, E2 = _sym_entries("a", 1), _sym_entries("b", 1)
    M1, M2 = match_spec(st, E1, E2)
    hyp = [z3.Select(U_qt, u) == z3.Select(C_qt, c) for c, u, e in E1 + E2]
    merged = merged_spec(M1, M2, False)
    res = z3.Sum([z3.If(r["kept"], eL(r["e"], r["m"]), z3.RealVal(0)) for r in merged])
    prod = lg_factor_exp1(M1) + lg_factor_exp1(M2) + res == lg_scale_orig(M1) + lg_scale_orig(M2)
    ssum = z3.And(lg_factor_exp1(M1) + lg_scale_matched(M1) == lg_scale_orig(M1), lg_factor_exp1(M2) + lg_scale_matched(M1) == lg_scale_orig(M2))
    return [
        ("canary[C04.magnitude-product/shape(1,1) with an exponent-blind matching factor]", hyp, prod),
        ("canary[C03.physical-sum/shape(1,1) with an exponent-blind matching factor]", hyp + [dims_equal(M1, M2), normalised(M1), normalised(M2)], ssum),
    ]


def lg_scale_orig(M):
    return z3.Sum([eL(x["e"], x["u"]) for x in M]) if M else z3.RealVal(0)


def lg_scale_matched(M):
    return z3.Sum([eL(x["e"], x["m"]) for x in M]) if M else z3.RealVal(0)


def _sym_entries(tag, n):
    return [(z3.Const("%s_c%d" % (tag, i), NameS), z3.Const("%s_u%d" % (tag, i), NameS), z3.Const("%s_e%d" % (tag, i), IntS)) for i in range(n)]


def arith_lemmas(max_n):
    """[(name, props, hypotheses, goal)]"""
    out = []
    C_qt = z3.Const("C_qt", z3.ArraySort(NameS, NameS))
    U_qt = z3.Const("U_qt", z3.ArraySort(NameS, NameS))
    st = {"C_qt": C_qt}
    for n1 in range(0, max_n + 1):
        for n2 in range(0, max_n + 1):
            E1, E2 = _sym_entries("a", n1), _sym_entries("b", n2)
            M1, M2 = match_spec(st, E1, E2)
            hyp = []
            for E in (E1, E2):
                if len(E) > 1:
                    hyp.append(z3.Distinct(*[c for c, _, _ in E]))  # dict keys
                for c, u, e in E:
                    hyp.append(z3.Select(U_qt, u) == z3.Select(C_qt, c))  # QI + W1: a unit has one quantity type
            tag = "shape(%d,%d)" % (n1, n2)
            # C03: with matching dimensions both operands' factors bring them to the left operand's matched units
            g1 = lg_factor(M1) + lg_scale_matched(M1) == lg_scale_orig(M1)
            g2 = lg_factor(M2) + lg_scale_matched(M1) == lg_scale_orig(M2)
            out.append(("lemma[C03.physical-sum/%s]" % tag, ("C03",), hyp + [dims_equal(M1, M2), normalised(M1), normalised(M2)], z3.And(g1, g2)))
            # C04: magnitude of the product / quotient
            for minus in (False, True):
                merged = merged_spec(M1, M2, minus)
                sgn = -1 if minus else 1
                res = z3.Sum([z3.If(r["kept"], eL(r["e"], r["m"]), z3.RealVal(0)) for r in merged]) if merged else z3.RealVal(0)
                goal = lg_factor(M1) + sgn * lg_factor(M2) + res == lg_scale_orig(M1) + sgn * lg_scale_orig(M2)
                out.append(("lemma[C04.magnitude-%s/%s]" % ("quotient" if minus else "product", tag), ("C04",), hyp, goal))
                # dimension of the result
                dimc = []
                for x in M1 + M2:
                    got = z3.Sum([z3.If(z3.And(r["kept"], r["qt"] == x["qt"]), r["e"], z3.IntVal(0)) for r in merged])
                    dimc.append(got == dim_sum(M1, x["qt"]) + sgn * dim_sum(M2, x["qt"]))
                out.append(("lemma[C04.dimension-%s/%s]" % ("quotient" if minus else "product", tag), ("C04",), hyp, And(dimc)))
    return out


# ------------------------------------------------------------------------------------------------
# summaries of the database operations (used by Array._DoOperation, which calls them per element)


def lift2(I, f, v1, v2):
    """apply the real function f(a, b) to two values that are numbers or numeric sequences (numpy
    semantics: elementwise, equal lengths or ValueError; at least one ndarray when sequences meet)"""
    S1, S2 = isinstance(v1, symseq.SymSeq), isinstance(v2, symseq.SymSeq)
    if isinstance(v1, SNum) and isinstance(v2, SNum):
        return SNum(f(v1.real(), v2.real()), "float")
    if S1 and isinstance(v2, SNum):
        if v1.kind != "numpy.ndarray":
            if v2.kind.startswith("np"):
                # a list / tuple meeting a numpy scalar: numpy takes the operation over and answers with an
                # ndarray (for * a numpy integer repeats the sequence and a numpy float raises TypeError - in
                # every case not the operand's own container kind, which is all the callers' contracts look at)
                return v1.map_term(I, lambda e: f(e, v2.real()), kind="numpy.ndarray")
            raise OutOfSubset("list/tuple operand reaches the arithmetic lambda")
        return v1.map_term(I, lambda e: f(e, v2.real()))
    if S2 and isinstance(v1, SNum):
        if v2.kind != "numpy.ndarray":
            if v1.kind.startswith("np"):
                return v2.map_term(I, lambda e: f(v1.real(), e), kind="numpy.ndarray")
            raise OutOfSubset("list/tuple operand reaches the arithmetic lambda")
        return v2.map_term(I, lambda e: f(v1.real(), e))
    if S1 and S2:
        if "numpy.ndarray" not in (v1.kind, v2.kind):
            raise OutOfSubset("two non-numpy sequences reach the arithmetic lambda")
        i = z3.Int("i!lift%d" % id(v1))
        # numpy broadcasting of 1-d operands: equal lengths, or one operand of length 1
        if I.P.branch(v1.n == v2.n):
            a, b, n = S(v1.elems, i), S(v2.elems, i), v1.n
        elif I.P.branch(v2.n == 1):
            a, b, n = S(v1.elems, i), S(v2.elems, 0), v1.n
        elif I.P.branch(v1.n == 1):
            a, b, n = S(v1.elems, 0), S(v2.elems, i), v2.n
        else:
            I.raise_("ValueError", "operands could not be broadcast together")
        return symseq.SymSeq("numpy.ndarray", n, z3.Lambda([i], f(a, b)))
    raise OutOfSubset("arithmetic on %r and %r" % (v1, v2))


def quantity_from_entries(I, R, db, ents, cap):
    """summary side: the Quantity with composing entries `ents` (QI by the callee's contract)"""
    from .obtain import derived_from_map, new_simple_quantity

    P = I.P
    if len(ents) == 1 and P.branch(ents[0][2] == 1):
        return new_simple_quantity(I, R, db, ents[0][0], ents[0][1], cap)
    items = [(sname(c), SRef(P.alloc(HList([sname(u), SNum(e, "int")], region="quantity-internal")))) for c, u, e in ents]
    m = SRef(P.alloc(HDict(items, ordered=True, region="quantity-internal")))
    return derived_from_map(I, R, db, m, cap)


def _db_bind(spec, I, f, args, kwargs):
    ctx = FunctionSpec.bind_call(spec, I, f, args, kwargs)
    R = I.P.ghost["reg"]
    qa, qb = ctx["quantity1"], ctx["quantity2"]
    for q in (qa, qb):
        if getattr(getattr(q, "o", None), "qinfo", None) is None:
            raise OutOfSubset("database operation on a quantity of unknown shape")
    ctx.update({"R": R, "st": R.snapshot(), "db": I.P.ghost["db"], "qa": qa, "qb": qb, "v1": ctx["value1"], "v2": ctx["value2"]})
    return ctx


def same_quantity_summary(I, ctx, opfn):
    """cases of Sum/Subtract for a call site (values may be numbers or ndarrays)"""
    st, R, db = ctx["st"], ctx["R"], ctx["db"]
    qa, qb, v1, v2 = ctx["qa"], ctx["qb"], ctx["v1"], ctx["v2"]
    E1, E2 = entries(qa), entries(qb)
    M1, M2 = match_spec(st, E1, E2)
    cap1, cap2 = caption_of(qa), caption_of(qb)
    eq = z3.And(same_entries(E1, E2), to_z3b(I.equal(cap1, cap2)))
    deq = dims_equal(M1, M2)
    pw = z3.Or(needs_power(M1), needs_power(M2))
    X1 = [(x["c"], x["m"], x["e"]) for x in M1]
    X2 = [(x["c"], x["m"], x["e"]) for x in M2]
    f_plain = lambda a, b: opfn(a, b)
    # the property's reading of the re-expression (the float conversions when every re-expressed entry
    # has exponent 1; unit ratios raised to the exponents otherwise)
    f_conv = lambda a, b: opfn(reexpress_spec(st, M1, a, []), reexpress_spec(st, M2, b, []))

    def mk(ents, cap, f, same=False):
        def build(I):
            q = qa if same else quantity_from_entries(I, R, db, ents, cap)
            return STuple([q, lift2(I, f, v1, v2)])

        return build

    ne = z3.Not(eq)
    out = [ret("same-quantity", eq, mk(None, None, f_plain, same=True))]
    lin = z3.And(power_entries_scale_only(M1), power_entries_scale_only(M2))
    out.append(unspecified("exp-ne-1/not-scale-only", z3.And(ne, pw, z3.Not(lin))))
    ok = z3.And(ne, z3.Implies(pw, lin))
    e1, e2 = len(E1) == 0, len(E2) == 0
    if e1 and not e2:
        out.append(ret("left-dimensionless", ok, mk(X2, cap2, f_conv)))
    elif e2 and not e1:
        out.append(ret("right-dimensionless", ok, mk(X1, cap1, f_conv)))
    elif e1 and e2:
        out.append(ret("both-dimensionless", ok, mk(X1, cap1, f_conv)))
    else:
        out.append(ret("matching-dimensions", z3.And(ok, deq), mk(X1, cap1, f_conv)))
        out.append(rai("different-dimensions", z3.And(ok, z3.Not(deq)), "InvalidOperationError"))
    return out


def new_quantity_summary(I, ctx, opfn, minus):
    st, R, db = ctx["st"], ctx["R"], ctx["db"]
    qa, qb, v1, v2 = ctx["qa"], ctx["qb"], ctx["v1"], ctx["v2"]
    E1, E2 = entries(qa), entries(qb)
    M1, M2 = match_spec(st, E1, E2)
    pw = z3.Or(needs_power(M1), needs_power(M2))
    merged = merged_spec(M1, M2, minus)
    f_conv = lambda a, b: opfn(reexpress_spec(st, M1, a, []), reexpress_spec(st, M2, b, []))

    def build(I):
        P = I.P
        kept = [r for r in merged if P.branch(r["kept"])]
        q = quantity_from_entries(I, R, db, [(r["c"], r["m"], r["e"]) for r in kept], SStr(""))
        if not kept:
            P.ghost.setdefault("empty_quantity", q)
        return STuple([q, lift2(I, f_conv, v1, v2)])

    lin = z3.And(power_entries_scale_only(M1), power_entries_scale_only(M2))
    out = [unspecified("exp-ne-1/not-scale-only", z3.And(pw, z3.Not(lin)))]
    ok = z3.Implies(pw, lin)
    if minus:
        if not (isinstance(v1, SNum) and isinstance(v2, SNum)):
            raise OutOfSubset("division of numpy arrays (zero elements give inf/nan, outside the real model)")
        zero = reexpress_spec(st, M2, v2.real(), []) == 0
        out.append(rai("division-by-zero", z3.And(ok, zero), "ZeroDivisionError"))
        ok = z3.And(ok, z3.Not(zero))
    out.append(ret("result", ok, build))
    return out


# ------------------------------------------------------------------------------------------------
@register
class ScalarPowSpec(FunctionSpec):
    """Scalar ** n for n = 1..6: the n-fold product a * a * ... * a (C04: 'a**n for n >= 1 is the n-fold
    product'), stated relationally against the multiplication operator, which has its own contract: same
    composing map, same caption, same value; the receiver is untouched."""

    fq = SC + ".__pow__"
    props = ("C04", "C06", "C13")
    callees = BASE_CALLEES + (UDB + ":UnitDatabase._ConvertWithExp",)
    probe = "scalar_pow"

    def variants(self, tier):
        ns = (1, 2, 3, 4, 5, 6) if tier != "thorough" else (1, 2, 3, 4, 5, 6, 7, 8, 9)
        return [(k, n) for k in ("simple", "derived1") for n in ns]

    def setup(self, I, variant):
        kind, n = variant
        db, R, st, qa, qb = arith_setup(I, kind, "empty")
        a = scalar_obj(I, db, qa, tag="a")

        def run(I):
            p = I.binop(ast.Pow(), a, SNum(n))
            ref = a
            for _ in range(n - 1):
                ref = I.binop(ast.Mult(), ref, a)
            return STuple([p, ref])

        return {"f": harness(run), "args": [], "R": R, "st": st, "db": db, "qa": qa, "qb": qb, "a": a, "n": n, "snaps": (quantity_snapshot(qa), quantity_snapshot(qb)), "vsnap": dict(a.o.fields)}

    def cases(self, I, ctx):
        def chk(I, res):
            p, ref = res.items
            for x in (p, ref):
                if not (isinstance(x, SRef) and isinstance(x.o, HObj) and getattr(x.o.cls, "name", "") == "Scalar"):
                    return F
            qp, qr = p.o.fields["_quantity"], ref.o.fields["_quantity"]
            ep, er = entries(qp), entries(qr)
            if len(ep) != len(er):
                return F
            vp, vr = p.o.fields["_value"], ref.o.fields["_value"]
            if not (isinstance(vp, SNum) and isinstance(vr, SNum)):
                return F
            return z3.And(same_entries(ep, er), to_z3b(I.equal(caption_of(qp), caption_of(qr))), vp.real() == vr.real())

        return [ret("n-fold-product", T, props=("C04", "C06"), check=chk)]

    def extra_obligations(self, I, ctx, outcome):
        return [("frame[receiver unchanged]", ("C13",), to_z3b(value_unchanged(I, ctx["a"], ctx["vsnap"])))] + arith_frames(I, ctx)

    def allowed_write(self, I, ctx, obj, what):
        if getattr(obj, "region", "") == "quantity" and what[1] in LAZY_SLOTS:
            return True
        return FunctionSpec.allowed_write(self, I, ctx, obj, what)
