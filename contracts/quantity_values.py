"""Quantity as an immutable value (C07): copies are the object itself, mutators raise ReadOnlyError,
== is equality of (composing map, caption) and is total, hash is congruent with ==, __reduce__
rebuilds an equal quantity, and none of these writes to the quantity."""
import ast
import z3

from pyvc.engine import NameS, FnS, RealS, IntS, BoolS, lit, PyRaise, OutOfSubset
from pyvc.values import *
from pyvc.interp import to_z3b
from pyvc.contract import FunctionSpec, Case, ret, rai, unspecified, register, REGISTRY, same_value
from .schema import *
from .unit_database import UDB, nm
from .values import std_db, mk_q, harness, BASE_CALLEES
from .arith import entries, caption_of, same_entries, And, T, F

hN = z3.Function("hash_name", NameS, IntS)
hR = z3.Function("hash_real", RealS, IntS)
hC = z3.Function("hash_combine", IntS, IntS, IntS)
hNone = z3.Int("hash_None")


def hashmodel(I, v):
    """hash() as an uninterpreted function of the ==-class (assumption A7)"""
    if isinstance(v, SNum):
        if v.extended:
            raise OutOfSubset("hash of nan/inf")
        return SNum(hR(v.real()), "int")
    if isinstance(v, SBool):
        return SNum(hR(z3.If(to_z3b(v.t), z3.RealVal(1), z3.RealVal(0))), "int")
    if isinstance(v, SStr):
        if v.opaque:
            raise OutOfSubset("hash of an opaque string")
        return SNum(hN(v.name), "int")
    if v is SNone:
        return SNum(hNone, "int")
    if isinstance(v, STuple):
        h = z3.IntVal(len(v.items))
        for x in v.items:
            h = hC(h, hashmodel(I, x).t)
        return SNum(h, "int")
    if isinstance(v, SRef) and isinstance(v.o, HObj) and hasattr(v.o.cls, "find_method"):
        m = v.o.cls.find_method("__hash__")
        if m is not None:
            return I.call_function(SFunc(m), [v], {})
        if v.o.cls.find_method("__eq__") is not None:
            I.raise_("TypeError", "unhashable type")
        raise OutOfSubset("identity hash")
    if isinstance(v, SRef):
        I.raise_("TypeError", "unhashable type")
    raise OutOfSubset("hash(%r)" % (v,))


def install_hash(P):
    P.ghost["hashmodel"] = hashmodel


KINDS = ("simple", "derived1", "derived2")


def with_caption(I, q, tag):
    cap = nm(tag + "_caption")
    q.o.fields["_unknown_unit_caption"] = cap
    return q


@register
class QuantityValueSpec(FunctionSpec):
    fq = Q_MOD + ":Quantity.__eq__"
    key = Q_MOD + ":Quantity#value-semantics"
    props = ("C07", "C08", "C13")
    callees = BASE_CALLEES
    probe = "obtain"

    def variants(self, tier):
        out = [("copy", k, "-") for k in KINDS] + [("readonly", k, "-") for k in KINDS] + [("reduce", k, "-") for k in KINDS]
        for a in KINDS:
            for b in KINDS:
                out.append(("eq", a, b))
            for o in ("none", "int", "str", "tuple"):
                out.append(("eq-other", a, o))
        return out

    def setup(self, I, variant):
        what, ka, kb = variant
        db, R = std_db(I)
        install_hash(I.P)
        q = with_caption(I, mk_q(I, R, db, ka, "q"), "q")
        ctx = {"R": R, "st": R.snapshot(), "db": db, "q": q, "what": what, "snap": quantity_snapshot(q), "args": []}
        if what == "copy":
            copy_mod = lambda name: I.B.EXTERNALS["copy." + name]

            def run(I):
                out = [I.call(SBuiltin("copy", copy_mod("copy")), [q]), I.call(SBuiltin("deepcopy", copy_mod("deepcopy")), [q])]
                for m in ("Copy", "MakeCopy", "CreateCopyInstance"):
                    out.append(I.call(I.getattr(q, m), []))
                return STuple(out)

            ctx["f"] = harness(run)
        elif what == "readonly":
            ctx["f"] = harness(lambda I: I.call(I.getattr(q, "SetUnknownCaption"), [nm("new_caption")]))
        elif what == "reduce":
            def run(I):
                red = I.call(I.getattr(q, "__reduce__"), [])
                f, args = red.items
                r = I.call(f, list(args.items))
                return STuple([r, SBool(to_z3b(I.equal(q, r))), SBool(to_z3b(I.equal(r, q)))])

            ctx["f"] = harness(run)
        elif what == "eq":
            p = with_caption(I, mk_q(I, R, db, kb, "p"), "p")
            ctx["p"] = p
            ctx["psnap"] = quantity_snapshot(p)

            def run(I):
                e1 = I.compare(ast.Eq(), q, p)
                e2 = I.compare(ast.Eq(), p, q)
                n1 = I.compare(ast.NotEq(), q, p)
                r = I.compare(ast.Eq(), q, q)
                h1 = I.call(SBuiltin("hash", I.B.BUILTINS["hash"]), [q])
                h2 = I.call(SBuiltin("hash", I.B.BUILTINS["hash"]), [p])
                h1b = I.call(SBuiltin("hash", I.B.BUILTINS["hash"]), [q])
                return STuple([mkb(e1), mkb(e2), mkb(n1), mkb(r), h1, h2, h1b])

            ctx["f"] = harness(run)
        else:
            other = {"none": SNone, "int": SNum(z3.Int("other_i"), "int"), "str": nm("other_s"), "tuple": STuple([nm("other_a"), SNum(1)])}[kb]
            ctx["other"] = other

            def run(I):
                return STuple([mkb(I.compare(ast.Eq(), q, other)), mkb(I.compare(ast.Eq(), other, q)), mkb(I.compare(ast.NotEq(), q, other))])

            ctx["f"] = harness(run)
        return ctx

    def cases(self, I, ctx):
        what, q = ctx["what"], ctx["q"]
        if what == "copy":
            return [ret("copies-are-the-object", T, check=lambda I, res: z3.BoolVal(isinstance(res, STuple) and all(isinstance(x, SRef) and x.o is q.o for x in res.items)))]
        if what == "readonly":
            return [rai("read-only", T, "ReadOnlyError")]
        if what == "reduce":
            def chk(I, res):
                r, e1, e2 = res.items
                from .arith import quantity_is

                return z3.And(quantity_is(I, r, entries(q), caption_of(q)), to_z3b(e1.t), to_z3b(e2.t))

            # a composing map with one entry of exponent 1 is rebuilt through the simple form, which validates the unit
            return [ret("rebuilt-equal", T, check=chk)]
        if what == "eq":
            p = ctx["p"]
            same = z3.And(same_entries(entries(q), entries(p)), caption_of(q).name == caption_of(p).name)

            def chk(I, res):
                e1, e2, n1, r, h1, h2, h1b = res.items
                return z3.And(to_z3b(e1.t) == same, to_z3b(e2.t) == same, to_z3b(n1.t) == z3.Not(same), to_z3b(r.t), z3.Implies(same, h1.t == h2.t), h1.t == h1b.t)

            return [ret("eq-is-map-and-caption/symmetric/reflexive/hash-congruent", T, check=chk)]

        def chk(I, res):
            e1, e2, n1 = res.items
            return z3.And(z3.Not(to_z3b(e1.t)), z3.Not(to_z3b(e2.t)), to_z3b(n1.t))

        return [ret("unrelated-object-is-unequal", T, props=("C08",), check=chk)]

    def extra_obligations(self, I, ctx, outcome):
        obs = [("frame[quantity unchanged]", ("C07", "C13"), quantity_unchanged(I, ctx["q"], ctx["snap"]))]
        if "p" in ctx:
            obs.append(("frame[other quantity unchanged]", ("C07", "C13"), quantity_unchanged(I, ctx["p"], ctx["psnap"])))
        obs.append(("frame[registry: only memo and intern table]", ("C15",), all(w[0] in ("M", "K") for w in ctx["R"].writes)))
        return obs

    def allowed_write(self, I, ctx, obj, what):
        if getattr(obj, "region", "") == "quantity" and what[1] in LAZY_SLOTS:
            return True
        return FunctionSpec.allowed_write(self, I, ctx, obj, what)


def mkb(x):
    if isinstance(x, SBool):
        return x
    return SBool(to_z3b(x))
