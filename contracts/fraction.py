"""Fractional values (C18, C08): Fraction arithmetic and comparison against exact rational arithmetic
(integer numerators / denominators), FractionValue = number + numerator/denominator for float(), the
order operators, == and copy; FractionScalar converts, orders and validates like a Scalar holding
float(value).  fractions.Fraction is an assumed contract (pyvc/rational.py)."""
import ast
import z3

from pyvc.engine import NameS, FnS, RealS, IntS, BoolS, app, lit, PyRaise, OutOfSubset
from pyvc.values import *
from pyvc.interp import to_z3b
from pyvc.contract import FunctionSpec, Case, ret, rai, unspecified, register, REGISTRY, same_value
from pyvc import rational
from .schema import *
from .unit_database import UDB, nm, getinfo_cases, conv_term
from .values import std_db, harness, BASE_CALLEES, getvalue_cases
from .arith import And, Or, T, F, S
from .quantity import limit_terms, limits_ok, ext_value

FR = "barril.basic.fraction._fraction:Fraction"
FV = "barril.basic.fraction._fraction_value:FractionValue"
FS = "barril.units._fraction_scalar:FractionScalar"


def mk_fraction(I, tag):
    """a Fraction object n/d with symbolic integers, d != 0 (built by the real constructor)"""
    n, d = z3.Int(tag + "_n"), z3.Int(tag + "_d")
    I.P.assume(d != 0, "pre:non-zero denominator")
    K = SClass(I.repo.cls(FR))
    f = I.call(K, [SNum(n, "int"), SNum(d, "int")])
    return f, z3.ToReal(n) / z3.ToReal(d)


def value_of_fraction(f):
    x = f.o.fields.get("x") if isinstance(f, SRef) and isinstance(f.o, HObj) else None
    return x.value if isinstance(x, rational.SRat) else None


def mk_fraction_value(I, tag):
    num = SNum(z3.Real(tag + "_number"), "float")
    fr, fv = mk_fraction(I, tag)
    K = SClass(I.repo.cls(FV))
    v = I.call(K, [num, fr])
    v.o.parts = {"number": num.real(), "numerator": z3.ToReal(z3.Int(tag + "_n")), "denominator": z3.ToReal(z3.Int(tag + "_d"))}
    return v, num.real() + fv, num.real(), fv, fr


@register
class FractionSpec(FunctionSpec):
    """Fraction with integer numerator/denominator: every operation agrees with exact rational arithmetic"""

    fq = FR + ".__old_cmp__"
    key = FR + "#rational-arithmetic"
    props = ("C18", "C08")
    probe = "fractions"

    OPS = ["add", "sub", "mul", "truediv", "neg", "abs", "inv", "copy", "float", "eq", "ne", "lt", "le", "gt", "ge", "add-int", "radd-int", "mul-int", "eq-int", "lt-int", "eq-none", "eq-str", "eq-tuple", "hash"]

    def variants(self, tier):
        return [(o,) for o in self.OPS]

    def setup(self, I, variant):
        op = variant[0]
        rational.install(I)
        a, av = mk_fraction(I, "a")
        b, bv = mk_fraction(I, "b")
        k = SNum(z3.Int("k"), "int")
        B = {"add": ast.Add(), "sub": ast.Sub(), "mul": ast.Mult(), "truediv": ast.Div()}
        C = {"eq": ast.Eq(), "ne": ast.NotEq(), "lt": ast.Lt(), "le": ast.LtE(), "gt": ast.Gt(), "ge": ast.GtE()}
        ctx = {"a": a, "b": b, "av": av, "bv": bv, "k": k, "op": op, "args": [], "snap": (a.o.fields["x"], b.o.fields["x"])}
        if op in B:
            ctx["f"] = harness(lambda I: I.binop(B[op], a, b))
        elif op in C:
            ctx["f"] = harness(lambda I: I.compare(C[op], a, b))
        elif op == "neg":
            ctx["f"] = harness(lambda I: I.call(I.getattr(a, "__neg__"), []))
        elif op == "abs":
            ctx["f"] = harness(lambda I: I.call(I.getattr(a, "__abs__"), []))
        elif op in ("inv", "copy"):
            ctx["f"] = harness(lambda I: I.call(I.getattr(a, op), []))
        elif op == "float":
            ctx["f"] = harness(lambda I: I.call(I.B.TYPE_CALLS["float"] if False else SBuiltin("float", I.B.TYPE_CALLS["float"]), [a]))
        elif op == "add-int":
            ctx["f"] = harness(lambda I: I.binop(ast.Add(), a, k))
        elif op == "radd-int":
            ctx["f"] = harness(lambda I: I.binop(ast.Add(), k, a))
        elif op == "mul-int":
            ctx["f"] = harness(lambda I: I.binop(ast.Mult(), a, k))
        elif op == "eq-int":
            ctx["f"] = harness(lambda I: I.compare(ast.Eq(), a, k))
        elif op == "lt-int":
            ctx["f"] = harness(lambda I: I.compare(ast.Lt(), a, k))
        elif op in ("eq-none", "eq-str", "eq-tuple"):
            other = {"eq-none": SNone, "eq-str": nm("some_text"), "eq-tuple": STuple([SNum(1), SNum(2)])}[op]

            def run(I):
                return STuple([I.compare(ast.Eq(), a, other), I.compare(ast.Eq(), other, a), I.compare(ast.NotEq(), a, other)])

            ctx["f"] = harness(run)
        elif op == "hash":
            from .quantity_values import install_hash

            install_hash(I.P)
            ctx["f"] = harness(lambda I: I.call(SBuiltin("hash", I.B.BUILTINS["hash"]), [a]))
        return ctx

    def cases(self, I, ctx):
        op, av, bv, k = ctx["op"], ctx["av"], ctx["bv"], z3.ToReal(ctx["k"].t)

        def frac(expected):
            def chk(I, res):
                v = value_of_fraction(res)
                if v is None or res.o is ctx["a"].o or res.o is ctx["b"].o:
                    return F
                return v == expected

            return chk

        def boolean(expected):
            return lambda I, res: (to_z3b(res.t) == expected) if isinstance(res, SBool) else F

        if op == "add":
            return [ret("sum", T, check=frac(av + bv))]
        if op == "sub":
            return [ret("difference", T, check=frac(av - bv))]
        if op == "mul":
            return [ret("product", T, check=frac(av * bv))]
        if op == "truediv":
            return [rai("division-by-zero", bv == 0, "ZeroDivisionError"), ret("quotient", bv != 0, check=frac(av / bv))]
        if op == "neg":
            return [ret("negation", T, check=frac(-av))]
        if op == "abs":
            return [ret("absolute-value", T, check=frac(z3.If(av < 0, -av, av)))]
        if op == "inv":
            return [rai("division-by-zero", av == 0, "ZeroDivisionError"), ret("reciprocal", av != 0, check=frac(1 / av))]
        if op == "copy":
            return [ret("equal-copy", T, check=frac(av))]
        if op == "float":
            return [ret("float", T, check=lambda I, res: res.real() == av if isinstance(res, SNum) else F)]
        if op in ("eq", "ne", "lt", "le", "gt", "ge"):
            exp = {"eq": av == bv, "ne": av != bv, "lt": av < bv, "le": av <= bv, "gt": av > bv, "ge": av >= bv}[op]
            return [ret("comparison-of-the-rationals", T, check=boolean(exp))]
        if op in ("add-int", "radd-int"):
            return [ret("sum-with-an-integer", T, check=frac(av + k))]
        if op == "mul-int":
            return [ret("product-with-an-integer", T, check=frac(av * k))]
        if op == "eq-int":
            return [ret("comparison-with-an-integer", T, check=boolean(av == k))]
        if op == "lt-int":
            return [ret("comparison-with-an-integer", T, check=boolean(av < k))]
        if op in ("eq-none", "eq-str", "eq-tuple"):
            def chk(I, res):
                e1, e2, n1 = res.items
                return z3.And(z3.Not(to_z3b(e1.t)), z3.Not(to_z3b(e2.t)), to_z3b(n1.t)) if all(isinstance(x, SBool) for x in res.items) else F

            return [ret("unrelated-object-is-unequal (never raises)", T, props=("C08",), check=chk)]
        if op == "hash":
            return [unspecified("Fraction defines __eq__ without __hash__: unhashable", T)]
        return [unspecified("any", T)]

    def extra_obligations(self, I, ctx, outcome):
        a, b = ctx["a"], ctx["b"]
        return [("frame[operands unchanged]", ("C13", "C18"), z3.BoolVal(a.o.fields["x"] is ctx["snap"][0] and b.o.fields["x"] is ctx["snap"][1]))]


@register
class FractionValueSpec(FunctionSpec):
    """FractionValue denotes number + numerator/denominator"""

    fq = FV + ".__float__"
    key = FV + "#amount"
    props = ("C18", "C08", "C13")
    probe = "fractions"

    OPS = ["float", "lt", "le", "gt", "ge", "eq", "ne", "copy", "eq-none", "eq-float"]

    def variants(self, tier):
        return [(o,) for o in self.OPS]

    def setup(self, I, variant):
        op = variant[0]
        rational.install(I)
        a, av, an, af, afr = mk_fraction_value(I, "a")
        b, bv, bn, bf, bfr = mk_fraction_value(I, "b")
        C = {"eq": ast.Eq(), "ne": ast.NotEq(), "lt": ast.Lt(), "le": ast.LtE(), "gt": ast.Gt(), "ge": ast.GtE()}
        ctx = {"a": a, "b": b, "av": av, "bv": bv, "an": an, "af": af, "bn": bn, "bf": bf, "afr": afr, "op": op, "args": [], "snap": dict(a.o.fields)}
        flt = SBuiltin("float", I.B.TYPE_CALLS["float"])
        if op == "float":
            ctx["f"] = harness(lambda I: I.call(flt, [a]))
        elif op in C:
            ctx["f"] = harness(lambda I: I.compare(C[op], a, b))
        elif op == "copy":
            ctx["f"] = harness(lambda I: I.call(SBuiltin("copy", I.B.EXTERNALS["copy.copy"]), [a]))
        else:
            other = SNone if op == "eq-none" else SNum(z3.Real("x"), "float")

            def run(I):
                return STuple([I.compare(ast.Eq(), a, other), I.compare(ast.Eq(), other, a), I.compare(ast.NotEq(), a, other)])

            ctx["f"] = harness(run)
        return ctx

    def cases(self, I, ctx):
        op, av, bv = ctx["op"], ctx["av"], ctx["bv"]
        boolean = lambda expected: (lambda I, res: (to_z3b(res.t) == expected) if isinstance(res, SBool) else F)
        if op == "float":
            return [ret("number-plus-fraction", T, check=lambda I, res: res.real() == av if isinstance(res, SNum) else F)]
        if op in ("lt", "le", "gt", "ge"):
            exp = {"lt": av < bv, "le": av <= bv, "gt": av > bv, "ge": av >= bv}[op]
            return [ret("order-of-the-amounts", T, check=boolean(exp))]
        if op in ("eq", "ne"):
            same = z3.And(ctx["an"] == ctx["bn"], ctx["af"] == ctx["bf"])
            return [ret("same-number-and-same-fraction", T, check=boolean(same if op == "eq" else z3.Not(same)))]
        if op == "copy":
            def chk(I, res):
                if not (isinstance(res, SRef) and isinstance(res.o, HObj) and res.o.cls.name == "FractionValue") or res.o is ctx["a"].o:
                    return F
                fr = res.o.fields.get("_fraction")
                v = value_of_fraction(fr)
                if v is None or fr.o is ctx["afr"].o:
                    return F  # a copy owns a new Fraction
                return z3.And(res.o.fields["_number"].real() == ctx["an"], v == ctx["af"])

            return [ret("equal-independent-copy", T, check=chk)]

        def chk(I, res):
            e1, e2, n1 = res.items
            return z3.And(z3.Not(to_z3b(e1.t)), z3.Not(to_z3b(e2.t)), to_z3b(n1.t)) if all(isinstance(x, SBool) for x in res.items) else F

        return [ret("unrelated-object-is-unequal (never raises)", T, props=("C08",), check=chk)]

    def extra_obligations(self, I, ctx, outcome):
        a = ctx["a"]
        same = all(a.o.fields.get(k) is v or (isinstance(v, SRef) and isinstance(a.o.fields.get(k), SRef) and a.o.fields[k].o is v.o) for k, v in ctx["snap"].items())
        return [("frame[receiver unchanged]", ("C13",), z3.BoolVal(same))]


# ------------------------------------------------------------------------------------------------
from pyvc import symseq
from .values import mk_q
from .fixedarray import fixed_array


@register
class ValueEqualitySpec(FunctionSpec):
    """== / != between Scalars, Arrays, FixedArrays (and with unrelated objects) never raise, are
    symmetric and reflexive, and mean 'same class, same value(s), same quantity (and dimension)'."""

    fq = "barril.units._fixedarray:FixedArray.__eq__"
    key = "barril.units:value-objects#equality"
    props = ("C08", "C13")
    callees = BASE_CALLEES
    probe = "equality"

    KINDS = ("scalar", "array", "fixedarray")
    OTHERS = ("none", "int", "str", "tuple", "quantity")
    CONTAINERS = {"array": "list", "array:tuple": "tuple", "array:ndarray": "numpy.ndarray", "fixedarray:ndarray": "numpy.ndarray"}

    def variants(self, tier):
        out = []
        for a in self.KINDS:
            for b in self.KINDS + self.OTHERS:
                out.append((a, b))
        # container kinds of the values (equal or different lengths are both inside each variant)
        for a, b in (("array:ndarray", "array:ndarray"), ("array:ndarray", "array"), ("array", "array:ndarray"), ("array:tuple", "array:tuple"), ("array:tuple", "array"), ("array:ndarray", "array:tuple"), ("fixedarray:ndarray", "fixedarray:ndarray"), ("array:ndarray", "fixedarray:ndarray"), ("array:ndarray", "none"), ("array:ndarray", "str")):
            out.append((a, b))
        return out

    def make(self, I, db, R, kind, tag):
        q = mk_q(I, R, db, "simple", tag)
        if kind == "scalar":
            return scalar_obj(I, db, q, tag=tag)
        if kind.startswith("array"):
            return array_obj(I, db, q, symseq.fresh_seq(I.P, self.CONTAINERS[kind], base=tag + "_vals"), tag=tag)
        if kind.startswith("fixedarray"):
            return fixed_array(I, db, q, "ndarray" if kind.endswith("ndarray") else "list", tag=tag)
        if kind == "quantity":
            return q
        return {"none": SNone, "int": SNum(z3.Int(tag + "_i"), "int"), "str": nm(tag + "_text"), "tuple": STuple([SNum(z3.Real(tag + "_x"), "float"), nm(tag + "_u")])}[kind]

    def setup(self, I, variant):
        ka, kb = variant
        db, R = std_db(I)
        a = self.make(I, db, R, ka, "a")
        b = self.make(I, db, R, kb, "b")

        def run(I):
            return STuple([I.compare(ast.Eq(), a, b), I.compare(ast.Eq(), b, a), I.compare(ast.NotEq(), a, b), I.compare(ast.NotEq(), b, a), I.compare(ast.Eq(), a, a)])

        snaps = [dict(x.o.fields) if isinstance(x, SRef) and isinstance(x.o, HObj) else None for x in (a, b)]
        return {"f": harness(run), "args": [], "R": R, "a": a, "b": b, "ka": ka, "kb": kb, "snaps": snaps}

    def cases(self, I, ctx):
        a, b, ka, kb = ctx["a"], ctx["b"], ctx["ka"], ctx["kb"]

        def chk(I, res):
            if not all(isinstance(x, SBool) for x in res.items):
                return F
            e1, e2, n1, n2, r = [to_z3b(x.t) for x in res.items]
            conj = [e1 == e2, n1 == z3.Not(e1), n2 == z3.Not(e2), r]
            ca, cb = ka.split(":")[0], kb.split(":")[0]
            if ca != cb:
                conj.append(z3.Not(e1))  # objects of different classes are never equal
            else:
                fa, fb = a.o.fields, b.o.fields
                qeq = to_z3b(I.equal(fa["_quantity"], fb["_quantity"]))
                if ka == "scalar":
                    same = z3.And(fa["_value"].real() == fb["_value"].real(), qeq)
                else:
                    va, vb = fa["_value"], fb["_value"]
                    j = z3.Int("j!eq")
                    same = z3.And(va.n == vb.n, z3.ForAll([j], z3.Implies(z3.And(j >= 0, j < va.n), S(va.elems, j) == S(vb.elems, j))), qeq)
                    if ca == "fixedarray":
                        same = z3.And(same, fa["_dimension"].t == fb["_dimension"].t)
                conj.append(e1 == same)
            return And(conj)

        return [ret("total-symmetric-reflexive", T, check=chk)]

    def extra_obligations(self, I, ctx, outcome):
        conj = []
        for x, sn in zip((ctx["a"], ctx["b"]), ctx["snaps"]):
            if sn is not None and "_value" in sn:
                conj.append(to_z3b(value_unchanged(I, x, sn)))
        return [("frame[operands unchanged]", ("C13",), And(conj))]

    def allowed_write(self, I, ctx, obj, what):
        if getattr(obj, "region", "") == "quantity" and what[1] in LAZY_SLOTS:
            return True
        return FunctionSpec.allowed_write(self, I, ctx, obj, what)


# ------------------------------------------------------------------------------------------------
# Fraction.__init__ on real numbers: the scaling loop keeps a/b constant; the stored value is within
# SMALL/b of a/b (exact for integers).

from pyvc.values import real_of_float

SMALL = real_of_float(1e-08)  # the module constant, as the binary64 value CPython uses


class ScalingLoopInvariant:
    """while abs(a - round(a)) > SMALL: a *= 10; b *= 10      invariant: a*b0 == a0*b  and  b >= b0 > 0"""

    props = ("C18",)

    def enter(self, I, frame):
        a0 = frame.vars["a"]
        r0 = I.call(SBuiltin("round", I.B.BUILTINS["round"]), [a0]).real()
        d = a0.real() - r0
        entered = z3.Or(d > SMALL, -d > SMALL)
        return {"a0": a0.real(), "b0": frame.vars["b"].real(), "entered": entered}

    def inv(self, I, frame, e):
        a, b = frame.vars["a"].real(), frame.vars["b"].real()
        # a/b is constant, b only grows, and nothing changes unless the loop is entered at all
        return z3.And(a * e["b0"] == e["a0"] * b, b >= e["b0"], e["b0"] > 0, z3.Implies(z3.Not(e["entered"]), z3.And(a == e["a0"], b == e["b0"])))

    def havoc(self, I, frame):
        frame.vars["a"] = SNum(I.P.fresh("a_loop", RealS), "float")
        frame.vars["b"] = SNum(I.P.fresh("b_loop", RealS), "float")


@register
class FractionInitSpec(FunctionSpec):
    fq = FR + ".__init__"
    props = ("C18",)
    probe = "fractions"

    def variants(self, tier):
        return [("int", "int"), ("float", "int"), ("float", "float"), ("float", "none"), ("int", "none")]

    def setup(self, I, variant):
        ka, kb = variant
        rational.install(I)
        P = I.P
        P.ghost["loop_invariants"] = {(self.fq, 0): ScalingLoopInvariant()}
        a = SNum(z3.Int("a_i"), "int") if ka == "int" else SNum(z3.Real("a"), "float")
        b = SNone if kb == "none" else (SNum(z3.Int("b_i"), "int") if kb == "int" else SNum(z3.Real("b"), "float"))
        o = P.alloc(HObj(I.repo.cls(FR), region="fresh-self"))
        self_ = SRef(o)
        return {"f": SFunc(I.repo.func(self.fq)), "args": [self_, a, b], "self": self_, "a": a, "b": b}

    def cases(self, I, ctx):
        a, b, self_ = ctx["a"], ctx["b"], ctx["self"]
        av = a.real()
        bv = z3.RealVal(1) if b is SNone else b.real()
        zero = (bv == 0) if b is not SNone else F

        def chk(I, res):
            x = self_.o.fields.get("x")
            if not isinstance(x, rational.SRat):
                return F
            exact = av / bv
            absb = z3.If(bv < 0, -bv, bv)
            diff = x.value - exact
            bound = z3.And(diff * absb <= SMALL, -diff * absb <= SMALL)
            if a.is_int and (b is SNone or b.is_int):
                return x.value == exact
            return bound

        if ctx.get("$call"):
            exact_kind = a.is_int and (b is SNone or b.is_int)

            def eff(I):
                P = I.P
                exact = av / bv
                if exact_kind:
                    v = exact
                else:
                    v = P.fresh("fraction_value", RealS)
                    absb = z3.If(bv < 0, -bv, bv)
                    P.assume(z3.And((v - exact) * absb <= SMALL, (exact - v) * absb <= SMALL), "post:Fraction.__init__ (value within SMALL/|b| of a/b)")
                self_.o.fields["x"] = rational.SRat(P, v)

            return [rai("zero-denominator", zero, "AssertionError"), ret("value-is-a-over-b", z3.Not(zero), SNone, effects=eff)]
        return [rai("zero-denominator", zero, "AssertionError"), ret("value-is-a-over-b", z3.Not(zero), check=chk)]

    def bind_call(self, I, f, args, kwargs):
        ctx = FunctionSpec.bind_call(self, I, f, args, kwargs)
        if not (isinstance(ctx["a"], SNum) and (ctx["b"] is SNone or isinstance(ctx["b"], SNum))) or ctx["a"].extended or (ctx["b"] is not SNone and ctx["b"].extended):
            raise OutOfSubset("Fraction(...) with non-numeric / non-finite arguments through the contract")
        rational.install(I)
        return ctx

    def inline_when(self, I, f, args, kwargs):
        # integers: the real body is straight-line (the loop is not entered) - execute it
        a = args[1] if len(args) > 1 else kwargs.get("a")
        b = args[2] if len(args) > 2 else kwargs.get("b", SNone)
        return isinstance(a, SNum) and a.is_int and (b is SNone or (isinstance(b, SNum) and b.is_int))

    def allowed_write(self, I, ctx, obj, what):
        return obj is ctx["self"].o or FunctionSpec.allowed_write(self, I, ctx, obj, what)


@register
class FractionScalarSpec(FunctionSpec):
    """FractionScalar converts, orders and validates like a Scalar holding float(value)."""

    fq = FS + ".ConvertFractionValue"
    key = FS + "#like-a-scalar"
    props = ("C18", "C08", "C02", "C12", "C13", "C05")
    callees = BASE_CALLEES + (FR + ".__init__",)
    probe = "fraction_scalar"

    def variants(self, tier):
        return [("getvalue",), ("getvalue-none",), ("lt",), ("le",), ("gt",), ("ge",), ("check-validity",)]

    def setup(self, I, variant):
        op = variant[0]
        db, R = std_db(I)
        rational.install(I)
        P = I.P

        def fscalar(tag):
            q = simple_quantity(I, R, db, z3.Const(tag + "_c", NameS), z3.Const(tag + "_u", NameS), tag=tag)
            v, amount, num, fv, fr = mk_fraction_value(I, tag)
            o = P.alloc(HObj(I.repo.cls(FS), region="param"))
            o.fields.update({"_value": v, "_quantity": q, "_unit_database": db})
            return SRef(o), q, v, amount, num, fv, fr

        a, qa, va, amount_a, num_a, fv_a, fr_a = fscalar("a")
        ctx = {"R": R, "st": R.snapshot(), "db": db, "op": op, "a": a, "qa": qa, "va": va, "amount_a": amount_a, "num_a": num_a, "fv_a": fv_a, "fr_a": fr_a, "args": [], "fsnap": (fr_a.o.fields["x"], dict(va.o.fields))}
        C = {"lt": ast.Lt(), "le": ast.LtE(), "gt": ast.Gt(), "ge": ast.GtE()}
        if op == "getvalue":
            u = nm("to_unit")
            R.touch(u.name)
            ctx["unit"] = u
            ctx["f"] = harness(lambda I: I.call(I.getattr(a, "GetValue"), [u]))
        elif op == "getvalue-none":
            ctx["f"] = harness(lambda I: I.call(I.getattr(a, "GetValue"), []))
        elif op in C:
            b, qb, vb, amount_b, num_b, fv_b, fr_b = fscalar("b")
            ctx.update({"b": b, "qb": qb, "amount_b": amount_b, "vb": vb})
            ctx["f"] = harness(lambda I: I.compare(C[op], a, b))
        else:
            ctx["f"] = harness(lambda I: I.call(I.getattr(a, "CheckValidity"), []))
        return ctx

    def scale_only(self, st, u, w):
        """the conversion u -> w is a multiplication by a positive ratio (no offset)"""
        from .arith import ratio

        x = z3.Real("x!any")
        r = ratio(u, w)
        return r, z3.And(r > 0, z3.ForAll([x], conv_term(st, u, w, x) == x * r))

    def cases(self, I, ctx):
        op, R, st = ctx["op"], ctx["R"], ctx["st"]
        a, qa = ctx["a"], ctx["qa"]
        amount = ctx["amount_a"]
        if op == "getvalue-none":
            return [ret("stored-value", T, check=lambda I, res: z3.BoolVal(isinstance(res, SRef) and res.o is ctx["va"].o))]
        if op == "getvalue":
            u = ctx["unit"].name
            own = qa.o.fields["_unit"].name
            c = qa.o.qinfo["c"]
            qt = S(st["C_qt"], c)
            tbt = qa.o.fields["_tobase"].t
            out = []
            # the conversion goes through ObtainQuantity(own unit, category) and ConvertScalarValue(number / numerator, unit)
            for n_, g_, k_, x_ in getinfo_cases(R, st, qt, u, True, True):
                g = z3.And(own != u, g_)
                if k_ == "raise":
                    out.append(rai("to:" + n_, g, x_, props=("C05",)))
                    continue
                conv = lambda t, x_=x_: app(S(st["U_fb"], x_), app(tbt, t))
                r = z3.Real("ratio!%s" % n_)
                off = z3.Real("offset!%s" % n_)
                xx = z3.Real("x!any")
                # the conversion is x -> r*x + offset with a positive ratio (every table unit is; instantiated by
                # matching on conv terms); scale-only: offset 0
                is_affine = z3.And(r > 0, z3.ForAll([xx], conv(xx) == xx * r + off, patterns=[conv(xx)]), conv(amount) == amount * r + off, conv(z3.RealVal(0)) == off)
                linear = z3.And(is_affine, off == 0)
                affine = z3.And(is_affine, off != 0)

                def chk(I, res, conv=conv, linear=linear):
                    if not (isinstance(res, SRef) and isinstance(res.o, HObj) and res.o.cls.name == "FractionValue") or res.o is ctx["va"].o:
                        return F
                    fr = res.o.fields.get("_fraction")
                    fv = value_of_fraction(fr)
                    num = res.o.fields.get("_number")
                    if fv is None or not isinstance(num, SNum) or fr.o is ctx["fr_a"].o:
                        return F
                    got = num.real() + fv
                    want = conv(amount)
                    d = got - want
                    return z3.And(d <= SMALL, -d <= SMALL)

                if n_ == "unknown":
                    out.append(unspecified("to:unknown (the Unknown quantity type accepts anything)", g))
                    continue
                out.append(ret("scale-only/to:" + n_, z3.And(g, linear), props=("C18", "C02"), check=chk))
                out.append(ret("affine/to:" + n_, z3.And(g, affine), props=("C18", "C02"), check=chk))
                out.append(unspecified("neither-scale-nor-offset/to:" + n_, z3.And(g, z3.Not(is_affine))))
            out.append(ret("own-unit", own == u, props=("C18", "C02"), check=lambda I, res: self.same_amount(ctx, res)))
            return out
        if op in ("lt", "le", "gt", "ge"):
            b, qb = ctx["b"], ctx["qb"]
            ta, tb_ = qa.o.fields["_quantity_type"].name, qb.o.fields["_quantity_type"].name
            out = [rai("different-quantity-types", ta != tb_, "TypeError", props=("C05", "C08"))]
            ua, ub = qa.o.fields["_unit"].name, qb.o.fields["_unit"].name
            xa, xb = amount, ctx["amount_b"]
            cmp_ = {"lt": lambda p, q: p < q, "le": lambda p, q: p <= q, "gt": lambda p, q: p > q, "ge": lambda p, q: p >= q}[op]
            boolean = lambda expected: (lambda I, res: (to_z3b(res.t) == expected) if isinstance(res, SBool) else F)
            same_t = ta == tb_
            out.append(ret("same-unit: order of the amounts", z3.And(same_t, ua == ub), props=("C08", "C18"), check=boolean(cmp_(xa, xb))))
            # different units: __lt__ is FractionValue.__lt__(own value, other.GetValue(own unit)) - the composition
            # of the two contracts proved above (conversion to within SMALL, order of the amounts); not re-proved here
            out.append(unspecified("different-units (by composition of the GetValue and FractionValue-order contracts)", z3.And(same_t, ua != ub)))
            return out
        # check-validity: exactly Quantity.CheckValue(float(value))
        from .quantity import CheckValueSpec

        sub = dict(ctx, self=qa, value=SNum(amount, "float"), use_literals=SBool(False))
        cs = REGISTRY["barril.units._quantity:Quantity.CheckValue"].cases(I, sub)
        for c_ in cs:
            c_.props = ("C18", "C12")
        return cs

    def same_amount(self, ctx, res):
        if not (isinstance(res, SRef) and isinstance(res.o, HObj) and res.o.cls.name == "FractionValue"):
            return F
        fv = value_of_fraction(res.o.fields.get("_fraction"))
        num = res.o.fields.get("_number")
        if fv is None or not isinstance(num, SNum):
            return F
        d = num.real() + fv - ctx["amount_a"]
        return z3.And(d <= SMALL, -d <= SMALL)

    def extra_obligations(self, I, ctx, outcome):
        fr, va = ctx["fr_a"], ctx["va"]
        same = fr.o.fields["x"] is ctx["fsnap"][0] and all(va.o.fields.get(k) is v or (isinstance(v, SRef) and isinstance(va.o.fields.get(k), SRef) and va.o.fields[k].o is v.o) or (isinstance(v, SNum) and va.o.fields.get(k) is v) for k, v in ctx["fsnap"][1].items())
        return [
            ("frame[the receiver's FractionValue and Fraction are unchanged]", ("C13", "C18"), z3.BoolVal(bool(same))),
            ("frame[registry: only memo and intern table]", ("C15",), all(w[0] in ("M", "K") for w in ctx["R"].writes)),
        ]

    def allowed_write(self, I, ctx, obj, what):
        if getattr(obj, "region", "") == "quantity" and what[1] in LAZY_SLOTS:
            return True
        return FunctionSpec.allowed_write(self, I, ctx, obj, what)
