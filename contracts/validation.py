"""Limit validation of value objects (C12): Scalar / Array CheckValidity and IsValid accept exactly when
every (non-NaN) amount, re-expressed in the category's default unit, satisfies the limits.
Array._DoValidateValues' scan (first non-NaN element, then running minimum / maximum over one shared
iterator) is verified with loop invariants for sequences of unbounded length; Quantity.CheckValue by
its contract; the step from 'minimum and maximum satisfy the limits' to 'every element does' uses the
monotonicity of conversions (C01)."""
import ast
import z3

from pyvc.engine import NameS, FnS, RealS, IntS, BoolS, app, lit, PyRaise, OutOfSubset
from pyvc.values import *
from pyvc.interp import to_z3b
from pyvc.contract import FunctionSpec, Case, ret, rai, unspecified, register, REGISTRY, same_value
from pyvc import symseq
from .schema import *
from .unit_database import UDB, nm
from .values import std_db, harness, BASE_CALLEES, AR, SC, AVQ
from .quantity import limit_terms, limits_ok, ext_value
from .arith import And, Or, T, F, S

ARR_FQ = AR + "._DoValidateValues"


def nan_seq(P, kind, base="vals"):
    """a sequence whose elements are finite numbers or NaN"""
    s = symseq.fresh_seq(P, kind, base=base)
    nan = P.fresh(base + "_nan", z3.ArraySort(IntS, BoolS))
    s.extended = (nan, z3.K(IntS, F), z3.K(IntS, F))
    return s


class FirstNonNaN:
    """for value in iterator: if isnan(value): continue; ...; break
    invariant: every element consumed so far is NaN"""

    props = ("C12",)

    def enter(self, I, frame, it):
        return {}

    def inv(self, I, frame, it, e, assume=False):
        j = z3.Int("j!A")
        nan = it.seq.extended[0]
        return z3.And(it.pos >= 0, it.pos <= it.seq.n, z3.ForAll([j], z3.Implies(z3.And(j >= 0, j < it.pos), S(nan, j)), patterns=[S(nan, j)]))

    def havoc(self, I, frame, it):
        it.pos = I.P.fresh("pos_A", IntS)
        frame.vars["value"] = ext_value(I.P, "value_A%d" % I.P.fresh_counter)


class RunningMinMax:
    """for value in iterator (continuing): skip NaN; update min_value / max_value
    invariant: min_value <= every non-NaN element seen since the first one <= max_value, both attained"""

    props = ("C12",)

    def enter(self, I, frame, it):
        return {"f": it.pos - 1}

    def inv(self, I, frame, it, e, assume=False):
        f = e["f"]
        nan, el = it.seq.extended[0], it.seq.elems
        mn, mx = frame.vars["min_value"], frame.vars["max_value"]
        if not (isinstance(mn, SNum) and isinstance(mx, SNum)):
            return False
        j, j1, j2 = z3.Int("j!B"), z3.Int("j1!B"), z3.Int("j2!B")
        fin = lambda v: z3.Not(z3.Or(v.nan, v.pinf, v.ninf)) if v.extended else T
        rng = lambda x: z3.And(x >= f, x < it.pos)
        bounds = z3.ForAll([j], z3.Implies(z3.And(rng(j), z3.Not(S(nan, j))), z3.And(mn.real() <= S(el, j), S(el, j) <= mx.real())), patterns=[S(el, j)])
        if assume:
            # assumed invariant: the witnesses of 'attained' are named (skolem constants)
            w1, w2 = I.P.fresh("attains_min", IntS), I.P.fresh("attains_max", IntS)
            att = z3.And(rng(w1), z3.Not(S(nan, w1)), S(el, w1) == mn.real(), rng(w2), z3.Not(S(nan, w2)), S(el, w2) == mx.real())
        else:
            att = z3.And(
                z3.Exists([j1], z3.And(rng(j1), z3.Not(S(nan, j1)), S(el, j1) == mn.real())),
                z3.Exists([j2], z3.And(rng(j2), z3.Not(S(nan, j2)), S(el, j2) == mx.real())),
            )
        return z3.And(it.pos > f, it.pos <= it.seq.n, f >= 0, fin(mn), fin(mx), bounds, att)

    def havoc(self, I, frame, it):
        P = I.P
        it.pos = P.fresh("pos_B", IntS)
        k = P.fresh_counter
        frame.vars["min_value"] = ext_value(P, "min_B%d" % k)
        frame.vars["max_value"] = ext_value(P, "max_B%d" % k)
        frame.vars["value"] = ext_value(P, "value_B%d" % k)


def install_invariants(P):
    P.ghost.setdefault("loop_invariants", {}).update({(ARR_FQ, "for", 2): FirstNonNaN(), (ARR_FQ, "for", 3): RunningMinMax()})


@register
class ArrayValiditySpec(FunctionSpec):
    """Array.CheckValidity / IsValid on flat values (list, tuple, ndarray) of unbounded length."""

    fq = ARR_FQ
    key = ARR_FQ + "#flat"
    props = ("C12", "C13")
    callees = BASE_CALLEES + (Q_MOD + ":Quantity.CheckValue",)
    probe = "validity"

    def variants(self, tier):
        # the verdict is memoised on the object (_is_valid / _validity_exception): a fresh memo for every
        # container kind, and the two filled states (representation invariant MV assumed, see setup)
        out = [(k, m, "memo-none") for k in ("list", "tuple", "ndarray") for m in ("check", "isvalid")]
        out += [("list", m, memo) for m in ("check", "isvalid") for memo in ("memo-true", "memo-rejected")]
        return out

    def setup(self, I, variant):
        kind, mode, memo = variant
        db, R = std_db(I)
        P = I.P
        install_invariants(P)
        q = simple_quantity(I, R, db, z3.Const("c", NameS), z3.Const("u", NameS))
        vals = nan_seq(P, {"list": "list", "tuple": "tuple", "ndarray": "numpy.ndarray"}[kind])
        a = array_obj(I, db, q, vals)
        if memo == "memo-true":
            a.o.fields["_is_valid"] = SBool(True)
        elif memo == "memo-rejected":
            a.o.fields["_is_valid"] = SBool(False)
            ecls = I.repo.cls("barril.units.exceptions:QuantityValidationError")
            a.o.fields["_validity_exception"] = I.instantiate(ecls, [SStr("stored"), SStr("caption"), SNum(z3.Real("stored_value"), "float"), SStr(">="), SNum(z3.Real("stored_limit"), "float")], {})
        st = R.snapshot()
        # C01: conversions inside a quantity type are strictly increasing (row obligations + composition lemma)
        c, u = q.o.qinfo["c"], q.o.qinfo["u"]
        du = S(st["C_du"], c)
        tbt = q.o.fields["_tobase"].t
        conv = lambda t: app(S(st["U_fb"], du), app(tbt, t))
        name = "CheckValidity" if mode == "check" else "IsValid"
        ctx = {"f": I.getattr(a, name), "args": [], "R": R, "st": st, "self": a, "q": q, "vals": vals, "mode": mode, "conv": conv, "snap": dict(a.o.fields), "qsnap": quantity_snapshot(q), "elems0": vals.elems, "n0": vals.n, "memo": memo}
        # MV (representation invariant of Arrays): a stored verdict is the verdict of the stored values
        if memo != "memo-none":
            L, allok = self.all_ok(I, ctx)
            accept = z3.Or(z3.And(L["min_none"], L["max_none"]), allok)
            P.assume(accept if memo == "memo-true" else z3.Not(accept), "pre:MV the memoised verdict is the verdict of the stored values")
        return ctx

    def all_ok(self, I, ctx):
        st, q, vals = ctx["st"], ctx["q"], ctx["vals"]
        c, u = q.o.qinfo["c"], q.o.qinfo["u"]
        L = limit_terms(ctx["R"], st, c)
        du = S(st["C_du"], c)
        j = z3.Int("j!ok")
        v = S(vals.elems, j)
        y = SNum(z3.If(u == du, v, ctx["conv"](v)), "float")
        okmin, okmax = limits_ok(I, L, y)
        nan = vals.extended[0]
        return L, z3.ForAll([j], z3.Implies(z3.And(j >= 0, j < vals.n, z3.Not(S(nan, j))), z3.And(okmin, okmax)))

    def cases(self, I, ctx):
        L, allok = self.all_ok(I, ctx)
        nolim = z3.And(L["min_none"], L["max_none"])
        accept = z3.Or(nolim, allok)
        conv = ctx["conv"]

        def mono(I):
            # C01: conversions inside a quantity type are strictly increasing (row obligations + composition lemma);
            # only needed to pass from 'minimum and maximum satisfy the limits' to 'every element does'
            x, y = z3.Reals("x!mono y!mono")
            I.P.assume(z3.ForAll([x, y], z3.Implies(x < y, conv(x) < conv(y)), patterns=[z3.MultiPattern(conv(x), conv(y))]), "pre:C01 conversions are strictly increasing")

        def chk_bool(I, res):
            mono(I)
            return (to_z3b(res.t) == accept) if isinstance(res, SBool) else F

        if ctx["mode"] == "isvalid":
            return [ret("valid-iff-every-amount-satisfies-the-limits", T, check=chk_bool)]

        def chk_ret(I, res):
            mono(I)
            return accept

        def chk_exc(I, e):
            mono(I)
            return z3.Not(accept)

        # the outcome decides which clause applies: a normal return requires 'accept', a rejection requires its negation
        return [ret("returns-only-if-every-amount-satisfies-the-limits", T, check=chk_ret)] if False else [Case("accept-iff-every-amount-satisfies-the-limits", T, "either", check=chk_ret, check_exc=chk_exc, exc="QuantityValidationError")]

    def extra_obligations(self, I, ctx, outcome):
        v = ctx["self"].o.fields.get("_value")
        same = z3.And(v.n == ctx["n0"], v.elems == ctx["elems0"]) if isinstance(v, symseq.SymSeq) and v.token == ctx["vals"].token else F
        # MV preserved: whatever the memo holds afterwards is the verdict of the stored values
        f = ctx["self"].o.fields
        L, allok = self.all_ok(I, ctx)
        accept = z3.Or(z3.And(L["min_none"], L["max_none"]), allok)
        x, y = z3.Reals("x!mono y!mono")
        conv = ctx["conv"]
        mono = z3.ForAll([x, y], z3.Implies(x < y, conv(x) < conv(y)), patterns=[z3.MultiPattern(conv(x), conv(y))])
        iv, ve = f.get("_is_valid"), f.get("_validity_exception")
        mv = []
        if isinstance(iv, SBool) and iv.concrete() is True:
            mv.append(accept)
        elif iv is not SNone and not (isinstance(iv, SBool) and iv.concrete() is False):
            mv.append(F)
        if ve is not SNone:
            mv.append(z3.Not(accept))
        return [
            ("frame[values unchanged]", ("C13",), same),
            ("frame[quantity unchanged]", ("C07", "C13"), quantity_unchanged(I, ctx["q"], ctx["qsnap"])),
            ("frame[registry unchanged]", ("C15",), not ctx["R"].writes),
            ("inv[MV: a memoised verdict is the verdict of the stored values]", ("C12",), z3.Implies(mono, And(mv))),
        ]

    def allowed_write(self, I, ctx, obj, what):
        if obj is ctx["self"].o and what[1] in ("_is_valid", "_validity_exception"):
            return True
        if getattr(obj, "region", "") == "quantity" and what[1] in LAZY_SLOTS:
            return True
        return FunctionSpec.allowed_write(self, I, ctx, obj, what)


@register
class ScalarValiditySpec(FunctionSpec):
    """Scalar.CheckValidity / IsValid: exactly Quantity.CheckValue(stored value)"""

    fq = SC + ".CheckValidity"
    props = ("C12",)
    callees = BASE_CALLEES
    probe = "validity"

    def variants(self, tier):
        return [("check",), ("isvalid",), ("isvalid-derived",)]

    def setup(self, I, variant):
        mode = variant[0]
        db, R = std_db(I)
        if mode == "isvalid-derived":
            q = derived_quantity(I, R, db, fresh_entries(I.P, 2, "q"))
        else:
            q = simple_quantity(I, R, db, z3.Const("c", NameS), z3.Const("u", NameS))
        s = scalar_obj(I, db, q, value=ext_value(I.P, "value"))
        name = "CheckValidity" if mode == "check" else "IsValid"
        return {"f": I.getattr(s, name), "args": [], "R": R, "st": R.snapshot(), "self": s, "q": q, "mode": mode}

    def cases(self, I, ctx):
        if ctx["mode"] == "isvalid-derived":
            return [ret("derived-quantities-are-always-valid", T, SBool(True))]
        sub = dict(ctx, self=ctx["q"], value=ctx["self"].o.fields["_value"], use_literals=SBool(False))
        cs = REGISTRY[Q_MOD + ":Quantity.CheckValue"].cases(I, sub)
        if ctx["mode"] == "check":
            return cs
        accept = Or([c.guard for c in cs if c.kind == "return"])
        return [ret("valid-iff-the-amount-satisfies-the-limits", T, check=lambda I, res: (to_z3b(res.t) == accept) if isinstance(res, SBool) else F)]



def accept_of(I, R, st, q, vals):
    """'every (non-NaN) amount of vals, in the default unit of q's category, satisfies the category's limits'
    for a simple quantity q (derived quantities are always valid)"""
    info = getattr(q.o, "qinfo", None) or {}
    if info.get("kind") == "derived" or "c" not in info:
        return T
    c, u = info["c"], info["u"]
    L = limit_terms(R, st, c)
    du = S(st["C_du"], c)
    tbt = q.o.fields["_tobase"].t
    j = z3.Int("j!ok2")
    v = S(vals.elems, j)
    y = SNum(z3.If(u == du, v, app(S(st["U_fb"], du), app(tbt, v))), "float")
    okmin, okmax = limits_ok(I, L, y)
    nan = vals.extended[0] if vals.extended is not None else z3.K(IntS, F)
    allok = z3.ForAll([j], z3.Implies(z3.And(j >= 0, j < vals.n, z3.Not(S(nan, j))), z3.And(okmin, okmax)))
    return z3.Or(z3.And(L["min_none"], L["max_none"]), allok)


@register
class ArrayCopyMemoSpec(FunctionSpec):
    """Array.CreateCopy (values / unit / category forms) on an Array whose validity verdict is already
    memoised: the copy satisfies the representation invariant MV - whatever verdict it carries is the verdict
    of ITS values under ITS category (the real code starts every copy with an empty memo)."""

    fq = AR + ".CreateCopy"
    key = AR + ".CreateCopy#validity-memo"
    props = ("C12",)
    callees = BASE_CALLEES
    probe = "validity"

    def variants(self, tier):
        return [(memo, form) for memo in ("memo-none", "memo-true", "memo-rejected") for form in ("plain", "unit", "unit-category", "values")]

    def setup(self, I, variant):
        memo, form = variant
        db, R = std_db(I)
        P = I.P
        symseq.install(P)
        q = simple_quantity(I, R, db, z3.Const("c", NameS), z3.Const("u", NameS))
        vals = symseq.fresh_seq(P, "list")
        vals.region = "param"
        a = array_obj(I, db, q, vals)
        st = R.snapshot()
        if memo == "memo-true":
            a.o.fields["_is_valid"] = SBool(True)
            P.assume(accept_of(I, R, st, q, vals), "pre:MV the memoised verdict is the verdict of the stored values")
        elif memo == "memo-rejected":
            ecls = I.repo.cls("barril.units.exceptions:QuantityValidationError")
            a.o.fields["_is_valid"] = SBool(False)
            a.o.fields["_validity_exception"] = I.instantiate(ecls, [SStr("stored"), SStr("caption"), SNum(z3.Real("stored_value"), "float"), SStr(">="), SNum(z3.Real("stored_limit"), "float")], {})
            P.assume(z3.Not(accept_of(I, R, st, q, vals)), "pre:MV the memoised verdict is the verdict of the stored values")
        kw = {}
        if form in ("unit", "unit-category"):
            kw["unit"] = nm("unit2")
            R.touch(kw["unit"].name)
        if form == "unit-category":
            kw["category"] = nm("category2")
            R.touch(kw["category"].name)
        if form == "values":
            nv = symseq.fresh_seq(P, "list", base="newvals")
            kw["values"] = nv
        f = harness(lambda I: I.call(I.getattr(a, "CreateCopy"), [], kw))
        return {"f": f, "args": [], "R": R, "st": R.snapshot(), "self": a, "q": q}

    def cases(self, I, ctx):
        R, st = ctx["R"], ctx["st"]

        def chk(I, res):
            if not (isinstance(res, SRef) and isinstance(res.o, HObj) and getattr(res.o.cls, "name", "") == "Array"):
                return F
            f = res.o.fields
            iv, ve, rq, rv = f.get("_is_valid"), f.get("_validity_exception"), f.get("_quantity"), f.get("_value")
            if iv is SNone and ve is SNone:
                return T
            if not (isinstance(rv, symseq.SymSeq) and isinstance(rq, SRef)):
                return F
            acc = accept_of(I, R, st, rq, rv)
            conj = []
            if isinstance(iv, SBool) and iv.concrete() is True:
                conj.append(acc)
            elif iv is not SNone and not (isinstance(iv, SBool) and iv.concrete() is False):
                return F
            if ve is not SNone:
                conj.append(z3.Not(acc))
            return And(conj)

        return [Case("copy-carries-only-its-own-verdict (MV)", T, "if-returns", check=chk, props=("C12",))]

    def allowed_write(self, I, ctx, obj, what):
        if getattr(obj, "region", "") == "quantity" and what[1] in LAZY_SLOTS:
            return True
        return FunctionSpec.allowed_write(self, I, ctx, obj, what)
