"""Contracts for the value classes: Scalar, Array, FixedArray and their shared base."""
import ast
import z3

from pyvc.engine import NameS, FnS, RealS, IntS, app, fixf, lit, PyRaise, OutOfSubset
from pyvc.values import *
from pyvc.interp import to_z3b
from pyvc.contract import FunctionSpec, Case, ret, rai, unspecified, register, REGISTRY, same_value
from pyvc.registry import make_db, RegInfo, RegCat
from pyvc import symseq
from .schema import *
from .unit_database import getinfo_cases, UDB, nm, bound, install_additional_conversions
from .obtain import resolved_unit, obtain_simple_cases, new_simple_quantity

T = z3.BoolVal(True)
F = z3.BoolVal(False)
AVQ = "barril.units._abstractvaluewithquantity:AbstractValueWithQuantityObject"
SC = "barril.units._scalar:Scalar"
AR = "barril.units._array:Array"
FA = "barril.units._fixedarray:FixedArray"

BASE_CALLEES = (
    UDB + ":UnitDatabase.GetInfo",
    UDB + ":UnitDatabase.Convert",
    Q_MOD + ":Quantity.ConvertScalarValue",
    Q_MOD + ":ObtainQuantity",
    Q_MOD + ":Quantity.CreateEmpty",
    UDB + ":FixUnitIfIsLegacy",
)


def std_db(I):
    symseq.install(I.P)
    db, R = make_db(I)
    install_additional_conversions(I)
    from pyvc import loops

    loops.install(I.P)
    return db, R


def mk_q(I, R, db, kind, tag="q"):
    """quantity by kind: simple | derived1 (one entry, exponent ≠ 1) | derived2 | empty"""
    P = I.P
    if kind == "simple":
        return simple_quantity(I, R, db, z3.Const(tag + "_c", NameS), z3.Const(tag + "_u", NameS))
    if kind == "derived1":
        ents = fresh_entries(P, 1, tag)
        q = derived_quantity(I, R, db, ents, tag=tag)
        P.assume(ents[0][2] != 1, "QI:a single entry with exponent 1 is a simple quantity")
        return q
    if kind == "derived2":
        return derived_quantity(I, R, db, fresh_entries(P, 2, tag), tag=tag)
    if kind == "empty":
        from .obtain import empty_quantity

        q = empty_quantity(I, R, db)
        P.ghost["empty_quantity"] = q
        return q
    raise ValueError(kind)


def fresh_scalar_of(I, res, cls="Scalar"):
    return isinstance(res, SRef) and isinstance(res.o, HObj) and getattr(res.o.cls, "name", None) == cls


# ------------------------------------------------------------------------------------------------
@register
class ScalarGetValueSpec(FunctionSpec):
    """Scalar.GetAbstractValue(unit): None ⇒ stored value; own unit ⇒ stored value (simple *and*
    derived); other unit of a simple quantity ⇒ conv(own unit → unit)(stored value)."""

    fq = SC + ".GetAbstractValue"
    props = ("C02",)
    callees = BASE_CALLEES
    probe = "scalar_getvalue"

    def variants(self, tier):
        return [(qk, uk) for qk in ("simple", "derived1", "derived2") for uk in ("none", "unit")]

    def setup(self, I, variant):
        qk, uk = variant
        db, R = std_db(I)
        q = mk_q(I, R, db, qk)
        s = scalar_obj(I, db, q)
        u = SNone if uk == "none" else nm("unit")
        return {"f": I.getattr(s, "GetAbstractValue"), "args": [u], "R": R, "st": R.snapshot(), "self": s, "unit": u, "q": q, "snap": dict(s.o.fields), "qsnap": quantity_snapshot(q)}

    def cases(self, I, ctx):
        s, u, q = ctx["self"], ctx["unit"], ctx["q"]
        R, st = ctx["R"], ctx["st"]
        v = s.o.fields["_value"]
        if u is SNone:
            return [ret("no-unit", T, v)]
        own = q.o.fields["_unit"].name == u.name
        out = [ret("own-unit", own, v, props=("C02",))]
        qi = q.o.qinfo
        if qi["kind"] == "simple":
            tbt = q.o.fields["_tobase"].t
            qt = z3.Select(st["C_qt"], qi["c"])
            for n, g, k, x in getinfo_cases(R, st, qt, u.name, True, True):
                g = z3.And(z3.Not(own), g)
                if k == "raise":
                    out.append(rai("to:" + n, g, x, props=("C05",)))
                else:
                    out.append(ret("to:" + n, g, props=("C02",) if n != "legacy" else ("C16",), check=lambda I, res, x=x: isinstance(res, SNum) and res.real() == app(z3.Select(st["U_fb"], x), app(tbt, v.real()))))
        else:
            out.append(unspecified("derived/other-unit", z3.Not(own)))
        return out

    def extra_obligations(self, I, ctx, outcome):
        return [
            ("frame[receiver unchanged]", ("C13",), value_unchanged(I, ctx["self"], ctx["snap"])),
            ("frame[quantity unchanged]", ("C07", "C13"), quantity_unchanged(I, ctx["q"], ctx["qsnap"])),
            ("frame[registry unchanged]", ("C15",), not ctx["R"].writes),
        ]

    def allowed_write(self, I, ctx, obj, what):
        if obj is ctx["q"].o and what[1] in LAZY_SLOTS:
            return True
        return FunctionSpec.allowed_write(self, I, ctx, obj, what)


def quantity_denotes(I, q, c, u):
    if not (isinstance(q, SRef) and isinstance(q.o, HObj) and getattr(q.o.cls, "name", "") == "Quantity"):
        return False
    f = q.o.fields
    return z3.And(
        to_z3b(I.equal(f["_category"], sname(c))),
        to_z3b(I.equal(f["_unit"], sname(u))),
        to_z3b(I.equal(f["_is_derived"], SBool(False))),
    )


def getvalue_cases(R, st, q, v, u):
    """cases of Scalar.GetAbstractValue(unit=u: Name) on a *simple* quantity:
    [(name, guard, 'value', term) | (name, guard, 'raise', exc)]"""
    own = q.o.fields["_unit"].name == u
    tbt = q.o.fields["_tobase"].t
    qt = z3.Select(st["C_qt"], q.o.qinfo["c"])
    out = [("own-unit", own, "value", v.real())]
    for n, g, k, x in getinfo_cases(R, st, qt, u, True, True):
        g = z3.And(z3.Not(own), g)
        if k == "raise":
            out.append(("to:" + n, g, "raise", x))
        else:
            out.append(("to:" + n, g, "value", app(z3.Select(st["U_fb"], x), app(tbt, v.real()))))
    return out


@register
class CreateCopySpec(FunctionSpec):
    """AbstractValueWithQuantityObject.CreateCopy on a Scalar.
    no arguments: a new object with the same quantity object and value (== the receiver);
    unit only: quantity (receiver's category, unit) and, when no value is given, conv(own → unit)(value);
    unit and category: quantity (category, unit); category without unit: TypeError."""

    fq = AVQ + ".CreateCopy"
    props = ("C02", "C13", "C16")
    callees = BASE_CALLEES
    probe = "scalar_createcopy"

    def variants(self, tier):
        out = []
        for qk in ("simple", "derived1", "empty"):
            for vk in ("noval", "val"):
                for uk in ("nounit", "unit"):
                    for ck in ("nocat", "cat"):
                        if qk != "simple" and (uk, ck) != ("nounit", "nocat"):
                            continue
                        out.append((qk, vk, uk, ck))
        return out

    def setup(self, I, variant):
        qk, vk, uk, ck = variant
        db, R = std_db(I)
        q = mk_q(I, R, db, qk)
        s = scalar_obj(I, db, q)
        val = SNum(z3.Real("new_value"), "float") if vk == "val" else SNone
        u = nm("unit") if uk == "unit" else SNone
        c = nm("category") if ck == "cat" else SNone
        for x in (u, c):
            if x is not SNone:
                R.touch(x.name)
        return {"f": I.getattr(s, "CreateCopy"), "args": [], "kwargs": {"value": val, "unit": u, "category": c}, "R": R, "st": R.snapshot(), "db": db, "self": s, "q": q, "value": val, "unit": u, "category": c, "snap": dict(s.o.fields), "qsnap": quantity_snapshot(q)}

    def cases(self, I, ctx):
        R, st, db = ctx["R"], ctx["st"], ctx["db"]
        s, q, val, u, c = ctx["self"], ctx["q"], ctx["value"], ctx["unit"], ctx["category"]
        v0 = s.o.fields["_value"]

        def result(valterm, qcheck):
            def chk(I, res):
                if not fresh_scalar_of(I, res) or res.o is s.o:
                    return False
                f = res.o.fields
                if not isinstance(f.get("_value"), SNum):
                    return False
                return z3.And(f["_value"].real() == valterm, to_z3b(qcheck(I, f.get("_quantity"))))

            return chk

        if u is SNone and c is SNone:
            vt = v0.real() if val is SNone else val.real()
            return [ret("copy", T, props=("C13", "C02"), check=result(vt, lambda I, q2: isinstance(q2, SRef) and q2.o is q.o))]
        if u is SNone:
            return [rai("category-without-unit", T, "TypeError", props=("C02",))]
        # unit given: value first (may raise), then the quantity
        if val is SNone:
            vcases = getvalue_cases(R, st, q, v0, u.name)
        else:
            vcases = [("given", T, "value", val.real())]
        out = []
        cat = c if c is not SNone else q.o.fields["_category"]
        # an empty category string would take the ObtainQuantity(unit) route; simple quantities have a registered category
        for vn, vg, vk, vx in vcases:
            if vk == "raise":
                out.append(rai("value:" + vn, vg, vx, props=("C05",)))
                continue
            catfalsy = cat.name == lit("")
            if c is SNone:
                out.append(unspecified("value:%s/empty-category-name" % vn, z3.And(vg, catfalsy)))
                vg = z3.And(vg, z3.Not(catfalsy))
            for x in obtain_simple_cases(I, R, st, db, u, cat, SNone, lambda cn, ures: (cn, ures)):
                g = z3.And(vg, x.guard)
                if x.kind == "raise":
                    out.append(rai("value:%s/quantity:%s" % (vn, x.name), g, x.exc, props=("C05",)))
                elif x.kind == "any":
                    out.append(unspecified("value:%s/quantity:%s" % (vn, x.name), g))
                else:
                    cn, ures = x.value(I)
                    pr = ("C02", "C16") if "legacy" in vn else ("C02",)
                    out.append(ret("value:%s/quantity:%s" % (vn, x.name), g, props=pr, check=result(vx, lambda I, q2, cn=cn, ures=ures: quantity_denotes(I, q2, cn, ures))))
        return out

    def extra_obligations(self, I, ctx, outcome):
        R = ctx["R"]
        return [
            ("frame[receiver unchanged]", ("C13",), value_unchanged(I, ctx["self"], ctx["snap"])),
            ("frame[quantity unchanged]", ("C07", "C13"), quantity_unchanged(I, ctx["q"], ctx["qsnap"])),
            ("frame[registry: only memo and intern table]", ("C15", "C13"), all(w[0] in ("M", "K") for w in R.writes)),
        ]

    def allowed_write(self, I, ctx, obj, what):
        if obj is ctx["q"].o and what[1] in LAZY_SLOTS:
            return True
        return FunctionSpec.allowed_write(self, I, ctx, obj, what)


# ------------------------------------------------------------------------------------------------
# comparisons (C08)

CMP = {"lt": ast.Lt(), "le": ast.LtE(), "gt": ast.Gt(), "ge": ast.GtE()}


def harness(fn):
    return SBuiltin("harness", lambda I, a, k: fn(I))


@register
class ScalarOrderSpec(FunctionSpec):
    """a OP b for Scalars (OP ∈ <, <=, >, >=), evaluated with Python's rich-comparison dispatch
    (including whatever functools.total_ordering installs): quantity types differ ⇒ TypeError;
    otherwise the result is  value(a) OP conv(unit(b) → unit(a))(value(b))  — with C01's
    monotonicity lemma: OP on the physical amounts."""

    fq = SC + ".__lt__"
    key = SC + ".__lt__#ordering"
    props = ("C08", "C05")
    callees = BASE_CALLEES
    probe = "scalar_order"

    def variants(self, tier):
        return list(CMP)

    def setup(self, I, variant):
        db, R = std_db(I)
        qa = mk_q(I, R, db, "simple", "a")
        qb = mk_q(I, R, db, "simple", "b")
        a = scalar_obj(I, db, qa, tag="a")
        b = scalar_obj(I, db, qb, tag="b")
        op = CMP[variant]
        f = harness(lambda I: I.compare(op, a, b))
        return {"f": f, "args": [], "R": R, "st": R.snapshot(), "a": a, "b": b, "op": op, "snaps": (dict(a.o.fields), dict(b.o.fields))}

    def cases(self, I, ctx):
        R, st, a, b, op = ctx["R"], ctx["st"], ctx["a"], ctx["b"], ctx["op"]
        qa, qb = a.o.fields["_quantity"], b.o.fields["_quantity"]
        ta, tb_ = qa.o.fields["_quantity_type"].name, qb.o.fields["_quantity_type"].name
        va, vb = a.o.fields["_value"], b.o.fields["_value"]
        out = [rai("different-quantity-types", ta != tb_, "TypeError", props=("C05", "C08"))]
        same = ta == tb_
        for n, g, k, x in getvalue_cases(R, st, qb, vb, qa.o.fields["_unit"].name):
            g = z3.And(same, g)
            if k == "raise":
                out.append(unspecified("other-value:" + n, g))  # cannot happen for registered units of one type
                continue
            exp = to_z3b(I.num_cmp(op, va, SNum(x, "float")))
            out.append(ret("compare/" + n, g, props=("C08",), check=lambda I, res, exp=exp: isinstance(res, SBool) and res.t == exp))
        return out

    def extra_obligations(self, I, ctx, outcome):
        a, b = ctx["a"], ctx["b"]
        return [("frame[operands unchanged]", ("C13",), z3.And(to_z3b(value_unchanged(I, a, ctx["snaps"][0])), to_z3b(value_unchanged(I, b, ctx["snaps"][1]))))]

    def allowed_write(self, I, ctx, obj, what):
        if getattr(obj, "region", "") == "quantity" and what[1] in LAZY_SLOTS:
            return True
        return FunctionSpec.allowed_write(self, I, ctx, obj, what)
