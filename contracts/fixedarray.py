"""FixedArray size invariant (C11) and operand immutability (C13): every way of obtaining a FixedArray
yields len(values) == dimension >= 2 or raises ValueError with the source untouched; ChangingIndex
returns a new array differing only at the index; IndexAsScalar is the i-th amount in the requested unit."""
import ast
import z3

from pyvc.engine import NameS, FnS, RealS, IntS, BoolS, app, lit, PyRaise, OutOfSubset
from pyvc.values import *
from pyvc.interp import to_z3b
from pyvc.contract import FunctionSpec, Case, ret, rai, unspecified, register, REGISTRY, same_value
from pyvc import symseq
from .schema import *
from .unit_database import UDB, nm, getinfo_cases, conv_term
from .values import std_db, mk_q, harness, BASE_CALLEES, AVQ, SC, AR, FA, getvalue_cases
from .arith import And, Or, T, F, S, entries, caption_of, quantity_is

CONT = {"list": "list", "tuple": "tuple", "ndarray": "numpy.ndarray"}


def is_fa(res):
    return isinstance(res, SRef) and isinstance(res.o, HObj) and getattr(res.o.cls, "name", "") == "FixedArray"


def length_of(I, vals):
    if isinstance(vals, symseq.SymSeq):
        return vals.n
    if isinstance(vals, STuple):
        return z3.IntVal(len(vals.items))
    if isinstance(vals, SRef) and isinstance(vals.o, HList):
        return z3.IntVal(len(vals.o.items))
    return None


def elem_of(vals, j):
    """element j (z3 Int term or python int) as a real term"""
    if isinstance(vals, symseq.SymSeq):
        return S(vals.elems, j)
    items = vals.items if isinstance(vals, STuple) else vals.o.items
    t = None
    for k, x in enumerate(items):
        if not isinstance(x, SNum):
            return None
        t = x.real() if t is None else z3.If(j == k, x.real(), t)
    return t


def FI(I, res):
    """len(values) == dimension >= 2"""
    if not is_fa(res):
        return F
    f = res.o.fields
    d, vals = f.get("_dimension"), f.get("_value")
    n = length_of(I, vals) if vals is not None else None
    if not isinstance(d, SNum) or n is None:
        return F
    return z3.And(d.t == n, d.t >= 2)


def fixed_array(I, db, q, kind, tag="fa"):
    P = I.P
    vals = symseq.fresh_seq(P, CONT[kind], base=tag + "_vals")
    d = z3.Int(tag + "_dim")
    P.assume(z3.And(d >= 2, vals.n == d), "FI:len(values) == dimension >= 2")
    return array_obj(I, db, q, vals, tag=tag, cls="FixedArray", dimension=SNum(d, "int"))


@register
class FixedArrayCreateSpec(FunctionSpec):
    """constructors: FixedArray(dim, values, unit[, category]), CreateWithQuantity(q, values[, dimension]),
    CreateEmptyArray(dim[, values])"""

    fq = FA + "._InternalCreateWithQuantity"
    key = FA + "._InternalCreateWithQuantity#constructors"
    props = ("C11",)
    callees = BASE_CALLEES
    probe = "fixedarray"

    def variants(self, tier):
        out = []
        for k in ("list", "tuple", "ndarray"):
            out += [("init", k), ("cwq-dim", k), ("cwq-nodim", k), ("empty-values", k)]
        out.append(("empty-novalues", "list"))
        return out

    def setup(self, I, variant):
        what, kind = variant
        db, R = std_db(I)
        P = I.P
        K = SClass(vclass(I, "FixedArray"))
        vals = symseq.fresh_seq(P, CONT[kind], base="values")
        dim = SNum(z3.Int("dimension"), "int")
        q = simple_quantity(I, R, db, z3.Const("c", NameS), z3.Const("u", NameS))
        if what == "init":
            f = harness(lambda I: I.call(K, [dim, q, vals]))
        elif what == "cwq-dim":
            f = harness(lambda I: I.call(I.getattr(K, "CreateWithQuantity"), [q, vals], {"dimension": dim}))
        elif what == "cwq-nodim":
            f = harness(lambda I: I.call(I.getattr(K, "CreateWithQuantity"), [q, vals]))
        elif what == "empty-values":
            f = harness(lambda I: I.call(I.getattr(K, "CreateEmptyArray"), [dim, vals]))
        else:
            f = harness(lambda I: I.call(I.getattr(K, "CreateEmptyArray"), [dim]))
        return {"f": f, "args": [], "R": R, "what": what, "vals": vals, "dim": dim, "q": q}

    def cases(self, I, ctx):
        what, vals, dim = ctx["what"], ctx["vals"], ctx["dim"]
        n = vals.n
        d = n if what == "cwq-nodim" else dim.t
        if what == "empty-novalues":
            n = d

        def chk(I, res):
            if not is_fa(res):
                return F
            f = res.o.fields
            ok = [FI(I, res), f["_dimension"].t == d]
            v = f["_value"]
            if what == "empty-novalues":
                ok.append(length_of(I, v) == d)
                j = z3.Int("j!fa")
                e = elem_of(v, j)
                ok.append(z3.ForAll([j], z3.Implies(z3.And(j >= 0, j < d), e == 0)) if e is not None else F)
            else:
                ok.append(z3.BoolVal(isinstance(v, symseq.SymSeq) and v.token == vals.token))
            return And(ok)

        return [
            rai("dimension-below-2", d < 2, "ValueError"),
            rai("length-mismatch", z3.And(d >= 2, n != d), "ValueError"),
            ret("fixed-array", z3.And(d >= 2, n == d), check=chk),
        ]


@register
class FixedArrayOpsSpec(FunctionSpec):
    """operations on an existing FixedArray fa (FI assumed): CreateCopy, __reduce__, ChangingIndex,
    IndexAsScalar, arithmetic with a number"""

    fq = FA + ".ChangingIndex"
    key = FA + "#operations"
    props = ("C11", "C13", "C02")
    callees = BASE_CALLEES
    probe = "fixedarray"

    def variants(self, tier):
        out = []
        for k in ("list", "tuple", "ndarray"):
            out += [("copy", k), ("copy-values", k), ("copy-unit", k), ("reduce", k), ("index-as-scalar", k), ("index-as-scalar-q", k), ("changing-index-float", k), ("changing-index-scalar", k), ("changing-index-scalar-keep-unit", k), ("times-number", k)]
        return out

    def setup(self, I, variant):
        what, kind = variant
        db, R = std_db(I)
        P = I.P
        q = simple_quantity(I, R, db, z3.Const("c", NameS), z3.Const("u", NameS))
        fa = fixed_array(I, db, q, kind)
        ctx = {"R": R, "st": R.snapshot(), "db": db, "what": what, "fa": fa, "q": q, "kind": kind, "snap": dict(fa.o.fields), "qsnap": quantity_snapshot(q), "elems0": fa.o.fields["_value"].elems, "n0": fa.o.fields["_value"].n}
        g = lambda name: I.getattr(fa, name)
        idx = SNum(z3.Int("index"), "int")
        ctx["index"] = idx
        if what == "copy":
            ctx["f"] = harness(lambda I: I.call(g("CreateCopy"), []))
        elif what == "copy-values":
            nv = symseq.fresh_seq(P, CONT[kind], base="new_vals")
            ctx["new_vals"] = nv
            ctx["f"] = harness(lambda I: I.call(g("CreateCopy"), [], {"values": nv}))
        elif what == "copy-unit":
            u2 = nm("unit2")
            R.touch(u2.name)
            ctx["unit2"] = u2
            ctx["f"] = harness(lambda I: I.call(g("CreateCopy"), [], {"unit": u2}))
        elif what == "reduce":
            def run(I):
                red = I.call(g("__reduce__"), [])
                f, args = red.items
                r = I.call(f, list(args.items))
                return STuple([r, SBool(to_z3b(I.equal(fa, r)))])

            ctx["f"] = harness(run)
        elif what == "index-as-scalar":
            ctx["f"] = harness(lambda I: I.call(g("IndexAsScalar"), [idx]))
        elif what == "index-as-scalar-q":
            q2 = simple_quantity(I, R, db, z3.Const("c2", NameS), z3.Const("u2", NameS), tag="q2")
            ctx["q2"] = q2
            ctx["f"] = harness(lambda I: I.call(g("IndexAsScalar"), [idx, q2]))
        elif what == "changing-index-float":
            x = SNum(z3.Real("new_amount"), "float")
            ctx["x"] = x
            ctx["f"] = harness(lambda I: I.call(g("ChangingIndex"), [idx, x]))
        elif what in ("changing-index-scalar", "changing-index-scalar-keep-unit"):
            q2 = simple_quantity(I, R, db, z3.Const("c2", NameS), z3.Const("u2", NameS), tag="q2")
            sc = scalar_obj(I, db, q2, tag="amount")
            ctx["q2"], ctx["sc"] = q2, sc
            keep = what.endswith("keep-unit")
            ctx["f"] = harness(lambda I: I.call(g("ChangingIndex"), [idx, sc], {"use_value_unit": SBool(not keep)}))
        else:
            k = SNum(z3.Real("k"), "float")
            ctx["k"] = k
            ctx["f"] = harness(lambda I: I.binop(ast.Mult(), fa, k))
        ctx["args"] = []
        return ctx

    def cases(self, I, ctx):
        what, fa, q, R, st = ctx["what"], ctx["fa"], ctx["q"], ctx["R"], ctx["st"]
        d = ctx["snap"]["_dimension"].t
        vals0 = ctx["snap"]["_value"]
        e0, n0 = ctx["elems0"], ctx["n0"]
        j = z3.Int("j!fa")
        inr = z3.And(j >= 0, j < d)
        idx = ctx["index"].t
        norm = z3.If(idx < 0, idx + d, idx)
        in_range = z3.And(idx >= -d, idx < d)

        def new_fa(I, res, elem_fn, qcheck, kind=None):
            if not is_fa(res) or res.o is fa.o:
                return F
            f = res.o.fields
            v = f["_value"]
            if isinstance(v, symseq.SymSeq) and v.token == vals0.token and what not in ("copy", "reduce", "copy-unit"):
                return F  # a new container (pickle copies the reduce arguments: A8)
            e = elem_of(v, j) if not isinstance(v, symseq.SymSeq) else S(v.elems, j)
            if e is None:
                return F
            # j is a free constant: proving the implication for it proves it for every index
            conj = [FI(I, res), f["_dimension"].t == d, to_z3b(qcheck(I, f["_quantity"])), z3.Implies(inr, e == elem_fn(j))]
            if kind is not None:
                conj.append(z3.BoolVal(v.pytype() == kind if hasattr(v, "pytype") else False))
            return And(conj)

        same_q = lambda I, q2: z3.BoolVal(isinstance(q2, SRef) and q2.o is q.o)
        if what == "copy":
            return [ret("equal-copy", T, check=lambda I, res: new_fa(I, res, lambda t: S(e0, t), same_q))]
        if what == "copy-values":
            nv = ctx["new_vals"]
            return [
                rai("length-mismatch", nv.n != d, "ValueError"),
                ret("copy-with-values", nv.n == d, check=lambda I, res: new_fa(I, res, lambda t: S(nv.elems, t), same_q)),
            ]
        if what == "copy-unit":
            from .obtain import obtain_simple_cases

            u2 = ctx["unit2"]
            out = []
            cat = q.o.fields["_category"]
            catfalsy = cat.name == lit("")
            for vn, vg, vk, vx in getvalue_cases_fa(R, st, q, u2.name):
                if vk == "raise":
                    out.append(rai("value:" + vn, vg, vx, props=("C05",)))
                    continue
                # an empty category name takes the category-less route: outside the contract
                out.append(unspecified("value:%s/empty-category-name" % vn, z3.And(vg, catfalsy)))
                vg = z3.And(vg, z3.Not(catfalsy))
                for x in obtain_simple_cases(I, R, st, ctx["db"], u2, cat, SNone, lambda cn, ures: (cn, ures)):
                    gg = z3.And(vg, x.guard)
                    if x.kind == "raise":
                        out.append(rai("value:%s/quantity:%s" % (vn, x.name), gg, x.exc, props=("C05",)))
                    elif x.kind == "any":
                        out.append(unspecified("value:%s/quantity:%s" % (vn, x.name), gg))
                    else:
                        cn, ures = x.value(I)

                        def qc(I, q2, cn=cn, ures=ures):
                            return quantity_is(I, q2, [(cn, ures, z3.IntVal(1))], SStr("")) if isinstance(q2, SRef) else F

                        out.append(ret("value:%s/quantity:%s" % (vn, x.name), gg, props=("C02", "C11"), check=lambda I, res, vx=vx, qc=qc: new_fa(I, res, lambda t: vx(S(e0, t)), qc)))
            return out
        if what == "reduce":
            def chk(I, res):
                r, eq = res.items
                return z3.And(new_fa(I, r, lambda t: S(e0, t), same_q), to_z3b(eq.t))

            return [ret("rebuilt-equal", T, check=chk)]
        if what in ("index-as-scalar", "index-as-scalar-q"):
            q2 = ctx.get("q2", q)
            out = []
            target = q2.o.fields["_unit"].name
            for n_, g_, k_, x_ in getvalue_cases_fa(R, st, q, target):
                if k_ == "raise":
                    out.append(rai("unit:" + n_, g_, x_, props=("C05",)))
                    continue
                out.append(rai("index-out-of-range:" + n_, z3.And(g_, z3.Not(in_range)), "IndexError"))

                def chk(I, res, x_=x_):
                    if not (isinstance(res, SRef) and isinstance(res.o, HObj) and res.o.cls.name == "Scalar"):
                        return F
                    f = res.o.fields
                    return z3.And(z3.BoolVal(f["_quantity"].o is q2.o), f["_value"].real() == x_(S(e0, norm)))

                out.append(ret("amount:" + n_, z3.And(g_, in_range), props=("C11", "C02"), check=chk))
            return out
        if what.startswith("changing-index"):
            if what == "changing-index-float":
                # a plain number is an amount in the array's own unit: same quantity, one element replaced
                def chk(I, res):
                    return new_fa(I, res, lambda t: z3.If(t == norm, ctx["x"].real(), S(e0, t)), same_q, kind="tuple")

                return [
                    rai("index-out-of-range", z3.Not(in_range), "IndexError"),
                    ret("changed-at-index", in_range, props=("C11", "C13", "C02"), check=chk),
                ]
            sc, q2 = ctx["sc"], ctx["q2"]
            keep = what.endswith("keep-unit")
            tq = q if keep else q2
            target = tq.o.fields["_unit"].name
            qc = lambda I, x: z3.BoolVal(isinstance(x, SRef) and x.o is tq.o)
            sv = sc.o.fields["_value"].real()
            out = []
            # the array is re-expressed in the target unit first, then the amount; the index is used last
            from .values import getvalue_cases

            for n1, g1, k1, x1 in getvalue_cases_fa(R, st, q, target):
                if k1 == "raise":
                    out.append(rai("array-units:" + n1, g1, x1, props=("C05",)))
                    continue
                for n2, g2, k2, x2 in getvalue_cases(R, st, q2, sc.o.fields["_value"], target):
                    gg = z3.And(g1, g2)
                    if k2 == "raise":
                        out.append(rai("units:%s/amount:%s" % (n1, n2), gg, x2, props=("C05",)))
                        continue
                    out.append(rai("index-out-of-range:%s/%s" % (n1, n2), z3.And(gg, z3.Not(in_range)), "IndexError"))

                    def chk(I, res, x1=x1, x2=x2):
                        return new_fa(I, res, lambda t: z3.If(t == norm, x2, x1(S(e0, t))), qc, kind="tuple")

                    out.append(ret("changed-at-index:%s/%s" % (n1, n2), z3.And(gg, in_range), props=("C11", "C13", "C02"), check=chk))
            return out
        if what == "times-number":
            k = ctx["k"].real()
            kind = ctx["kind"]
            qc = lambda I, q2: quantity_is(I, q2, [(q.o.qinfo["c"], q.o.qinfo["u"], z3.IntVal(1))], SStr("")) if isinstance(q2, SRef) else F
            return [ret("elementwise-fixed-array", T, props=("C11",), check=lambda I, res: new_fa(I, res, lambda t: S(e0, t) * k, qc))]
        return [unspecified("any", T)]

    def extra_obligations(self, I, ctx, outcome):
        fa = ctx["fa"]
        v = fa.o.fields.get("_value")
        same_vals = z3.And(v.n == ctx["n0"], v.elems == ctx["elems0"]) if isinstance(v, symseq.SymSeq) and v.token == ctx["snap"]["_value"].token else F
        return [
            ("frame[the source array is unchanged (fields, dimension, container contents)]", ("C13", "C11"), z3.And(to_z3b(value_unchanged(I, fa, ctx["snap"])), same_vals)),
            ("frame[quantity unchanged]", ("C07", "C13"), quantity_unchanged(I, ctx["q"], ctx["qsnap"])),
            ("frame[registry: only memo and intern table]", ("C15",), all(w[0] in ("M", "K") for w in ctx["R"].writes)),
        ]

    def allowed_write(self, I, ctx, obj, what):
        if getattr(obj, "region", "") == "quantity" and what[1] in LAZY_SLOTS:
            return True
        if isinstance(obj, HObj) and what[1] in ("_is_valid", "_validity_exception"):
            return True
        return FunctionSpec.allowed_write(self, I, ctx, obj, what)


def getvalue_cases_fa(R, st, q, target):
    """Array.GetValues(unit=target) on a simple quantity q: [(name, guard, kind, elementwise function | exc)]"""
    own = q.o.fields["_unit"].name == target
    tbt = q.o.fields["_tobase"].t
    qt = S(st["C_qt"], q.o.qinfo["c"])
    out = [("own-unit", own, "value", lambda t: t)]
    # Array.GetAbstractValue goes through Quantity.Convert -> UnitDatabase.Convert(categories, units, to_unit, values)
    from .unit_database import getinfo_cases as gic

    c = q.o.qinfo["c"]
    u = q.o.qinfo["u"]
    isq = S(st["C_dom"], c)
    qtc = z3.If(isq, S(st["C_qt"], c), c)
    for n1, g1, k1, x1 in gic(R, st, qtc, u, True, True):
        for n2, g2, k2, x2 in gic(R, st, qtc, target, True, True):
            g = z3.And(z3.Not(own), g1, g2)
            if k1 == "raise":
                out.append(("from:%s" % n1, z3.And(z3.Not(own), g1), "raise", x1))
                break
            if k2 == "raise":
                out.append(("from:%s/to:%s" % (n1, n2), g, "raise", x2))
            else:
                out.append(("from:%s/to:%s" % (n1, n2), g, "value", (lambda t, x1=x1, x2=x2: conv_term(st, x1, x2, t))))
    return out


# ------------------------------------------------------------------------------------------------
CURVE = "barril.curve.curve:Curve"


def curve_lengths(I, cv):
    f = cv.o.fields
    im, dm = f.get("_image"), f.get("_domain")
    if im is None or dm is None:
        return None, None
    return length_of(I, im.o.fields["_value"]), length_of(I, dm.o.fields["_value"])


@register
class CurveSpec(FunctionSpec):
    """Curve: the image and the domain always have the same length (CI): the constructor and every
    SetImage / SetDomain either keep CI or raise ValueError leaving the curve untouched."""

    fq = CURVE + "._CheckImageAndDomainLength"
    key = CURVE + "#length-invariant"
    props = ("C11",)
    probe = "curve"

    def variants(self, tier):
        return ["init", "set-image", "set-domain", "set-image-property", "set-both"]

    def setup(self, I, variant):
        db, R = std_db(I)
        P = I.P
        P.ghost["assert_implements"] = lambda I, a: SNone
        q1 = simple_quantity(I, R, db, z3.Const("c1", NameS), z3.Const("u1", NameS), tag="q1")
        q2 = simple_quantity(I, R, db, z3.Const("c2", NameS), z3.Const("u2", NameS), tag="q2")

        def arr(tag, q):
            return array_obj(I, db, q, symseq.fresh_seq(P, "list", base=tag), tag=tag)

        K = SClass(I.repo.cls(CURVE))
        ctx = {"R": R, "what": variant, "args": []}
        if variant == "init":
            im, dm = arr("image", q1), arr("domain", q2)
            ctx.update({"im": im, "dm": dm})
            ctx["f"] = harness(lambda I: I.call(K, [im, dm]))
            return ctx
        im, dm = arr("image", q1), arr("domain", q2)
        P.assume(im.o.fields["_value"].n == dm.o.fields["_value"].n, "CI:len(image) == len(domain)")
        cv = SRef(P.alloc(HObj(I.repo.cls(CURVE), region="param")))
        cv.o.fields["_image"] = im
        cv.o.fields["_domain"] = dm
        new1, new2 = arr("new1", q1), arr("new2", q2)
        ctx.update({"cv": cv, "im": im, "dm": dm, "new1": new1, "new2": new2, "snap": dict(cv.o.fields)})
        if variant == "set-image":
            ctx["f"] = harness(lambda I: I.call(I.getattr(cv, "SetImage"), [new1]))
        elif variant == "set-domain":
            ctx["f"] = harness(lambda I: I.call(I.getattr(cv, "SetDomain"), [new2]))
        elif variant == "set-image-property":
            ctx["f"] = harness(lambda I: I.setattr(cv, "image", new1) or SNone)
        else:
            def run(I):
                # an accepted change followed by another (possibly rejected) one
                try:
                    I.call(I.getattr(cv, "SetImage"), [new1])
                except PyRaise:
                    pass
                I.call(I.getattr(cv, "SetDomain"), [new2])
                return SNone

            ctx["f"] = harness(run)
        return ctx

    def cases(self, I, ctx):
        what = ctx["what"]
        n = lambda a: a.o.fields["_value"].n
        if what == "init":
            im, dm = ctx["im"], ctx["dm"]

            def chk(I, res):
                a, b = curve_lengths(I, res)
                return z3.And(a == b, z3.BoolVal(res.o.fields["_image"].o is im.o and res.o.fields["_domain"].o is dm.o)) if a is not None else F

            return [rai("different-lengths", n(im) != n(dm), "ValueError"), ret("curve", n(im) == n(dm), check=chk)]
        cv, im, dm, new1, new2 = ctx["cv"], ctx["im"], ctx["dm"], ctx["new1"], ctx["new2"]
        if what in ("set-image", "set-image-property"):
            return [rai("different-lengths", n(new1) != n(dm), "ValueError"), ret("image-replaced", n(new1) == n(dm), check=lambda I, res: z3.BoolVal(cv.o.fields["_image"].o is new1.o and cv.o.fields["_domain"].o is dm.o))]
        if what == "set-domain":
            return [rai("different-lengths", n(new2) != n(im), "ValueError"), ret("domain-replaced", n(new2) == n(im), check=lambda I, res: z3.BoolVal(cv.o.fields["_domain"].o is new2.o and cv.o.fields["_image"].o is im.o))]
        return [unspecified("sequence", T)]

    def extra_obligations(self, I, ctx, outcome):
        if ctx["what"] == "init":
            return []
        cv = ctx["cv"]
        a, b = curve_lengths(I, cv)
        obs = [("inv[CI: len(image) == len(domain) after the call, accepted or rejected]", ("C11",), a == b)]
        if outcome[0] == "raise" and ctx["what"] != "set-both":
            same = all(cv.o.fields.get(k) is v or (isinstance(v, SRef) and isinstance(cv.o.fields.get(k), SRef) and cv.o.fields[k].o is v.o) for k, v in ctx["snap"].items())
            obs.append(("unchanged_on_raise[curve]", ("C11",), same))
        return obs

    def allowed_write(self, I, ctx, obj, what):
        if "cv" in ctx and obj is ctx["cv"].o:
            return True
        return FunctionSpec.allowed_write(self, I, ctx, obj, what)
