"""The unit-system manager (C17): a registry of unit systems with exactly one current system.
Manager invariant MI: every registered system is stored under its own id; the current system is
None or a registered system; the manager's listener (_CategoryUnitChange) is registered on the
current system's on_default_unit callback and on no other system's.  Callbacks follow the assumed
oop_ext contract (pyvc/callbacks.py); every notification is recorded in a ghost log."""
import ast
import z3

from pyvc.engine import NameS, FnS, RealS, IntS, BoolS, app, lit, PyRaise, OutOfSubset
from pyvc.values import *
from pyvc.interp import to_z3b
from pyvc.contract import FunctionSpec, Case, ret, rai, unspecified, register, REGISTRY, same_value
from pyvc import callbacks
from .schema import *
from .unit_database import UDB, nm, conv_term
from .values import std_db, harness, BASE_CALLEES, SC
from .arith import And, Or, T, F, S

USM = "barril.units.unit_system_manager:UnitSystemManager"
US = "barril.units.unit_system:UnitSystem"


def mapping(I, pairs, region="param"):
    return SRef(I.P.alloc(HDict([(sname(c), sname(u)) for c, u in pairs], region=region)))


_CUR = [None]  # the interpreter of the path being explored (set by build_manager)


def _odu(I, system):
    """the system's on_default_unit callback, wherever the code keeps it (instance field in the real code; read
    through attribute lookup so that a class-level, shared callback object is seen as such)"""
    f = system.o.fields.get("on_default_unit")
    return f if f is not None else (I or _CUR[0]).getattr(system, "on_default_unit")


def build_manager(I, k, current, template_cats=None):
    """a manager satisfying MI with k registered systems (ids, mappings symbolic)"""
    P = I.P
    _CUR[0] = I
    callbacks.install(I)
    mcls = I.repo.cls(USM)
    mgr = SRef(P.alloc(HObj(mcls, region="manager")))
    mgr.o.really_constructed = True  # built by the real __init__ below
    I.call_function(SFunc(mcls.find_method("__init__")), [mgr], {})
    ucls = SClass(I.repo.cls(US))
    systems = []
    ids = [z3.Const("id%d" % i, NameS) for i in range(k)]
    if k > 1:
        P.assume(z3.Distinct(*ids), "MI:ids are unique (dict keys)")
    for i in range(k):
        cat, unit = z3.Const("sys%d_cat" % i, NameS), z3.Const("sys%d_unit" % i, NameS)
        P.assume(cat != lit(""), "pre:non-empty category names in mappings")
        m = mapping(I, [(cat, unit)], region="system-mapping")
        s = I.call(ucls, [sname(ids[i]), sname(z3.Const("caption%d" % i, NameS)), m, SBool(False)])
        s.o.region = "system"
        s.o.info = {"id": ids[i], "cat": cat, "unit": unit, "map": m}
        systems.append(s)
        mgr.o.fields["_unit_systems"].o.entries.append((sname(ids[i]), s))
    if current is not None:
        cur = systems[current]
        mgr.o.fields["_current"] = cur
        _odu(I, cur).listeners.append(I.getattr(mgr, "_CategoryUnitChange"))
    if template_cats is not None:
        t = I.call(ucls, [SStr("template"), SStr("Unit system template"), mapping(I, [(c, z3.Const("tmpl_unit", NameS)) for c in template_cats], region="template-mapping"), SBool(True)])
        mgr.o.fields["_unit_system_template"] = t
    P.ghost["cb_log"] = []
    return mgr, systems


def registered(mgr):
    return [(k, v) for k, v in mgr.o.fields["_unit_systems"].o.entries]


def listener_on(mgr, s):
    return any(isinstance(l, SBound) and isinstance(l.self_, SRef) and l.self_.o is mgr.o for l in _odu(None, s).listeners)


def MI(I, mgr, known_systems):
    """manager invariant after the call (python bool / z3 Bool)"""
    ents = registered(mgr)
    conj = []
    for i, (k, v) in enumerate(ents):
        if not (isinstance(v, SRef) and isinstance(v.o, HObj)):
            return F
        conj.append(to_z3b(I.equal(v.o.fields["_id"], k)))
        for k2, _ in ents[i + 1 :]:
            conj.append(z3.Not(to_z3b(I.equal(k, k2))))
    cur = mgr.o.fields["_current"]
    regobjs = [v.o for _, v in ents]
    if cur is not SNone:
        if not (isinstance(cur, SRef) and any(cur.o is o for o in regobjs)):
            return F
    for s in set([v for _, v in ents] + list(known_systems), key=None) if False else list({id(x.o): x for x in [v for _, v in ents] + list(known_systems)}.values()):
        want = cur is not SNone and s.o is cur.o
        n = sum(1 for l in _odu(I, s).listeners if isinstance(l, SBound) and isinstance(l.self_, SRef) and l.self_.o is mgr.o)
        if n != (1 if want else 0):
            return F
    return And(conj)


def log_of(I, mgr):
    """[(which, args)] with which in 'on_current' | 'on_unit_changed' | other"""
    out = []
    f = mgr.o.fields
    for cb, args in I.P.ghost.get("cb_log", []):
        if cb is f["on_current"]:
            out.append(("on_current", args))
        elif cb is f["on_unit_changed"]:
            out.append(("on_unit_changed", args))
    return out


def snapshot(mgr, systems):
    return {
        "entries": list(registered(mgr)),
        "current": mgr.o.fields["_current"],
        "template": mgr.o.fields["_unit_system_template"],
        "maps": [(s, list(s.o.fields["_units_mapping"].o.entries), s.o.fields["_units_mapping"].o) for s in systems],
        "listeners": [(s, list(_odu(None, s).listeners)) for s in systems],
    }


def unchanged(I, mgr, snap):
    f = mgr.o.fields
    if len(registered(mgr)) != len(snap["entries"]) or any(a[1].o is not b[1].o for a, b in zip(registered(mgr), snap["entries"])):
        return F
    if not (f["_current"] is snap["current"] or (isinstance(f["_current"], SRef) and isinstance(snap["current"], SRef) and f["_current"].o is snap["current"].o)):
        return F
    t0, t1 = snap["template"], f["_unit_system_template"]
    if not (t0 is t1 or (isinstance(t0, SRef) and isinstance(t1, SRef) and t0.o is t1.o)):
        return F
    conj = []
    for s, ents, mo in snap["maps"]:
        m = s.o.fields["_units_mapping"].o
        if m is not mo or len(m.entries) != len(ents):
            return F
        for (k, v), (k0, v0) in zip(m.entries, ents):
            conj += [to_z3b(I.equal(k, k0)), to_z3b(I.equal(v, v0))]
    for s, ls in snap["listeners"]:
        if len(_odu(I, s).listeners) != len(ls):
            return F
    return And(conj)


SHAPES = [(0, None), (1, 0), (2, 0), (2, 1), (1, None), (2, None)]


@register
class ManagerSpec(FunctionSpec):
    fq = USM + ".AddUnitSystem"
    key = USM + "#operations"
    props = ("C17",)
    callees = BASE_CALLEES + (UDB + ":UnitDatabase.GetDefaultCategory",)
    probe = "unit_system_manager"

    def variants(self, tier):
        out = []
        for k, cur in SHAPES:
            for tmpl in ("notemplate", "template"):
                for mp in ("mapping", "nomapping"):
                    out.append(("add", k, cur, tmpl, mp))
            if k:
                for which in range(k):
                    out.append(("remove", k, cur, which, "-"))
                    out.append(("set-current", k, cur, which, "-"))
                    out.append(("set-default-unit", k, cur, which, "-"))
                    out.append(("remove-category", k, cur, which, "-"))
            out.append(("remove-unknown", k, cur, "-", "-"))
            out.append(("set-current-none", k, cur, "-", "-"))
            out.append(("set-template", k, cur, "-", "-"))
            out.append(("convert-to-current", k, cur, "-", "-"))
            out.append(("convert-scalar-to-current", k, cur, "-", "-"))
            out.append(("new-id", k, cur, "-", "-"))
        return out

    def setup(self, I, variant):
        op, k, cur, a, b = variant
        db, R = std_db(I)
        P = I.P
        tmpl_cat = z3.Const("tmpl_cat", NameS)
        mgr, systems = build_manager(I, k, cur, [tmpl_cat] if a == "template" else None)
        ctx = {"R": R, "st": R.snapshot(), "db": db, "mgr": mgr, "systems": systems, "op": op, "variant": variant, "tmpl_cat": tmpl_cat, "args": []}
        g = lambda name: I.getattr(mgr, name)
        if op == "add":
            nid, cap = nm("new_id"), nm("new_caption")
            kw = {}
            if b == "mapping":
                c, u = z3.Const("new_cat", NameS), z3.Const("new_unit", NameS)
                P.assume(c != lit(""), "pre:non-empty category names in mappings")
                kw["units_mapping"] = mapping(I, [(c, u)])
                ctx["new_map"] = kw["units_mapping"]
                ctx["new_pair"] = (c, u)
            ctx["new_id"] = nid
            ctx["f"] = harness(lambda I: I.call(g("AddUnitSystem"), [nid, cap], kw))
        elif op == "remove":
            ctx["f"] = harness(lambda I: I.call(g("RemoveUnitSystem"), [sname(systems[a].o.info["id"])]))
        elif op == "remove-unknown":
            x = nm("unknown_id")
            for s in systems:
                P.assume(x.name != s.o.info["id"], "pre:an id that is not registered")
            ctx["f"] = harness(lambda I: I.call(g("RemoveUnitSystem"), [x]))
        elif op == "set-current":
            ctx["f"] = harness(lambda I: I.setattr(mgr, "current", systems[a]) or SNone)
        elif op == "set-current-none":
            ctx["f"] = harness(lambda I: I.call(g("SetCurrent"), [SNone]))
        elif op == "set-default-unit":
            c, u = nm("category"), nm("unit")
            ctx["cat"], ctx["unit"] = c, u
            ctx["f"] = harness(lambda I: I.call(I.getattr(systems[a], "SetDefaultUnit"), [c, u]))
        elif op == "remove-category":
            c = nm("category")
            ctx["cat"] = c
            ctx["f"] = harness(lambda I: I.call(I.getattr(systems[a], "RemoveCategory"), [c]))
        elif op == "set-template":
            c = z3.Const("tc", NameS)
            ctx["tc"] = c
            ctx["f"] = harness(lambda I: I.call(g("SetTemplateUnitSystemByUnitsMapping"), [mapping(I, [(c, z3.Const("tu", NameS))])]))
        elif op == "convert-to-current":
            c, u = nm("category"), nm("unit")
            v = SNum(z3.Real("value"), "float")
            R.touch(c.name, u.name)
            ctx["cat"], ctx["unit"], ctx["value"] = c, u, v
            ctx["f"] = harness(lambda I: I.call(g("ConvertToCurrent"), [c, u, v]))
        elif op == "convert-scalar-to-current":
            q = simple_quantity(I, R, db, z3.Const("c", NameS), z3.Const("u", NameS))
            sc = scalar_obj(I, db, q)
            ctx["q"], ctx["sc"] = q, sc
            ctx["cat"], ctx["unit"], ctx["value"] = q.o.fields["_category"], q.o.fields["_unit"], sc.o.fields["_value"]
            ctx["f"] = harness(lambda I: I.call(g("ConvertScalarToCurrent"), [sc]))
        elif op == "new-id":
            ctx["f"] = harness(lambda I: I.call(g("GetNewId"), []))
        ctx["snap"] = snapshot(mgr, systems)
        return ctx

    # -- expected behaviour ----------------------------------------------------------------------
    def cases(self, I, ctx):
        op, k, cur, a, b = ctx["variant"]
        mgr, systems = ctx["mgr"], ctx["systems"]
        ids = [s.o.info["id"] for s in systems]
        f = mgr.o.fields
        null = None
        for kk, vv in f.items():
            if kk.endswith("__null_unit_system"):
                null = vv

        def cur_is(I, s):
            c = mgr.o.fields["_current"]
            return (c is SNone) if s is None else (isinstance(c, SRef) and c.o is s.o)

        if op == "add":
            nid = ctx["new_id"].name
            dup = Or([nid == i for i in ids])
            has_t = a == "template"
            out = [rai("id-in-use", dup, "UnitSystemIDError")]
            ok = z3.Not(dup)
            if has_t and b == "mapping":
                covers = ctx["new_pair"][0] == ctx["tmpl_cat"]
                out.append(rai("template-categories-missing", z3.And(ok, z3.Not(covers)), "UnitSystemCategoriesError"))
                ok = z3.And(ok, covers)

            def chk(I, res):
                if not (isinstance(res, SRef) and isinstance(res.o, HObj) and res.o.cls.name == "UnitSystem"):
                    return F
                ents = registered(mgr)
                if len(ents) != k + 1 or ents[-1][1].o is not res.o:
                    return F
                conj = [to_z3b(I.equal(ents[-1][0], ctx["new_id"])), to_z3b(I.equal(res.o.fields["_id"], ctx["new_id"]))]
                m = res.o.fields["_units_mapping"]
                # the new system has its own mapping (a change to it must not change another system or the caller's dict)
                others = [s.o.fields["_units_mapping"].o for s in systems] + ([ctx["new_map"].o] if "new_map" in ctx else [])
                t = mgr.o.fields["_unit_system_template"]
                if t is not SNone:
                    others.append(t.o.fields["_units_mapping"].o)
                if any(m.o is o for o in others):
                    return F
                if "new_pair" in ctx:
                    if len(m.o.entries) != 1:
                        return F
                    conj += [m.o.entries[0][0].name == ctx["new_pair"][0], m.o.entries[0][1].name == ctx["new_pair"][1]]
                elif has_t:
                    conj.append(z3.BoolVal(len(m.o.entries) == 1))
                    if len(m.o.entries) == 1:
                        conj.append(m.o.entries[0][0].name == ctx["tmpl_cat"])
                else:
                    conj.append(z3.BoolVal(len(m.o.entries) == 0))
                log = log_of(I, mgr)
                if cur is None:
                    # a system added while none is current becomes current; listeners hear exactly that
                    conj.append(z3.BoolVal(cur_is(I, res) and len(log) == 1 and log[0][0] == "on_current" and log[0][1][0].o is res.o))
                else:
                    conj.append(z3.BoolVal(cur_is(I, systems[cur]) and not log))
                return And(conj)

            out.append(ret("registered", ok, check=chk))
            return out
        if op == "remove-unknown":
            return [rai("unknown-id", T, "KeyError")]
        if op == "remove":
            def chk(I, res):
                ents = registered(mgr)
                rest = [s for i, s in enumerate(systems) if i != a]
                if len(ents) != k - 1 or any(x[1].o is not s.o for x, s in zip(ents, rest)):
                    return F
                log = log_of(I, mgr)
                if cur == a:
                    nxt = rest[0] if rest else None
                    okc = cur_is(I, nxt)
                    oklog = len(log) == 1 and log[0][0] == "on_current" and (log[0][1][0].o is (nxt.o if nxt is not None else null.o))
                    return z3.BoolVal(okc and oklog)
                return z3.BoolVal(cur_is(I, systems[cur] if cur is not None else None) and not log)

            return [ret("removed", T, check=chk)]
        if op in ("set-current", "set-current-none"):
            tgt = systems[a] if op == "set-current" else None

            def chk(I, res):
                log = log_of(I, mgr)
                arg = tgt.o if tgt is not None else null.o
                return z3.BoolVal(cur_is(I, tgt) and len(log) == 1 and log[0][0] == "on_current" and log[0][1][0].o is arg and len(registered(mgr)) == k)

            return [ret("selected", T, check=chk)]
        if op in ("set-default-unit", "remove-category"):
            s = systems[a]
            c = ctx["cat"]
            had = c.name == s.o.info["cat"]

            def chk(I, res):
                log = log_of(I, mgr)
                m = s.o.fields["_units_mapping"].o
                is_cur = cur == a
                if op == "set-default-unit":
                    # the mapping now gives `unit` for the category; everything else as before
                    val = None
                    for kk, vv in m.entries:
                        pass
                    got = I.call(I.getattr(s, "GetDefaultUnit"), [c])
                    okm = to_z3b(I.equal(got, ctx["unit"])) if got is not SNone else z3.BoolVal(False)
                    oklog = (len(log) == 1 and log[0][0] == "on_unit_changed") if is_cur else (not log)
                    if is_cur and oklog:
                        return z3.And(okm, to_z3b(I.equal(log[0][1][0], c)), to_z3b(I.equal(log[0][1][1], ctx["unit"])))
                    return z3.And(okm, z3.BoolVal(bool(oklog)))
                # remove-category
                removed = len(m.entries) == 0
                if removed:
                    oklog = (len(log) == 1 and log[0][0] == "on_unit_changed" and log[0][1][1] is SNone) if is_cur else (not log)
                    return z3.And(had, z3.BoolVal(bool(oklog)))
                return z3.And(z3.Not(had), z3.BoolVal(not log))

            return [ret("default-unit-changed" if op == "set-default-unit" else "category-removed-or-absent", c.name != lit("") if op == "set-default-unit" else T, check=chk)] + ([unspecified("empty-category", c.name == lit(""))] if op == "set-default-unit" else [])
        if op == "set-template":
            tc = ctx["tc"]
            covered = And([tc == s.o.info["cat"] for s in systems])

            def chk(I, res):
                t = mgr.o.fields["_unit_system_template"]
                if t is SNone:
                    return F
                m = t.o.fields["_units_mapping"].o
                return z3.And(z3.BoolVal(len(m.entries) == 1 and not log_of(I, mgr)), m.entries[0][0].name == tc if len(m.entries) == 1 else F)

            return [rai("some-system-does-not-cover-the-template", z3.Not(covered), "InvalidTemplateError"), ret("template-set", covered, check=chk)]
        if op in ("convert-to-current", "convert-scalar-to-current"):
            c, u, v = ctx["cat"], ctx["unit"], ctx["value"]
            as_scalar = op == "convert-scalar-to-current"

            def parts(res):
                """(value, unit) of the result; for a Scalar also checks that the category is kept"""
                if not as_scalar:
                    return (res.items[0], res.items[1], T) if isinstance(res, STuple) and len(res.items) == 2 else (None, None, F)
                if not (isinstance(res, SRef) and isinstance(res.o, HObj) and res.o.cls.name == "Scalar"):
                    return None, None, F
                q2 = res.o.fields["_quantity"]
                return res.o.fields["_value"], q2.o.fields["_unit"], to_z3b(I.equal(q2.o.fields["_category"], c))

            st, R = ctx["st"], ctx["R"]
            if cur is None:
                nodef = T
                to = None
            else:
                info = systems[cur].o.info
                nodef = z3.Or(c.name == lit(""), c.name != info["cat"])
                to = info["unit"]

            def same(I, res):
                rv, ru, keep = parts(res)
                if rv is None:
                    return F
                return z3.And(rv.real() == v.real(), to_z3b(I.equal(ru, u)), keep)

            out = [ret("no-current-default-unit: unchanged", nodef, check=same)]
            if to is not None:
                from .unit_database import getinfo_cases

                isq = S(st["C_dom"], c.name)
                qt = z3.If(isq, S(st["C_qt"], c.name), c.name)
                sameu = u.name == to
                has = z3.Not(nodef)
                def chk_same(I, res):
                    rv, ru, keep = parts(res)
                    return z3.And(rv.real() == v.real(), ru.name == to, keep) if rv is not None else F

                out.append(ret("same-unit", z3.And(has, sameu), check=chk_same))
                noqt = z3.And(has, z3.Not(sameu), z3.Not(isq), z3.Not(S(st["Q_dom"], c.name)))
                out.append(rai("no-quantity-type", noqt, "InvalidQuantityTypeError"))
                pre = z3.And(has, z3.Not(sameu), z3.Or(isq, S(st["Q_dom"], c.name)))
                for n1, g1, k1, x1 in getinfo_cases(R, st, qt, u.name, True, True):
                    if k1 == "raise":
                        out.append(rai("from:" + n1, z3.And(pre, g1), x1))
                        continue
                    for n2, g2, k2, x2 in getinfo_cases(R, st, qt, to, True, True):
                        gg = z3.And(pre, g1, g2)
                        if k2 == "raise":
                            out.append(rai("from:%s/to:%s" % (n1, n2), gg, x2))
                        else:
                            def chk_conv(I, res, x1=x1, x2=x2):
                                rv, ru, keep = parts(res)
                                if rv is None or not isinstance(rv, SNum):
                                    return F
                                return z3.And(rv.real() == conv_term(st, x1, x2, v.real()), ru.name == to, keep)

                            if as_scalar and n2 not in ("direct", "via-category"):
                                out.append(unspecified("re-expressed:%s/%s" % (n1, n2), gg))
                            else:
                                out.append(ret("re-expressed:%s/%s" % (n1, n2), gg, props=("C17", "C02"), check=chk_conv))
            return out
        if op == "new-id":
            def chk(I, res):
                if not isinstance(res, SStr):
                    return F
                return And([z3.Not(to_z3b(I.equal(res, sname(i)))) for i in ids])

            return [ret("fresh-id", T, check=chk)]
        return [unspecified("any", T)]

    def extra_obligations(self, I, ctx, outcome):
        mgr, systems = ctx["mgr"], ctx["systems"]
        obs = [("inv[MI: ids unique and stored under their id; current is None or registered; listener exactly on the current system]", ("C17",), MI(I, mgr, systems))]
        if outcome[0] == "raise":
            obs.append(("unchanged_on_raise[manager, systems, mappings, listeners; no notification]", ("C17",), z3.And(to_z3b(unchanged(I, mgr, ctx["snap"])), z3.BoolVal(not log_of(I, mgr)))))
        if ctx["op"] in ("convert-to-current", "convert-scalar-to-current", "new-id"):
            obs.append(("frame[queries change nothing and notify nobody]", ("C17",), z3.And(to_z3b(unchanged(I, mgr, ctx["snap"])), z3.BoolVal(not log_of(I, mgr)))))
        return obs

    def allowed_write(self, I, ctx, obj, what):
        if obj is ctx["mgr"].o or getattr(obj, "region", "") in ("system", "system-mapping", "callback", "manager"):
            return True
        if isinstance(obj, HDict) and obj is ctx["mgr"].o.fields["_unit_systems"].o:
            return True
        return FunctionSpec.allowed_write(self, I, ctx, obj, what)


@register
class UnitSystemEqualitySpec(FunctionSpec):
    """UnitSystem == / != (C08): never raise, reflexive, symmetric, and mean 'same id, caption, mapping and
    read-only flag'; against None / str / int: unequal."""

    fq = US + ".__eq__"
    key = US + "#equality"
    props = ("C08",)
    probe = "equality"

    def variants(self, tier):
        return [(na, nb) for na in (0, 1, 2) for nb in (0, 1, 2)] + [("other", k) for k in ("none", "str", "int")]

    def setup(self, I, variant):
        import ast as _ast
        from .values import harness

        P = I.P
        callbacks.install(I)
        ucls = SClass(I.repo.cls(US))

        def mk(tag, n):
            cats = [z3.Const("%s_cat%d" % (tag, i), NameS) for i in range(n)]
            if n > 1:
                P.assume(z3.Distinct(*cats), "pre:dict keys are distinct")
            m = mapping(I, [(c, z3.Const("%s_unit%d" % (tag, i), NameS)) for i, c in enumerate(cats)], region="system-mapping")
            ro = SBool(P.fresh(tag + "_ro", z3.BoolSort()))
            return I.call(ucls, [sname(z3.Const(tag + "_id", NameS)), sname(z3.Const(tag + "_caption", NameS)), m, ro]), m

        if variant[0] == "other":
            a, ma = mk("a", 1)
            b = {"none": SNone, "str": sname(z3.Const("other_s", NameS)), "int": SNum(z3.Int("other_i"), "int")}[variant[1]]
            mb = None
        else:
            a, ma = mk("a", variant[0])
            b, mb = mk("b", variant[1])

        def run(I):
            return STuple([I.compare(_ast.Eq(), a, b), I.compare(_ast.Eq(), b, a), I.compare(_ast.NotEq(), a, b), I.compare(_ast.NotEq(), b, a), I.compare(_ast.Eq(), a, a)])

        return {"f": harness(run), "args": [], "a": a, "b": b, "ma": ma, "mb": mb, "variant": variant}

    def cases(self, I, ctx):
        a, b, ma, mb = ctx["a"], ctx["b"], ctx["ma"], ctx["mb"]

        def chk(I, res):
            if not all(isinstance(x, SBool) for x in res.items):
                return F
            e1, e2, n1, n2, r = [to_z3b(x.t) for x in res.items]
            conj = [e1 == e2, n1 == z3.Not(e1), n2 == z3.Not(e2), r]
            if mb is None:
                conj.append(z3.Not(e1))
            else:
                fa, fb = a.o.fields, b.o.fields
                ea, eb = ma.o.entries, mb.o.entries
                # dict equality: same key set with equal values (order-insensitive)
                if len(ea) != len(eb):
                    same_map = F
                else:
                    same_map = And([Or([z3.And(to_z3b(I.equal(k1, k2)), to_z3b(I.equal(v1, v2))) for k2, v2 in eb]) for k1, v1 in ea])
                same = z3.And(to_z3b(I.equal(fa["_id"], fb["_id"])), to_z3b(I.equal(fa["_caption"], fb["_caption"])), same_map, to_z3b(I.equal(fa["_read_only"], fb["_read_only"])))
                conj.append(e1 == same)
            return And(conj)

        return [ret("total-symmetric-reflexive", T, check=chk)]
