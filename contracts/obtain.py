"""ObtainQuantity and the intern table (quantities_cache)."""
import z3

from pyvc.engine import NameS, FnS, RealS, IntS, BoolS, app, fixf, lit, PyRaise, OutOfSubset, Obligation, discharge
from pyvc.values import *
from pyvc.interp import to_z3b, SProto
from pyvc.contract import FunctionSpec, Case, ret, rai, unspecified, register, REGISTRY, same_value
from pyvc.registry import make_db, RegInfo, RegCat, RegView, UNKNOWN_QT, UNKNOWN_UNIT
from .schema import *
from .unit_database import getinfo_cases, UDB, nm, bound
from .quantity import QuantityInitSpec

T = z3.BoolVal(True)
F = z3.BoolVal(False)
S = z3.Select

KeyS = z3.DeclareSort("Key")
# (category is None, category, unit is not a str, unit, caption is None, caption)
key3 = z3.Function("key3", BoolS, NameS, BoolS, NameS, BoolS, NameS, KeyS)
_inv3 = [z3.Function("key3_%d" % i, KeyS, s) for i, s in enumerate([BoolS, NameS, BoolS, NameS, BoolS, NameS])]
kind_of = z3.Function("key_kind", KeyS, IntS)
_keyd = {}
_invd = {}


def keyd(n):
    if n not in _keyd:
        sorts = []
        for _ in range(n):
            sorts += [NameS, NameS, IntS]
        sorts += [BoolS, NameS]
        _keyd[n] = z3.Function("keyd%d" % n, *(sorts + [KeyS]))
        _invd[n] = [z3.Function("keyd%d_%d" % (n, i), KeyS, s) for i, s in enumerate(sorts)]
    return _keyd[n], _invd[n]


def opt_name(v):
    """(is None, Name term) of an Optional[str] value; falsy-normalised for captions by the caller"""
    if v is SNone:
        return T, lit("")
    if isinstance(v, SStr):
        return F, v.name
    return None


def encode_key(I, k):
    """z3 Key term for a cache key tuple + injectivity facts (assumed as definitions of the
    uninterpreted constructors' inverses)"""
    P = I.P
    if not isinstance(k, STuple):
        raise OutOfSubset("cache key is not a tuple")
    items = k.items
    if len(items) == 3 and not isinstance(items[0], STuple):
        c, u, cap = items
        oc, ocap = opt_name(c), opt_name(cap)
        if isinstance(u, SStr):
            ou = (F, u.name)
        else:
            ou = (T, lit(""))  # None / non-string units: only the category-default form is modelled
            if u is not SNone:
                raise OutOfSubset("cache key with a non-string, non-None unit")
        if oc is None or ocap is None:
            raise OutOfSubset("cache key with non-string category/caption")
        args = [oc[0], oc[1], ou[0], ou[1], ocap[0], ocap[1]]
        t = key3(*args)
        for f, a in zip(_inv3, args):
            P.assume(f(t) == a, "def:key3 injective")
        P.assume(kind_of(t) == 0, "def:key kinds")
        return t
    # dict form: ((category, (unit, exp)), ..., [caption])
    ents = []
    cap = SNone
    for it in items:
        if isinstance(it, STuple) and len(it.items) == 2 and isinstance(it.items[1], STuple):
            c, ue = it.items
            if len(ue.items) != 2:
                raise OutOfSubset("composing entry of length %d" % len(ue.items))
            ents.append((c, ue.items[0], ue.items[1]))
        elif isinstance(it, SStr):
            cap = it
        else:
            raise OutOfSubset("cache key element %r" % (it,))
    fn, invs = keyd(len(ents))
    args = []
    for c, u, e in ents:
        if not (isinstance(c, SStr) and isinstance(u, SStr) and isinstance(e, SNum)):
            raise OutOfSubset("composing entry with unexpected types")
        args += [c.name, u.name, e.t]
    ocap = opt_name(cap)
    args += [ocap[0], ocap[1]]
    t = fn(*args)
    for f, a in zip(invs, args):
        P.assume(f(t) == a, "def:keyd injective")
    P.assume(kind_of(t) == len(ents) + 1, "def:key kinds")
    return t


class RegK(RegView):
    """quantities_cache.  K_dom : Key → Bool.  A hit returns the interned quantity, which by the
    cache-consistency invariant CC(K) satisfies QI and is the quantity the key denotes under the
    current registry (supplied by `denote`)."""

    pytype_name = "dict"

    def __init__(self, reg, denote):
        RegView.__init__(self, reg)
        self.K_dom = z3.Const("K_dom", z3.ArraySort(KeyS, BoolS))
        self.denote = denote
        self.stores = []  # (key term, object)
        self.hits = []
        self.lookups = []
        self.objects = {}  # key term id -> object stored/returned in this run

    def py_getitem(self, I, k):
        t = encode_key(I, k)
        if I.P.branch(S(self.K_dom, t)):
            self.lookups.append((t, True))
            # an object stored earlier in this run under a provably equal key
            for t0, o in self.stores + self.hits:
                if I.P.valid(t0 == t):
                    return o
            o = self.denote(I, k, t)
            o.o.intern_key = t
            self.hits.append((t, o))
            return o
        self.lookups.append((t, False))
        raise PyRaise(I.exc("KeyError", k))

    def py_setitem(self, I, k, v):
        t = encode_key(I, k)
        ob = Obligation("intern[no overwrite of an existing key]", ("C07",), "extra")
        discharge(I.P, z3.Not(S(self.K_dom, t)), ob)
        I.P.obligs.append(ob)
        self.K_dom = z3.Store(self.K_dom, t, T)
        self.stores.append((t, v))
        self.reg.writes.append(("K", t))

    def py_contains(self, I, k):
        return S(self.K_dom, encode_key(I, k))

    def py_getattr(self, I, name):
        if name == "clear":
            def clear(I, a, kw):
                self.K_dom = z3.K(KeyS, F)
                self.reg.writes.append(("K", "clear"))
                return SNone

            return SBuiltin("RegK.clear", clear)
        raise OutOfSubset("quantities_cache.%s" % name)


# ------------------------------------------------------------------------------------------------
# spec functions


def defcat_of_registered(R, st, w):
    """GetDefaultCategory for a registered symbol w: (is None, category)"""
    dc_ok = z3.And(z3.Not(S(st["U_dc_none"], w)), S(st["U_dc"], w) != lit(""))
    qtcat = S(st["C_dom"], S(st["U_qt"], w))
    none = z3.And(z3.Not(dc_ok), z3.Not(qtcat))
    cat = z3.If(dc_ok, S(st["U_dc"], w), S(st["U_qt"], w))
    return none, cat


def getdefaultcategory_cases(R, st, u):
    """[(name, guard, kind, (is None, category) | exception)]"""
    reg = S(st["U_dom"], u)
    leg = fixf(u) != u
    fr = S(st["U_dom"], fixf(u))
    n1, c1 = defcat_of_registered(R, st, u)
    n2, c2 = defcat_of_registered(R, st, fixf(u))
    return [
        ("registered", reg, "value", (n1, c1)),
        ("unregistered", z3.And(z3.Not(reg), z3.Not(leg)), "value", (T, lit(""))),
        ("legacy", z3.And(z3.Not(reg), leg, fr), "value", (n2, c2)),
        ("legacy-unregistered", z3.And(z3.Not(reg), leg, z3.Not(fr)), "raise", "KeyError"),
    ]


@register
class GetDefaultCategorySpec(FunctionSpec):
    fq = UDB + ":UnitDatabase.GetDefaultCategory"
    props = ("C16", "C19", "C14")
    callees = (UDB + ":FixUnitIfIsLegacy",)

    def setup(self, I, variant):
        db, R = make_db(I)
        u = nm("unit")
        return {"f": bound(I, db, "GetDefaultCategory"), "args": [u], "R": R, "st": R.snapshot(), "unit": u}

    def bind_call(self, I, f, args, kwargs):
        ctx = FunctionSpec.bind_call(self, I, f, args, kwargs)
        R = I.P.ghost["reg"]
        if isinstance(ctx["unit"], SStr):
            R.touch(ctx["unit"].name)
        ctx["R"], ctx["st"] = R, R.snapshot()
        return ctx

    def cases(self, I, ctx):
        R, st, u = ctx["R"], ctx["st"], ctx["unit"]
        if not isinstance(u, SStr):
            return [unspecified("non-str", T)]
        out = []
        for n, g, k, x in getdefaultcategory_cases(R, st, u.name):
            if k == "raise":
                out.append(unspecified(n, g))  # KeyError escapes: outside the documented behaviour
                continue
            isnone, cat = x
            pr = ("C16",) if n.startswith("legacy") else ("C19", "C14")
            out.append(ret(n + "/none", z3.And(g, isnone), SNone, props=pr))
            out.append(ret(n + "/category", z3.And(g, z3.Not(isnone)), sname(cat), props=pr))
        return out

    def extra_obligations(self, I, ctx, outcome):
        return [("frame[registry unchanged]", ("C15",), not ctx["R"].writes)]


def resolved_unit(R, st, c, u):
    """(ok, unit) : the unit Quantity.__init__ stores for (category c, requested unit u)"""
    v1 = R.valid(c, u, st)
    v2 = z3.And(z3.Not(v1), fixf(u) != u, R.valid(c, fixf(u), st))
    return z3.Or(v1, v2), z3.If(v1, u, fixf(u))


def obtain_simple_cases(I, R, st, db, u, c, cap, make):
    """cases of ObtainQuantity(unit: str, category: str|None, caption) ; make(c, u_res) builds the value"""
    out = []
    if c is not SNone:
        cn = c.name
        ok, ures = resolved_unit(R, st, cn, u.name)
        cdom = S(st["C_dom"], cn)
        out.append(rai("unknown-category", z3.Not(cdom), "InvalidQuantityTypeError", props=("C05",)))
        out.append(ret("resolved", z3.And(cdom, ok), lambda I: make(cn, ures), props=("C07", "C16", "C19", "C02")))
        out.append(rai("invalid-unit", z3.And(cdom, z3.Not(ok)), "InvalidUnitError", props=("C05",)))
        return out
    # category from the unit
    for n, g, k, x in getdefaultcategory_cases(R, st, u.name):
        if k == "raise":
            out.append(unspecified("defcat:" + n, g))
            continue
        isnone, cat = x
        isnone = z3.Or(isnone, cat == lit(""))  # `if not category`: '' counts as no category
        if n == "unregistered":
            out.append(rai("no-default-category", g, "UnitsError", props=("C05",)))
            continue
        if n == "registered":
            # `if not category`: not legacy (registered symbols are fix-points) → UnitsError
            out.append(rai("registered/no-category", z3.And(g, isnone), "UnitsError", props=("C05",)))
            ok, ures = resolved_unit(R, st, cat, u.name)
            cdom = S(st["C_dom"], cat)
            gg = z3.And(g, z3.Not(isnone))
            out.append(rai("registered/category-unregistered", z3.And(gg, z3.Not(cdom)), "InvalidQuantityTypeError", props=("C05",)))
            out.append(ret("registered/resolved", z3.And(gg, cdom, ok), lambda I, cat=cat, ures=ures: make(cat, ures), props=("C07", "C19")))
            out.append(rai("registered/invalid", z3.And(gg, cdom, z3.Not(ok)), "InvalidUnitError", props=("C05",)))
        if n == "legacy":
            # the legacy spelling found a category at once; Quantity.__init__ rewrites the unit
            ok, ures = resolved_unit(R, st, cat, u.name)
            cdom = S(st["C_dom"], cat)
            gg = z3.And(g, z3.Not(isnone))
            out.append(rai("legacy/category-unregistered", z3.And(gg, z3.Not(cdom)), "InvalidQuantityTypeError", props=("C05",)))
            out.append(ret("legacy/resolved", z3.And(gg, cdom, ok), lambda I, cat=cat, ures=ures: make(cat, ures), props=("C16",)))
            out.append(rai("legacy/invalid", z3.And(gg, cdom, z3.Not(ok)), "InvalidUnitError", props=("C05",)))
            out.append(unspecified("legacy/no-category", z3.And(g, isnone)))
    return out


@register
class ObtainQuantitySpec(FunctionSpec):
    """Simple forms ObtainQuantity(unit: str, category: str|None, caption: str|None).
    ensures: result = K'[key]; a hit returns the interned object and leaves K unchanged; K ⊆ K' (no
    overwrite); the result's composing map is [(category', unit', 1)] with category'/unit' resolved as
    the rules say, its caption is caption or ''."""

    fq = Q_MOD + ":ObtainQuantity"
    probe = "obtain"
    props = ("C07", "C16", "C19", "C05", "C02")
    callees = (Q_MOD + ":Quantity.__init__", UDB + ":UnitDatabase.GetDefaultCategory", UDB + ":FixUnitIfIsLegacy")

    def variants(self, tier):
        out = [(ck, pk) for ck in ("cat", "nocat") for pk in ("nocap", "cap")]
        # composing-map form: number of entries, caption, kind of the [unit, exp] pairs
        # (three entries exceed the explorer's path budget per variant; the shape bound is 2 in both tiers)
        for n in (1, 2):
            for pk in ("nocap", "cap"):
                for pair in ("list", "tuple"):
                    out.append(("dict%d" % n, pk, pair))
        return out

    def setup(self, I, variant):
        ck, pk = variant[0], variant[1]
        db, R = make_db(I)
        cap = nm("caption") if pk == "cap" else SNone
        K = RegK(R, lambda I, k, t: self.denote(I, R, db, k, t))
        db.o.fields["quantities_cache"] = K
        f = SFunc(I.repo.func(self.fq))
        if ck.startswith("dict"):
            n = int(ck[4:])
            P = I.P
            from pyvc import strparts

            strparts.install(P)
            ents = fresh_entries(P, n, "d")
            if n > 1:
                P.assume(z3.Distinct(*[c for c, _, _ in ents]), "pre:dict keys are distinct")
            items = []
            for c, u, e in ents:
                R.touch(c, u)
                pair = [sname(u), SNum(e, "int")]
                pv = SRef(P.alloc(HList(pair, region="param"))) if variant[2] == "list" else STuple(pair)
                items.append((sname(c), pv))
            m = SRef(P.alloc(HDict(items, ordered=True, region="param")))
            st = R.snapshot()
            return {"f": f, "args": [m, SNone, cap], "R": R, "st": st, "db": db, "K": K, "K0": K.K_dom, "unit": m, "category": SNone, "unknown_unit_caption": cap, "dict_entries": ents, "pair_kind": variant[2]}
        c = nm("category") if ck == "cat" else SNone
        u = nm("unit")
        R.touch(u.name)
        if c is not SNone:
            R.touch(c.name)
        st = R.snapshot()
        return {"f": f, "args": [u, c, cap], "R": R, "st": st, "db": db, "K": K, "K0": K.K_dom, "unit": u, "category": c, "unknown_unit_caption": cap}

    def denote(self, I, R, db, k, t):
        """CC(K): the quantity interned under key k is the one the miss path would build now"""
        if k.items and isinstance(k.items[0], STuple):
            # composing-map key ((category, (unit, exp)), ..., [caption])
            P = I.P
            items, cap = [], SNone
            for it in k.items:
                if isinstance(it, STuple):
                    c_, ue = it.items
                    items.append((c_, SRef(P.alloc(HList(list(ue.items), region="quantity-internal")))))
                    P.assume(S(R.C_dom, c_.name), "inv:CC(K) interned key is constructible")
                    R.on_cat(c_.name)
                else:
                    cap = it
            m = SRef(P.alloc(HDict(items, ordered=True, region="quantity-internal")))
            q = derived_from_map(I, R, db, m, cap)
            q.o.from_cache = True
            return q
        c, u, cap = k.items
        st = R.snapshot()
        if c is SNone:
            # interned under the None category: the quantity of the unit's default category
            rets = [x for x in obtain_simple_cases(I, R, st, db, u, SNone, cap, lambda cn, ures: (cn, ures)) if x.kind == "return"]
            I.P.assume(z3.Or(*[x.guard for x in rets]), "inv:CC(K) interned key is constructible")
            x = rets[I.P.choose([x.guard for x in rets])]
            cn, ures = x.value(I)
            q = new_simple_quantity(I, R, db, cn, ures, cap)
            q.o.from_cache = True
            return q
        ok, ures = resolved_unit(R, st, c.name, u.name)
        I.P.assume(z3.And(S(st["C_dom"], c.name), ok), "inv:CC(K) interned key is constructible")
        q = new_simple_quantity(I, R, db, c.name, ures, cap)
        q.o.from_cache = True
        return q

    def bind_call(self, I, f, args, kwargs):
        ctx = FunctionSpec.bind_call(self, I, f, args, kwargs)
        R = I.P.ghost["reg"]
        ctx["R"], ctx["st"], ctx["db"] = R, R.snapshot(), I.P.ghost["db"]
        return ctx

    def cases(self, I, ctx):
        R, st, db = ctx["R"], ctx["st"], ctx["db"]
        u, c, cap = ctx["unit"], ctx["category"], ctx["unknown_unit_caption"]
        if isinstance(u, SRef) and isinstance(u.o, HDict) and c is SNone:
            if ctx.get("$call"):
                return self.dict_cases(I, ctx)
            return self.dict_verify_cases(I, ctx)
        if not (isinstance(u, SStr) and (c is SNone or isinstance(c, SStr)) and (cap is SNone or isinstance(cap, SStr))):
            return [unspecified("other-forms", T)]
        is_call = ctx.get("$call")

        def make(cn, ures):
            # summary side: a quantity satisfying QI for (cn, ures); the memo may have grown
            if is_call:
                havoc_memo(I, R)
            return new_simple_quantity(I, R, db, cn, ures, cap)

        cs = obtain_simple_cases(I, R, st, db, u, c, cap, make)
        if not is_call:
            for x in cs:
                if x.kind == "return":
                    x.value = None
                    x.check = self.result_check(ctx, x)
        return cs

    def dict_cases(self, I, ctx):
        """ObtainQuantity(OrderedDict) — summary only (derived quantities; used by CreateDerived)"""
        R, db = ctx["R"], ctx["db"]
        m = ctx["unit"].o
        cap = ctx["unknown_unit_caption"]
        ents = []
        for k, v in m.entries:
            items = v.items if isinstance(v, STuple) else v.o.items
            if not (isinstance(k, SStr) and len(items) == 2 and isinstance(items[0], SStr) and isinstance(items[1], SNum)):
                return [unspecified("dict-form with unexpected entries", T)]
            ents.append((k.name, items[0].name, items[1].t))
        if len(ents) == 1:
            c1, u1, e1 = ents[0]
            st = ctx["st"]
            ok, ures = resolved_unit(R, st, c1, u1)
            cdom = S(st["C_dom"], c1)
            return [
                ret("dict/single-exp1", z3.And(e1 == 1, cdom, ok), lambda I: new_simple_quantity(I, R, db, c1, ures, cap), props=("C07", "C04")),
                unspecified("dict/single-exp1-invalid", z3.And(e1 == 1, z3.Not(z3.And(cdom, ok)))),
                ret("dict/derived", e1 != 1, lambda I: derived_from_map(I, R, db, ctx["unit"], cap), props=("C07", "C04")),
            ]
        return [ret("dict/derived", T, lambda I: derived_from_map(I, R, db, ctx["unit"], cap), props=("C07", "C04"))]

    def dict_verify_cases(self, I, ctx):
        """ObtainQuantity(OrderedDict) against its body: a single entry with exponent 1 is the simple
        request (category, unit); otherwise the quantity is interned under the key made of the
        entries and the caption, its composing map is the argument's, pairs are lists (QI)."""
        R, st, db, K = ctx["R"], ctx["st"], ctx["db"], ctx["K"]
        ents, cap = ctx["dict_entries"], ctx["unknown_unit_caption"]
        out = []
        derived = T
        if len(ents) == 1:
            c0, u0, e0 = ents[0]
            derived = e0 != 1
            for x in obtain_simple_cases(I, R, st, db, sname(u0), sname(c0), cap, lambda cn, ures: (cn, ures)):
                g = z3.And(e0 == 1, x.guard)
                if x.kind == "raise":
                    out.append(rai("single-exp1/" + x.name, g, x.exc, props=("C05",)))
                elif x.kind == "any":
                    out.append(unspecified("single-exp1/" + x.name, g))
                else:
                    cn, ures = x.value(I)

                    def chk(I, res, cn=cn, ures=ures):
                        if not (isinstance(res, SRef) and isinstance(res.o, HObj) and res.o.cls.name == "Quantity"):
                            return False
                        f = res.o.fields
                        return z3.And(to_z3b(I.equal(f["_category"], sname(cn))), to_z3b(I.equal(f["_unit"], sname(ures))), to_z3b(I.equal(f["_unknown_unit_caption"], caption_norm(cap))), to_z3b(I.equal(f["_is_derived"], SBool(False))), z3.BoolVal(any(o.o is res.o for _, o in K.stores + K.hits)))

                    out.append(ret("single-exp1/" + x.name, g, props=("C07", "C04"), check=chk))
        # derived: every category must be registered (Quantity.__init__ reads its quantity type)
        regs = [S(st["C_dom"], c) for c, _, _ in ents]
        allreg = z3.And(*regs) if regs else T
        kt = self.dict_key(I, ctx)
        hit = S(ctx["K0"], kt)
        out.append(rai("derived/unregistered-category", z3.And(derived, z3.Not(hit), z3.Not(allreg)), "InvalidQuantityTypeError", props=("C05",)))

        def chk_d(I, res):
            if not (isinstance(res, SRef) and isinstance(res.o, HObj) and res.o.cls.name == "Quantity"):
                return False
            f = res.o.fields
            m = f.get("_category_to_unit_and_exps")
            if not (isinstance(m, SRef) and isinstance(m.o, HDict) and len(m.o.entries) == len(ents)):
                return False
            conj = [to_z3b(I.equal(f["_unknown_unit_caption"], caption_norm(cap))), to_z3b(I.equal(f["_is_derived"], SBool(True)))]
            fresh_q = getattr(res.o, "oid", 0) > ctx.get("oid_mark", 0) and not getattr(res.o, "from_cache", False)
            if fresh_q and (m.o is ctx["unit"].o or m.o.oid <= ctx.get("oid_mark", 0)):
                return False  # QI: a new quantity owns its composing map (not the caller's dict)
            for (k, v), (c, u, e) in zip(m.o.entries, ents):
                if not (isinstance(v, SRef) and isinstance(v.o, HList) and len(v.o.items) == 2):
                    return False  # QI: the [unit, exp] pairs of a quantity are lists
                if fresh_q and v.o.oid <= ctx.get("oid_mark", 0):
                    return False  # ... and new ones
                conj += [k.name == c, v.o.items[0].name == u, v.o.items[1].t == e]
            conj.append(z3.BoolVal(any(o.o is res.o for _, o in K.stores + K.hits)))
            return z3.And(*conj)

        out.append(ret("derived/interned", z3.And(derived, z3.Or(hit, allreg)), props=("C07", "C04", "C03"), check=chk_d))
        return out

    def dict_key(self, I, ctx):
        ents, cap = ctx["dict_entries"], ctx["unknown_unit_caption"]
        items = [STuple([sname(c), STuple([sname(u), SNum(e, "int")])]) for c, u, e in ents]
        keyv = STuple(items + ([cap] if cap is not SNone else []))
        # `if unknown_unit_caption:` — an empty caption string is not part of the key
        if cap is not SNone:
            t_with = encode_key(I, keyv)
            t_without = encode_key(I, STuple(items))
            return z3.If(cap.name == lit(""), t_without, t_with)
        return encode_key(I, keyv)

    def result_check(self, ctx, case):
        """for the body: the returned object is the interned one and denotes the request"""
        R, st, K = ctx["R"], ctx["st"], ctx["K"]
        u, c, cap = ctx["unit"], ctx["category"], ctx["unknown_unit_caption"]

        def chk(I, res):
            if not (isinstance(res, SRef) and isinstance(res.o, HObj) and res.o.cls.name == "Quantity"):
                return False
            qi = getattr(res.o, "qinfo", None)
            if qi is None:
                return False
            # expected resolution
            exp = {}

            def make(cn, ures):
                exp["c"], exp["u"] = cn, ures
                return None

            for x in obtain_simple_cases(I, R, st, ctx["db"], u, c, cap, make):
                if x.name == case.name:
                    x.value(I)
            f = res.o.fields
            conj = [
                to_z3b(I.equal(f["_category"], sname(exp["c"]))),
                to_z3b(I.equal(f["_unit"], sname(exp["u"]))),
                to_z3b(I.equal(f["_unknown_unit_caption"], caption_norm(cap))),
                to_z3b(I.equal(f["_is_derived"], SBool(False))),
            ]
            # interned: the result is an object of the intern table (hit or stored during the call)
            from_table = any(o.o is res.o for _, o in K.stores + K.hits)
            conj.append(z3.BoolVal(from_table))
            return z3.And(*conj)

        return chk

    def allowed_write(self, I, ctx, obj, what):
        return FunctionSpec.allowed_write(self, I, ctx, obj, what)

    def extra_obligations(self, I, ctx, outcome):
        R, K = ctx["R"], ctx["K"]
        obs = []
        ok_writes = all(w[0] in ("M", "K") for w in R.writes)
        obs.append(("frame[registry: only memo and intern table]", ("C07", "C15", "C05"), ok_writes))
        # K ⊆ K' : monotone
        kx = z3.Const("k!any", KeyS)
        obs.append(("intern[K ⊆ K']", ("C07",), z3.Implies(S(ctx["K0"], kx), S(K.K_dom, kx))))
        if "dict_entries" in ctx:
            return obs + self.dict_intern_obligations(I, ctx, outcome)
        # a hit on the request key leaves K unchanged
        kt = encode_key(I, STuple([ctx["category"], ctx["unit"], ctx["unknown_unit_caption"]]))
        if outcome[0] == "return":
            exp, specified = self.expected_K(I, ctx, kt)
            obs.append(("intern[K' is exactly K plus the keys of this request]", ("C07", "C19"), z3.Implies(specified, K.K_dom == exp)))
        obs.append(("intern[hit leaves K unchanged]", ("C07",), z3.Implies(S(ctx["K0"], kt), K.K_dom == ctx["K0"])))
        if outcome[0] == "raise":
            obs.append(("unchanged_on_raise[K]", ("C05", "C07"), K.K_dom == ctx["K0"]))
        if outcome[0] == "return":
            # the same request repeated returns the identical object
            try:
                r2 = I.call(ctx["f"], ctx["args"], {})
                obs.append(("intern[repeated request returns the identical object]", ("C07",), I.identical(outcome[1], r2)))
            except PyRaise as e:
                obs.append(("intern[repeated request returns the identical object]", ("C07",), False))
        return obs


def _expected_K(self, I, ctx, kt):
    """the intern table after a successful simple-form request"""
    R, st = ctx["R"], ctx["st"]
    u, c, cap = ctx["unit"], ctx["category"], ctx["unknown_unit_caption"]
    K0 = ctx["K0"]
    if c is not SNone:
        return z3.If(S(K0, kt), K0, z3.Store(K0, kt, T)), T
    # category resolved from the unit: both the resolved key and the request key denote the quantity
    exp = K0
    specified = T
    for n, g, k, x in getdefaultcategory_cases(R, st, u.name):
        if k == "raise" or n == "unregistered":
            continue
        isnone, cat = x
        if n == "legacy":
            # a legacy spelling whose current unit has no (or an empty) default category: outside the contract
            specified = z3.And(specified, z3.Not(z3.And(g, z3.Or(isnone, cat == lit("")))))
        kr = encode_key(I, STuple([sname(cat), u, cap]))
        miss = z3.If(S(K0, kr), K0, z3.Store(z3.Store(K0, kr, T), kt, T))
        exp = z3.If(g, miss, exp)
    return z3.If(S(K0, kt), K0, exp), specified


def _dict_intern_obligations(self, I, ctx, outcome):
    K = ctx["K"]
    obs = []
    ents = ctx["dict_entries"]
    K0 = ctx["K0"]
    if outcome[0] == "raise":
        obs.append(("unchanged_on_raise[K]", ("C05", "C07"), K.K_dom == K0))
        return obs
    if len(ents) == 1:
        c0, u0, e0 = ents[0]
        k3 = encode_key(I, STuple([sname(c0), sname(u0), ctx["unknown_unit_caption"]]))
        simple = z3.If(S(K0, k3), K0, z3.Store(K0, k3, T))
    else:
        e0, simple = None, K0
    kt = self.dict_key(I, ctx)
    derived = z3.If(S(K0, kt), K0, z3.Store(K0, kt, T))
    exp = derived if e0 is None else z3.If(e0 == 1, simple, derived)
    obs.append(("intern[K' is exactly K plus the key of this request (entries and caption)]", ("C07",), K.K_dom == exp))
    try:
        r2 = I.call(ctx["f"], ctx["args"], {})
        obs.append(("intern[repeated request returns the identical object]", ("C07",), I.identical(outcome[1], r2)))
    except PyRaise:
        obs.append(("intern[repeated request returns the identical object]", ("C07",), False))
    return obs


ObtainQuantitySpec.expected_K = _expected_K
ObtainQuantitySpec.dict_intern_obligations = _dict_intern_obligations


def havoc_memo(I, R):
    P = I.P
    R.M_dom = P.fresh("M_dom", R.M_dom.sort())
    R.M_val = P.fresh("M_val", R.M_val.sort())
    R.instantiated = {k for k in R.instantiated if k[0] != "CC"}
    R.writes.append(("M", "havoc (callee may extend the memo)"))


def derived_from_map(I, R, db, mref, cap):
    """the derived quantity whose composing map is the given OrderedDict object (ownership passes
    to the quantity).  A map without entries is the empty quantity (all strings '')."""
    P = I.P
    o = P.alloc(HObj(qclass(I), region="quantity"))
    m = mref.o
    ents = []
    for k, v in m.entries:
        items = v.items if isinstance(v, STuple) else v.o.items
        ents.append((k.name, items[0].name, items[1].t))
        if isinstance(v, SRef):
            v.o.region = "quantity-internal"
    m.region = "quantity-internal"
    f = o.fields
    f["_unit_database"] = db
    f["_unknown_unit_caption"] = caption_norm(cap)
    f["_is_derived"] = SBool(True)
    f["_category_info"] = SNone
    f["_category_to_unit_and_exps"] = mref
    if not ents:
        f["_category"] = SStr("")
        f["_quantity_type"] = SStr("")
        f["_unit"] = SStr("")
    else:
        f["_category"] = sname(P.fresh("d_category", NameS))
        f["_quantity_type"] = sname(P.fresh("d_qtype", NameS))
        f["_unit"] = sname(P.fresh("d_unit", NameS))
    f["_composing_units"] = STuple([STuple([sname(u), SNum(e, "int")]) for _, u, e in ents])
    f["_composing_categories"] = STuple([sname(c) for c, _, _ in ents])
    o.qinfo = {"kind": "derived", "entries": ents}
    return SRef(o)


def empty_quantity(I, R, db):
    m = SRef(I.P.alloc(HDict([], ordered=True)))
    q = derived_from_map(I, R, db, m, SNone)
    q.o.is_empty_quantity = True
    return q


@register
class CreateEmptySpec(FunctionSpec):
    """Quantity.CreateEmpty(): the (process-wide) quantity without composing entries: no entries, no
    caption, and the identical object on every call (class-level cache, filled through ObtainQuantity)."""

    fq = Q_MOD + ":Quantity.CreateEmpty"
    props = ("C09", "C07")
    callees = (Q_MOD + ":ObtainQuantity",)

    def variants(self, tier):
        return ["cache-unset", "cache-set"]

    def setup(self, I, variant):
        from .values import std_db, harness

        db, R = std_db(I)
        P = I.P
        cls = SClass(I.repo.cls(Q_MOD + ":Quantity"))
        q0 = None
        if variant == "cache-set":
            q0 = empty_quantity(I, R, db)
            P.ghost.setdefault("classattrs", {})[("Quantity", "_EMPTY_QUANTITY")] = q0
        else:
            P.ghost.setdefault("classattrs", {})[("Quantity", "_EMPTY_QUANTITY")] = SNone

        def run(I):
            a = I.call(I.getattr(cls, "CreateEmpty"), [])
            b = I.call(I.getattr(cls, "CreateEmpty"), [])
            return STuple([a, b])

        return {"f": harness(run), "args": [], "R": R, "st": R.snapshot(), "db": db, "q0": q0}

    def allowed_write(self, I, ctx, obj, what):
        return True  # the class-level cache slot and the intern table (through ObtainQuantity's contract)

    def bind_call(self, I, f, args, kwargs):
        return {"$call": True}

    def cases(self, I, ctx):
        R, db = I.P.ghost["reg"], I.P.ghost["db"]

        def mk(I):
            g = I.P.ghost
            if "empty_quantity" not in g:
                g["empty_quantity"] = empty_quantity(I, R, db)
            return g["empty_quantity"]

        if ctx.get("$call"):
            return [ret("empty", T, mk)]
        q0 = ctx["q0"]

        def chk(I, res):
            a, b = res.items
            if not all(isinstance(x, SRef) and isinstance(x.o, HObj) and getattr(x.o.cls, "name", "") == "Quantity" for x in (a, b)):
                return F
            ents = a.o.qinfo.get("entries") if getattr(a.o, "qinfo", None) else None
            cap = a.o.fields.get("_unknown_unit_caption")
            nocap = cap is SNone or (isinstance(cap, SStr) and cap.py == "")
            same = a.o is b.o and (q0 is None or a.o is q0.o)
            return z3.BoolVal(bool(same and ents is not None and len(ents) == 0 and nocap))

        return [ret("the-one-empty-quantity", T, props=("C09", "C07"), check=chk)]


@register
class CreateDerivedSpec(FunctionSpec):
    """Quantity.CreateDerived(composing map) - the validating way to build a derived quantity (C05: a value
    whose unit does not belong to its category's quantity type is never created).  Entries are checked in
    order: an unregistered category raises InvalidQuantityTypeError, a unit that is not a unit of the
    category's quantity type raises InvalidUnitError (legacy spellings are not accepted here); otherwise
    the quantity with exactly these entries is returned (ObtainQuantity's contract)."""

    fq = Q_MOD + ":Quantity._CreateDerived"
    props = ("C05", "C07")
    callees = (Q_MOD + ":ObtainQuantity", UDB + ":UnitDatabase.GetInfo")
    probe = "create_derived"

    def variants(self, tier):
        return [("dict2", "nocap", "list"), ("dict2", "nocap", "tuple"), ("dict1", "nocap", "list")] + ([("dict3", "nocap", "list")] if tier == "thorough" else [])

    def setup(self, I, variant):
        from .values import harness

        oq = REGISTRY[Q_MOD + ":ObtainQuantity"]
        ctx = oq.setup(I, variant)
        m = ctx["unit"]
        cls = SClass(I.repo.cls(Q_MOD + ":Quantity"))
        ctx["f"] = harness(lambda I: I.call(I.getattr(cls, "CreateDerived"), [m]))
        ctx["args"] = []
        ctx["map"] = m
        return ctx

    def cases(self, I, ctx):
        R, st = ctx["R"], ctx["st"]
        ents = ctx["dict_entries"]
        out = []
        prev = T
        for i, (c, u, e) in enumerate(ents):
            reg = S(st["C_dom"], c)
            out.append(rai("entry%d/unknown-category" % i, z3.And(prev, z3.Not(reg)), "InvalidQuantityTypeError", props=("C05",)))
            qt = S(st["C_qt"], c)
            oks = []
            for n, g, k, x in getinfo_cases(R, st, qt, u, False, False):
                if k == "raise":
                    out.append(rai("entry%d/%s" % (i, n), z3.And(prev, reg, g), x, props=("C05",)))
                else:
                    oks.append(g)
            prev = z3.And(prev, reg, z3.Or(*oks))
        simple_form = z3.And(ents[0][2] == 1) if len(ents) == 1 else F
        out.append(unspecified("single-entry-exponent-1 (the simple form validates it)", z3.And(prev, simple_form)))

        def chk(I, res):
            if not (isinstance(res, SRef) and isinstance(res.o, HObj) and res.o.cls.name == "Quantity"):
                return F
            m = res.o.fields.get("_category_to_unit_and_exps")
            if not (isinstance(m, SRef) and isinstance(m.o, HDict) and len(m.o.entries) == len(ents)):
                return F
            conj = []
            for (k, v), (c, u, e) in zip(m.o.entries, ents):
                items = v.o.items if isinstance(v, SRef) and isinstance(v.o, HList) else (v.items if isinstance(v, STuple) else None)
                if items is None or len(items) != 2:
                    return F
                conj += [k.name == c, items[0].name == u, items[1].t == e]
            return z3.And(*conj)

        out.append(ret("every-unit-belongs-to-its-category's-type: the quantity with these entries", z3.And(prev, z3.Not(simple_form)), props=("C05", "C07"), check=chk))
        return out

    def extra_obligations(self, I, ctx, outcome):
        m = ctx["map"]
        return [("frame[registry: only memo and intern table]", ("C15", "C05"), all(w[0] in ("M", "K") for w in ctx["R"].writes))]

    def allowed_write(self, I, ctx, obj, what):
        if getattr(obj, "region", "") == "quantity" and what[1] in LAZY_SLOTS:
            return True
        return FunctionSpec.allowed_write(self, I, ctx, obj, what)
