"""Contracts for barril.units.unit_database (sidecar; the repository file is not edited)."""
import z3

from pyvc.engine import NameS, FnS, RealS, IntS, app, fixf, lit, PyRaise, OutOfSubset, upow
from pyvc.values import *
from pyvc.interp import to_z3b
from pyvc.contract import FunctionSpec, Case, ret, rai, register, REGISTRY
from pyvc.registry import make_db, RegInfo, RegCat, Reg, ident, UNKNOWN_QT, UNKNOWN_UNIT
from pyvc import symseq

UDB = "barril.units.unit_database"
F = z3.BoolVal(False)
T = z3.BoolVal(True)


def nm(base):
    return sname(z3.Const(base, NameS))


def bound(I, db, meth):
    return I.getattr(db, meth)


# ------------------------------------------------------------------------------------------------
@register
class FixUnitIfIsLegacySpec(FunctionSpec):
    """result = (unit != fix(unit), fix(unit)) where fix is *the* rewriting the function computes
    (a pure function of the text).  Its ground behaviour on every table symbol and every legacy
    spelling is what the C16 table obligations establish by running the real body."""

    fq = UDB + ":FixUnitIfIsLegacy"
    props = ("C16",)

    def bind_call(self, I, f, args, kwargs):
        return {"unit": args[0] if args else kwargs["unit"]}

    def cases(self, I, ctx):
        u = ctx["unit"]
        if not isinstance(u, SStr):
            # the bare except turns every failure into (False, unit)
            return [ret("non-str", T, STuple([SBool(False), u]))]
        if u.py is not None:
            # literal text: run the real body
            f = SFunc(I.repo.func(self.fq))
            r = I.call_function(f, [u], {}, force_inline=True)
            fixed = r.items[1]
            I.P.assume(fixf(u.name) == fixed.name, "def:fix(literal)")
            return [ret("literal", T, r)]
        n = u.name
        return [ret("fix", T, STuple([SBool(n != fixf(n)), sname(fixf(n))]))]


# ------------------------------------------------------------------------------------------------
def getinfo_cases(R, st, qt, u, fix_unknown, fix_legacy, props=()):
    """Appendix D: the six cases of GetInfo over the registry view (all guards over state st).
    Returns [(name, guard, 'info', key) | (name, guard, 'raise', exc)]"""
    S = z3.Select
    hit = lambda q, x: R.hit(q, x, st)
    qt2 = R.qt_of(qt, st)
    c1 = hit(qt, u)
    noqt = z3.And(z3.Not(c1), z3.Not(S(st["Q_dom"], qt2)))
    c3 = z3.And(z3.Not(c1), S(st["Q_dom"], qt2), hit(qt2, u))
    rest = z3.And(z3.Not(c1), S(st["Q_dom"], qt2), z3.Not(hit(qt2, u)))
    unk = z3.And(qt2 == lit(UNKNOWN_QT), hit(lit(UNKNOWN_QT), lit(UNKNOWN_UNIT))) if fix_unknown else F
    c4 = z3.And(rest, unk)
    leg = z3.And(fixf(u) != u, hit(qt2, fixf(u))) if fix_legacy else F
    c5 = z3.And(rest, z3.Not(unk), leg)
    c6 = z3.And(rest, z3.Not(unk), z3.Not(leg))
    return [
        ("direct", c1, "info", u),
        ("no-quantity-type", noqt, "raise", "InvalidQuantityTypeError"),
        ("via-category", c3, "info", u),
        ("unknown", c4, "info", lit(UNKNOWN_UNIT)),
        ("legacy", c5, "info", fixf(u)),
        ("invalid-unit", c6, "raise", "InvalidUnitError"),
    ]


@register
class GetInfoSpec(FunctionSpec):

    probe = "db_lookup"
    fq = UDB + ":UnitDatabase.GetInfo"
    props = ("C01", "C02", "C05", "C16")
    callees = (UDB + ":FixUnitIfIsLegacy",)
    case_props = {
        "direct": ("C01", "C02"),
        "via-category": ("C02",),
        "no-quantity-type": ("C05",),
        "invalid-unit": ("C05",),
        "unknown": ("C05",),
        "legacy": ("C16",),
    }

    def variants(self, tier):
        return [(fu, fl) for fu in (False, True) for fl in (False, True)]

    def setup(self, I, variant):
        fu, fl = variant
        db, R = make_db(I)
        return {
            "f": bound(I, db, "GetInfo"),
            "args": [nm("qt"), nm("unit")],
            "kwargs": {"fix_unknown": SBool(fu), "fix_legacy": SBool(fl)},
            "R": R,
            "st": R.snapshot(),
            "quantity_type": nm("qt"),
            "unit": nm("unit"),
            "fix_unknown": SBool(fu),
            "fix_legacy": SBool(fl),
        }

    def bind_call(self, I, f, args, kwargs):
        ctx = FunctionSpec.bind_call(self, I, f, args, kwargs)
        R = I.P.ghost["reg"]
        ctx["R"] = R
        ctx["st"] = R.snapshot()
        return ctx

    def cases(self, I, ctx):
        R = ctx["R"]
        qt, u = ctx["quantity_type"], ctx["unit"]
        if not (isinstance(qt, SStr) and isinstance(u, SStr)):
            raise OutOfSubset("GetInfo with non-string arguments")
        fu, fl = ctx["fix_unknown"].concrete(), ctx["fix_legacy"].concrete()
        if fu is None or fl is None:
            raise OutOfSubset("GetInfo with symbolic flags")
        out = []
        for name, g, kind, x in getinfo_cases(R, ctx["st"], qt.name, u.name, fu, fl):
            pr = self.case_props[name]
            if kind == "info":
                def mk(I, x=x):
                    R.on_unit(x)
                    return RegInfo(R, x)

                out.append(ret(name, g, mk, props=pr))
            else:
                out.append(rai(name, g, x, props=pr))
        return out

    def allowed_write(self, I, ctx, obj, what):
        return FunctionSpec.allowed_write(self, I, ctx, obj, what)

    def extra_obligations(self, I, ctx, outcome):
        R = ctx["R"]
        return [("frame[registry unchanged]", ("C15", "C05"), not R.writes)]


# ------------------------------------------------------------------------------------------------
def conv_term(st, this_key, other_key, x):
    """spec function conv: frombase_of_target(tobase_of_source(x))"""
    return app(z3.Select(st["U_fb"], other_key), app(z3.Select(st["U_tb"], this_key), x))


VALUE_KINDS = ("float", "int", "list", "tuple", "ndarray")


@register
class ConvertSpec(FunctionSpec):
    """UnitDatabase.Convert with plain unit strings.
    same unit: result *is* value;  otherwise the quantity type is resolved (category → its type),
    both units are resolved by GetInfo(fix_unknown=True) and result = conv(from,to)(value),
    elementwise and kind-preserving for list / tuple / ndarray."""

    probe = "db_lookup"

    fq = UDB + ":UnitDatabase.Convert"
    props = ("C01", "C02", "C05", "C16")
    callees = (UDB + ":UnitDatabase.GetInfo",)

    def variants(self, tier):
        return list(VALUE_KINDS)

    def make_value(self, I, kind):
        P = I.P
        if kind == "float":
            return SNum(z3.Real("value"), "float")
        if kind == "int":
            return SNum(z3.Int("value_i"), "int")
        if kind in ("list", "tuple"):
            return symseq.fresh_seq(P, kind)
        if kind == "ndarray":
            return symseq.fresh_seq(P, "numpy.ndarray")
        raise ValueError(kind)

    def setup(self, I, variant):
        symseq.install(I.P)
        db, R = make_db(I)
        install_additional_conversions(I)
        v = self.make_value(I, variant)
        c, fu, tu = nm("cat_or_qt"), nm("from_unit"), nm("to_unit")
        return {
            "f": bound(I, db, "Convert"),
            "args": [c, fu, tu, v],
            "R": R,
            "st": R.snapshot(),
            "category_or_quantity_type": c,
            "from_unit": fu,
            "to_unit": tu,
            "value": v,
        }

    def bind_call(self, I, f, args, kwargs):
        ctx = FunctionSpec.bind_call(self, I, f, args, kwargs)
        R = I.P.ghost["reg"]
        ctx["R"] = R
        ctx["st"] = R.snapshot()
        return ctx

    def inline_when(self, I, f, args, kwargs):
        # exponent forms (lists/tuples of (unit, exp)) and non-numeric payloads: real body
        a = list(args[1:]) + [kwargs.get(k) for k in ("category_or_quantity_type", "from_unit", "to_unit") if k in kwargs]
        if not all(isinstance(x, SStr) for x in a[:3]):
            return True
        v = a[3] if len(a) > 3 else kwargs.get("value")
        return not isinstance(v, (SNum, symseq.SymSeq))

    def cases(self, I, ctx):
        R, st = ctx["R"], ctx["st"]
        c, fu, tu, v = ctx["category_or_quantity_type"], ctx["from_unit"], ctx["to_unit"], ctx["value"]
        if not (isinstance(c, SStr) and isinstance(fu, SStr) and isinstance(tu, SStr)):
            raise OutOfSubset("Convert contract covers plain string arguments only")
        S = z3.Select
        c, fu, tu = c.name, fu.name, tu.name
        same = fu == tu
        out = [ret("same-unit", same, v, props=("C01", "C02"))]
        isq = S(st["C_dom"], c)
        qt = z3.If(isq, S(st["C_qt"], c), c)
        noqt = z3.And(z3.Not(same), z3.Not(isq), z3.Not(S(st["Q_dom"], c)))
        out.append(rai("no-quantity-type", noqt, "InvalidQuantityTypeError", props=("C05",)))
        pre = z3.And(z3.Not(same), z3.Or(isq, S(st["Q_dom"], c)))
        for n1, g1, k1, x1 in getinfo_cases(R, st, qt, fu, True, True):
            if k1 == "raise":
                out.append(rai("from:%s" % n1, z3.And(pre, g1), x1, props=("C05",)))
                continue
            for n2, g2, k2, x2 in getinfo_cases(R, st, qt, tu, True, True):
                g = z3.And(pre, g1, g2)
                if k2 == "raise":
                    out.append(rai("from:%s/to:%s" % (n1, n2), g, x2, props=("C05",)))
                    continue
                pr = ("C01", "C02") if (n1, n2) == ("direct", "direct") else (("C16",) if "legacy" in (n1, n2) else ("C02",))
                out.append(ret("from:%s/to:%s" % (n1, n2), g, props=pr, check=self.value_check(ctx, st, x1, x2), value=self.value_of(ctx, st, x1, x2) if ctx.get("$call") else None))
        return out

    def value_of(self, ctx, st, k1, k2):
        """summary side: the converted value the contract promises"""
        v = ctx["value"]

        def mk(I):
            if isinstance(v, SNum):
                return SNum(conv_term(st, k1, k2, v.real()), "float")
            if isinstance(v, symseq.SymSeq):
                return v.map_term(I, lambda e: conv_term(st, k1, k2, e))
            raise OutOfSubset("Convert summary on %r" % (v,))

        return mk

    def value_check(self, ctx, st, k1, k2):
        v = ctx["value"]

        def chk(I, res):
            if isinstance(v, SNum):
                if not isinstance(res, SNum):
                    return False
                return res.real() == conv_term(st, k1, k2, v.real())
            if isinstance(v, symseq.SymSeq):
                if not (isinstance(res, symseq.SymSeq) and res.kind == v.kind):
                    return False
                j = z3.Int("j!spec")
                return z3.And(
                    res.token != v.token,
                    res.n == v.n,
                    z3.ForAll(
                        [j],
                        z3.Implies(
                            z3.And(j >= 0, j < v.n),
                            z3.Select(res.elems, j) == conv_term(st, k1, k2, z3.Select(v.elems, j)),
                        ),
                    ),
                )
            return False

        return chk

    def extra_obligations(self, I, ctx, outcome):
        R = ctx["R"]
        return [("frame[registry unchanged]", ("C15", "C05", "C13"), not R.writes)]


def install_additional_conversions(I):
    """UnitDatabase._additional_conversions as the module-level registration calls leave it
    (the two Register* classmethods are executed from their real AST)."""
    P = I.P
    repo = I.repo
    d = SRef(P.alloc(HDict()))
    P.ghost.setdefault("classattrs", {})[("UnitDatabase", "_additional_conversions")] = d
    mark = len(P.writes)
    cls = SClass(repo.cls(UDB + ":RegisterConversion"))
    I.call(I.getattr(cls, "RegisterNumpyConversion"), [], {})
    fs = SClass(repo.cls("barril.units._fraction_scalar:FractionScalar"))
    I.call(I.getattr(fs, "RegisterFractionScalarConversion"), [], {})
    del P.writes[mark:]
    d.o.region = "class-state"
    return d
