"""Contracts for barril.units.unit_database (sidecar; the repository file is not edited)."""
import z3

from pyvc.engine import NameS, FnS, RealS, IntS, app, fixf, lit, PyRaise, OutOfSubset, upow
from pyvc.values import *
from pyvc.interp import to_z3b
from pyvc.contract import FunctionSpec, Case, ret, rai, register, REGISTRY
from pyvc.registry import make_db, RegInfo, RegCat, Reg, ident, UNKNOWN_QT, UNKNOWN_UNIT
from pyvc import symseq

UDB = "barril.units.unit_database"
F = z3.BoolVal(False)
T = z3.BoolVal(True)


def nm(base):
    return sname(z3.Const(base, NameS))


def bound(I, db, meth):
    return I.getattr(db, meth)


# ------------------------------------------------------------------------------------------------
@register
class FixUnitIfIsLegacySpec(FunctionSpec):
    """result = (unit != fix(unit), fix(unit)) where fix is *the* rewriting the function computes
    (a pure function of the text).  Its ground behaviour on every table symbol and every legacy
    spelling is what the C16 table obligations establish by running the real body."""

    fq = UDB + ":FixUnitIfIsLegacy"
    props = ("C16",)

    def bind_call(self, I, f, args, kwargs):
        return {"unit": args[0] if args else kwargs["unit"]}

    def cases(self, I, ctx):
        u = ctx["unit"]
        if not isinstance(u, SStr):
            # the bare except turns every failure into (False, unit)
            return [ret("non-str", T, STuple([SBool(False), u]))]
        if u.py is not None:
            # literal text: run the real body
            f = SFunc(I.repo.func(self.fq))
            r = I.call_function(f, [u], {}, force_inline=True)
            fixed = r.items[1]
            I.P.assume(fixf(u.name) == fixed.name, "def:fix(literal)")
            return [ret("literal", T, r)]
        n = u.name
        return [ret("fix", T, STuple([SBool(n != fixf(n)), sname(fixf(n))]))]


# ------------------------------------------------------------------------------------------------
def getinfo_cases(R, st, qt, u, fix_unknown, fix_legacy, props=()):
    """Appendix D: the six cases of GetInfo over the registry view (all guards over state st).
    Returns [(name, guard, 'info', key) | (name, guard, 'raise', exc)]"""
    S = z3.Select
    hit = lambda q, x: R.hit(q, x, st)
    qt2 = R.qt_of(qt, st)
    c1 = hit(qt, u)
    noqt = z3.And(z3.Not(c1), z3.Not(S(st["Q_dom"], qt2)))
    c3 = z3.And(z3.Not(c1), S(st["Q_dom"], qt2), hit(qt2, u))
    rest = z3.And(z3.Not(c1), S(st["Q_dom"], qt2), z3.Not(hit(qt2, u)))
    unk = z3.And(qt2 == lit(UNKNOWN_QT), hit(lit(UNKNOWN_QT), lit(UNKNOWN_UNIT))) if fix_unknown else F
    c4 = z3.And(rest, unk)
    leg = z3.And(fixf(u) != u, hit(qt2, fixf(u))) if fix_legacy else F
    c5 = z3.And(rest, z3.Not(unk), leg)
    c6 = z3.And(rest, z3.Not(unk), z3.Not(leg))
    return [
        ("direct", c1, "info", u),
        ("no-quantity-type", noqt, "raise", "InvalidQuantityTypeError"),
        ("via-category", c3, "info", u),
        ("unknown", c4, "info", lit(UNKNOWN_UNIT)),
        ("legacy", c5, "info", fixf(u)),
        ("invalid-unit", c6, "raise", "InvalidUnitError"),
    ]


@register
class GetInfoSpec(FunctionSpec):

    probe = "db_lookup"
    fq = UDB + ":UnitDatabase.GetInfo"
    props = ("C01", "C02", "C05", "C16")
    callees = (UDB + ":FixUnitIfIsLegacy",)
    case_props = {
        "direct": ("C01", "C02"),
        "via-category": ("C02",),
        "no-quantity-type": ("C05",),
        "invalid-unit": ("C05",),
        "unknown": ("C05",),
        "legacy": ("C16",),
    }

    def variants(self, tier):
        return [(fu, fl) for fu in (False, True) for fl in (False, True)]

    def setup(self, I, variant):
        fu, fl = variant
        db, R = make_db(I)
        return {
            "f": bound(I, db, "GetInfo"),
            "args": [nm("qt"), nm("unit")],
            "kwargs": {"fix_unknown": SBool(fu), "fix_legacy": SBool(fl)},
            "R": R,
            "st": R.snapshot(),
            "quantity_type": nm("qt"),
            "unit": nm("unit"),
            "fix_unknown": SBool(fu),
            "fix_legacy": SBool(fl),
        }

    def bind_call(self, I, f, args, kwargs):
        ctx = FunctionSpec.bind_call(self, I, f, args, kwargs)
        R = I.P.ghost["reg"]
        ctx["R"] = R
        ctx["st"] = R.snapshot()
        return ctx

    def cases(self, I, ctx):
        R = ctx["R"]
        qt, u = ctx["quantity_type"], ctx["unit"]
        if not (isinstance(qt, SStr) and isinstance(u, SStr)):
            raise OutOfSubset("GetInfo with non-string arguments")
        fu, fl = ctx["fix_unknown"].concrete(), ctx["fix_legacy"].concrete()
        if fu is None or fl is None:
            raise OutOfSubset("GetInfo with symbolic flags")
        out = []
        for name, g, kind, x in getinfo_cases(R, ctx["st"], qt.name, u.name, fu, fl):
            pr = self.case_props[name]
            if kind == "info":
                def mk(I, x=x):
                    R.on_unit(x)
                    return RegInfo(R, x)

                out.append(ret(name, g, mk, props=pr))
            else:
                out.append(rai(name, g, x, props=pr))
        return out

    def allowed_write(self, I, ctx, obj, what):
        return FunctionSpec.allowed_write(self, I, ctx, obj, what)

    def extra_obligations(self, I, ctx, outcome):
        R = ctx["R"]
        return [("frame[registry unchanged]", ("C15", "C05"), not R.writes)]


# ------------------------------------------------------------------------------------------------
def conv_term(st, this_key, other_key, x):
    """spec function conv: frombase_of_target(tobase_of_source(x))"""
    return app(z3.Select(st["U_fb"], other_key), app(z3.Select(st["U_tb"], this_key), x))


VALUE_KINDS = ("float", "int", "list", "tuple", "ndarray")


@register
class ConvertSpec(FunctionSpec):
    """UnitDatabase.Convert with plain unit strings.
    same unit: result *is* value;  otherwise the quantity type is resolved (category → its type),
    both units are resolved by GetInfo(fix_unknown=True) and result = conv(from,to)(value),
    elementwise and kind-preserving for list / tuple / ndarray."""

    probe = "db_lookup"

    fq = UDB + ":UnitDatabase.Convert"
    props = ("C01", "C02", "C05", "C16")
    callees = (UDB + ":UnitDatabase.GetInfo",)

    def variants(self, tier):
        return list(VALUE_KINDS)

    def make_value(self, I, kind):
        P = I.P
        if kind == "float":
            return SNum(z3.Real("value"), "float")
        if kind == "int":
            return SNum(z3.Int("value_i"), "int")
        if kind in ("list", "tuple"):
            return symseq.fresh_seq(P, kind)
        if kind == "ndarray":
            return symseq.fresh_seq(P, "numpy.ndarray")
        raise ValueError(kind)

    def setup(self, I, variant):
        symseq.install(I.P)
        db, R = make_db(I)
        install_additional_conversions(I)
        v = self.make_value(I, variant)
        c, fu, tu = nm("cat_or_qt"), nm("from_unit"), nm("to_unit")
        return {
            "f": bound(I, db, "Convert"),
            "args": [c, fu, tu, v],
            "R": R,
            "st": R.snapshot(),
            "category_or_quantity_type": c,
            "from_unit": fu,
            "to_unit": tu,
            "value": v,
        }

    def bind_call(self, I, f, args, kwargs):
        ctx = FunctionSpec.bind_call(self, I, f, args, kwargs)
        R = I.P.ghost["reg"]
        ctx["R"] = R
        ctx["st"] = R.snapshot()
        return ctx

    def inline_when(self, I, f, args, kwargs):
        # exponent forms (lists/tuples of (unit, exp)) and non-numeric payloads: real body
        a = list(args[1:]) + [kwargs.get(k) for k in ("category_or_quantity_type", "from_unit", "to_unit") if k in kwargs]
        if not all(isinstance(x, SStr) for x in a[:3]):
            return True
        v = a[3] if len(a) > 3 else kwargs.get("value")
        return not isinstance(v, (SNum, symseq.SymSeq))

    def cases(self, I, ctx):
        R, st = ctx["R"], ctx["st"]
        c, fu, tu, v = ctx["category_or_quantity_type"], ctx["from_unit"], ctx["to_unit"], ctx["value"]
        if not (isinstance(c, SStr) and isinstance(fu, SStr) and isinstance(tu, SStr)):
            raise OutOfSubset("Convert contract covers plain string arguments only")
        S = z3.Select
        c, fu, tu = c.name, fu.name, tu.name
        same = fu == tu
        out = [ret("same-unit", same, v, props=("C01", "C02"))]
        isq = S(st["C_dom"], c)
        qt = z3.If(isq, S(st["C_qt"], c), c)
        noqt = z3.And(z3.Not(same), z3.Not(isq), z3.Not(S(st["Q_dom"], c)))
        out.append(rai("no-quantity-type", noqt, "InvalidQuantityTypeError", props=("C05",)))
        pre = z3.And(z3.Not(same), z3.Or(isq, S(st["Q_dom"], c)))
        for n1, g1, k1, x1 in getinfo_cases(R, st, qt, fu, True, True):
            if k1 == "raise":
                out.append(rai("from:%s" % n1, z3.And(pre, g1), x1, props=("C05",)))
                continue
            for n2, g2, k2, x2 in getinfo_cases(R, st, qt, tu, True, True):
                g = z3.And(pre, g1, g2)
                if k2 == "raise":
                    out.append(rai("from:%s/to:%s" % (n1, n2), g, x2, props=("C05",)))
                    continue
                pr = ("C01", "C02") if (n1, n2) == ("direct", "direct") else (("C16",) if "legacy" in (n1, n2) else ("C02",))
                out.append(ret("from:%s/to:%s" % (n1, n2), g, props=pr, check=self.value_check(ctx, st, x1, x2), value=self.value_of(ctx, st, x1, x2) if ctx.get("$call") else None))
        return out

    def value_of(self, ctx, st, k1, k2):
        """summary side: the converted value the contract promises"""
        v = ctx["value"]

        def mk(I):
            if isinstance(v, SNum):
                return SNum(conv_term(st, k1, k2, v.real()), "float")
            if isinstance(v, symseq.SymSeq):
                return v.map_term(I, lambda e: conv_term(st, k1, k2, e))
            raise OutOfSubset("Convert summary on %r" % (v,))

        return mk

    def value_check(self, ctx, st, k1, k2):
        v = ctx["value"]

        def chk(I, res):
            if isinstance(v, SNum):
                if not isinstance(res, SNum):
                    return False
                return res.real() == conv_term(st, k1, k2, v.real())
            if isinstance(v, symseq.SymSeq):
                if not (isinstance(res, symseq.SymSeq) and res.kind == v.kind):
                    return False
                j = z3.Int("j!spec")
                return z3.And(
                    res.token != v.token,
                    res.n == v.n,
                    z3.ForAll(
                        [j],
                        z3.Implies(
                            z3.And(j >= 0, j < v.n),
                            z3.Select(res.elems, j) == conv_term(st, k1, k2, z3.Select(v.elems, j)),
                        ),
                    ),
                )
            return False

        return chk

    def extra_obligations(self, I, ctx, outcome):
        R = ctx["R"]
        return [("frame[registry unchanged]", ("C15", "C05", "C13"), not R.writes)]


def install_additional_conversions(I):
    """UnitDatabase._additional_conversions as the module-level registration calls leave it
    (the two Register* classmethods are executed from their real AST)."""
    P = I.P
    repo = I.repo
    d = SRef(P.alloc(HDict()))
    P.ghost.setdefault("classattrs", {})[("UnitDatabase", "_additional_conversions")] = d
    mark = len(P.writes)
    cls = SClass(repo.cls(UDB + ":RegisterConversion"))
    I.call(I.getattr(cls, "RegisterNumpyConversion"), [], {})
    fs = SClass(repo.cls("barril.units._fraction_scalar:FractionScalar"))
    I.call(I.getattr(fs, "RegisterFractionScalarConversion"), [], {})
    del P.writes[mark:]
    d.o.region = "class-state"
    return d


# ------------------------------------------------------------------------------------------------
# ratio of a scale-only pair of units (conv(u, w)(x) == ratio(u, w) * x) -- shared vocabulary of the
# exponent-aware conversion and of the arithmetic contracts
ratio = z3.Function("ratio", NameS, NameS, RealS)
scale_only = z3.Function("scale_only", NameS, NameS, z3.BoolSort())


def resolve_unit(R, st, qt, u):
    """GetInfo(qt, u, fix_unknown=True, fix_legacy=True) folded into (resolves, key, noqt, invalid)"""
    ok, key, noqt, inv = [], u, [], []
    for n, g, k, x in getinfo_cases(R, st, qt, u, True, True):
        if k == "raise":
            (noqt if x == "InvalidQuantityTypeError" else inv).append(g)
        else:
            ok.append(g)
            if n in ("unknown", "legacy"):
                key = z3.If(g, x, key)
    return z3.Or(*ok), key, z3.Or(*noqt) if noqt else F, z3.Or(*inv) if inv else F


def power_facts(P, st, k1, k2, r, e_real, direct=()):
    """Hypotheses of the power-law clause (assumption A15: math.pow is the real power function, which
    stays uninterpreted; `scale-only pair` means conv(k1,k2)(x) == r*x and conv(k2,k1)(x) == x/r, r > 0).
    They are ground instances over the math.pow applications p = x**y recorded on the path:
        x > 0 ==> p > 0 ;  x == 0, y > 0 ==> p == 0
        inner p1 = x1**y1, outer p2 = x2**y2 with y1*y2 == 1 (decided separately), x1 >= 0:
            x2 == conv(k1,k2)(p1) ==> p2 == x1 * r**y2        and x2 > 0 <=> p1 > 0
            x2 == conv(k2,k1)(p1) ==> p2 == x1 * (1/r)**y2    and x2 > 0 <=> p1 > 0
            x2 == p1              ==> p2 == x1
        (1/r)**y == r**(-y);  r**y > 0;  r**y == r <=> (r == 1 or y == 1)"""
    apps = P.ghost.get("upow_apps", [])
    one = z3.RealVal(1)
    out = [r > 0]
    ys = [e_real]
    for x, y, p in apps:
        out.append(z3.Implies(x > 0, p > 0))
        out.append(z3.Implies(z3.And(x == 0, y > 0), p == 0))
        ys.append(y)
    for x2, y2, p2 in apps:
        for x1, y1, p1 in apps:
            if p1 is p2:
                continue
            if not P.valid(y1 * y2 == 1):
                continue
            c12, c21 = conv_term(st, k1, k2, p1), conv_term(st, k2, k1, p1)
            out.append(z3.Implies(z3.And(x1 >= 0, x2 == c12), z3.And(p2 == x1 * upow(r, y2), (x2 > 0) == (p1 > 0), (x2 == 0) == (p1 == 0))))
            out.append(z3.Implies(z3.And(x1 >= 0, x2 == c21), z3.And(p2 == x1 * upow(one / r, y2), (x2 > 0) == (p1 > 0), (x2 == 0) == (p1 == 0))))
            out.append(z3.Implies(z3.And(x1 >= 0, x2 == p1), p2 == x1))
    for t in direct:
        # the scale-only pair on the values converted without a root
        out += [conv_term(st, k1, k2, t) == r * t, conv_term(st, k2, k1, t) == t / r]
    for y in ys:
        out += [z3.Implies(y == 1, upow(r, y) == r), z3.Implies(y == -1, upow(r, y) == one / r)]
        out += [upow(r, y) > 0, upow(one / r, y) > 0, upow(one / r, y) == upow(r, -y), upow(one / r, -y) == upow(r, y), (upow(r, y) == r) == z3.Or(r == 1, y == 1)]
    return out


@register
class ConvertWithExpSpec(FunctionSpec):
    """UnitDatabase._ConvertWithExp(quantity_type, [(from_unit, e)], [(to_unit, e)], value) -- the
    re-expression of an amount given in a power of a unit (C02 route; the second reading of C06):
    for a scale-only pair of units with ratio r (conv(from,to)(x) == r*x) the amount v [from**e] is
    v * r**e [to**e], for every finite v (negative and zero included) and every integer e != 0.
    e == 1 is the plain conversion; empty unit lists leave the value alone; more than one unit or
    differing exponents are errors."""

    fq = UDB + ":UnitDatabase._ConvertWithExp"
    props = ("C02", "C06")
    callees = (UDB + ":UnitDatabase.Convert",)
    probe = "convert_exp"

    def variants(self, tier):
        return [(1, 1), (0, 1), (1, 0), (0, 0), (2, 1), (1, 2)]

    def setup(self, I, variant):
        symseq.install(I.P)
        db, R = make_db(I)
        install_additional_conversions(I)
        P = I.P
        k1, k2 = variant

        def mk(tag, k):
            items = []
            for i in range(k):
                items.append(STuple([nm("%s_unit%d" % (tag, i)), SNum(z3.Int("%s_exp%d" % (tag, i)), "int")]))
            return SRef(P.alloc(HList(items, region="caller")))

        fl, tl = mk("from", k1), mk("to", k2)
        v = SNum(z3.Real("value"), "float")
        qt = nm("qt")
        return {"f": bound(I, db, "_ConvertWithExp"), "args": [qt, fl, tl, v], "R": R, "st": R.snapshot(), "quantity_type": qt, "from_unit_exps": fl, "to_unit_exps": tl, "value": v}

    def bind_call(self, I, f, args, kwargs):
        ctx = FunctionSpec.bind_call(self, I, f, args, kwargs)
        R = I.P.ghost["reg"]
        ctx["R"] = R
        ctx["st"] = R.snapshot()
        return ctx

    @staticmethod
    def pairs(x):
        if isinstance(x, SRef) and isinstance(x.o, HList):
            items = x.o.items
        elif isinstance(x, STuple):
            items = x.items
        else:
            raise OutOfSubset("_ConvertWithExp with %r" % (x,))
        for it in items:
            if not (isinstance(it, STuple) and len(it.items) == 2 and isinstance(it.items[0], SStr) and isinstance(it.items[1], SNum)):
                raise OutOfSubset("_ConvertWithExp unit/exponent pair %r" % (it,))
        return items

    def cases(self, I, ctx):
        R, st = ctx["R"], ctx["st"]
        fi, ti, v, qtv = self.pairs(ctx["from_unit_exps"]), self.pairs(ctx["to_unit_exps"]), ctx["value"], ctx["quantity_type"]
        if not (isinstance(qtv, SStr) and isinstance(v, SNum)):
            raise OutOfSubset("_ConvertWithExp on %r / %r" % (qtv, v))
        call = ctx.get("$call")
        if not fi or not ti:
            return [ret("no-units: value untouched", T, v, props=("C02",))]
        if len(fi) != 1 or len(ti) != 1:
            return [rai("composed-unit", T, "ComposedUnitError", props=("C05",))]
        S = z3.Select
        fu, fe = fi[0].items[0].name, fi[0].items[1].t
        tu, te = ti[0].items[0].name, ti[0].items[1].t
        c = qtv.name
        vr = v.real()
        e_real = z3.ToReal(fe)
        one = z3.RealVal(1)
        P = I.P

        def num(expected):
            return lambda I, res: res.real() == expected if isinstance(res, SNum) else F

        def val(expected):
            return (lambda I: SNum(expected, "float")) if call else None

        out = [rai("different-exponents", fe != te, "ValueError", props=("C05",))]
        out.append(Case("exponent-0", z3.And(fe == te, fe == 0), "any"))
        ok = z3.And(fe == te, fe != 0)
        same = fu == tu
        isq = S(st["C_dom"], c)
        qt = z3.If(isq, S(st["C_qt"], c), c)
        r1, k1, nq1, iv1 = resolve_unit(R, st, qt, fu)
        r2, k2, nq2, iv2 = resolve_unit(R, st, qt, tu)
        # the same unit on both sides: the amount is the value, whatever the power
        out.append(ret("same-unit", z3.And(ok, same), props=("C02",), check=num(vr), value=val(vr), facts=lambda I: power_facts(I.P, st, k1, k1, one, e_real)))
        pre0 = z3.And(ok, z3.Not(same))
        knownqt = z3.Or(isq, S(st["Q_dom"], c))
        out.append(rai("no-quantity-type", z3.And(pre0, z3.Not(knownqt)), "InvalidQuantityTypeError", props=("C05",)))
        pre = z3.And(pre0, knownqt)
        # a unit that does not resolve is an error whichever side it is on (which side is reported
        # first is not specified when the two sides fail differently)
        out.append(rai("unit-of-unregistered-type", z3.And(pre, z3.Or(nq1, nq2), z3.Not(z3.Or(iv1, iv2))), "InvalidQuantityTypeError", props=("C05",)))
        out.append(rai("invalid-unit", z3.And(pre, z3.Or(iv1, iv2), z3.Not(z3.Or(nq1, nq2))), "InvalidUnitError", props=("C05",)))
        out.append(Case("two-different-errors", z3.And(pre, z3.Or(iv1, iv2), z3.Or(nq1, nq2)), "any"))
        good = z3.And(pre, r1, r2)
        out.append(ret("exponent-1: plain conversion", z3.And(good, fe == 1), props=("C02",), check=num(conv_term(st, k1, k2, vr)), value=val(conv_term(st, k1, k2, vr))))
        r = ratio(k1, k2)
        lin = scale_only(k1, k2)
        gp = z3.And(good, fe != 1)
        expected = vr * upow(r, e_real)
        out.append(ret("power-law: v * r**e", z3.And(gp, lin), props=("C02", "C06"), check=num(expected), value=val(expected), facts=lambda I: power_facts(I.P, st, k1, k2, r, e_real, direct=(vr,))))
        out.append(Case("not-scale-only", z3.And(gp, z3.Not(lin)), "any"))
        return out

    def extra_obligations(self, I, ctx, outcome):
        R = ctx["R"]
        return [("frame[registry unchanged]", ("C15", "C05", "C13"), not R.writes)]


@register
class ConvertExponentFormsSpec(FunctionSpec):
    """UnitDatabase.Convert with (unit, exponent) lists / tuples on either side (the public entry of
    the exponent route; Quantity.Convert of a derived quantity calls it with the composing categories
    as a one-element list).  A plain string side means exponent 1; identical sides return the value
    itself; otherwise the result is that of the _ConvertWithExp contract."""

    fq = UDB + ":UnitDatabase.Convert"
    key = UDB + ":UnitDatabase.Convert#exponent-forms"
    props = ("C02", "C06")
    callees = (UDB + ":UnitDatabase._ConvertWithExp",)
    probe = "convert_exp"

    def variants(self, tier):
        out = []
        for qf in ("str", "list1"):
            for ff, tf in (("list1", "list1"), ("tuple1", "tuple1"), ("list1", "tuple1"), ("str", "list1"), ("list1", "str"), ("list2", "list2"), ("list0", "list1")):
                out.append((qf, ff, tf))
        return out

    def setup(self, I, variant):
        symseq.install(I.P)
        db, R = make_db(I)
        install_additional_conversions(I)
        P = I.P
        qf, ff, tf = variant

        def mk(tag, form):
            if form == "str":
                u = nm(tag + "_unit0")
                return u, [STuple([u, SNum(1)])]
            k = int(form[-1])
            items = [STuple([nm("%s_unit%d" % (tag, i)), SNum(z3.Int("%s_exp%d" % (tag, i)), "int")]) for i in range(k)]
            if form.startswith("tuple"):
                return STuple(items), items
            return SRef(P.alloc(HList(items, region="caller"))), items

        fa, fi = mk("from", ff)
        ta, ti = mk("to", tf)
        qt = nm("qt")
        qa = qt if qf == "str" else SRef(P.alloc(HList([qt], region="caller")))
        v = SNum(z3.Real("value"), "float")
        return {"f": bound(I, db, "Convert"), "args": [qa, fa, ta, v], "R": R, "st": R.snapshot(), "qt": qt, "fi": fi, "ti": ti, "value": v, "forms": (ff, tf)}

    def cases(self, I, ctx):
        fi, ti, v = ctx["fi"], ctx["ti"], ctx["value"]
        ff, tf = ctx["forms"]
        inner = REGISTRY[UDB + ":UnitDatabase._ConvertWithExp"]
        sub = {"R": ctx["R"], "st": ctx["st"], "quantity_type": ctx["qt"], "from_unit_exps": STuple(fi), "to_unit_exps": STuple(ti), "value": v}
        cs = inner.cases(I, sub)
        # identical sides (same container kind, same pairs): the value itself comes back
        kind = lambda f: "tuple" if f.startswith("tuple") else "list"
        if kind(ff) == kind(tf) and len(fi) == len(ti):
            same = z3.And(*[z3.And(a.items[0].name == b.items[0].name, a.items[1].real() == b.items[1].real()) for a, b in zip(fi, ti)]) if fi else T
            out = [ret("identical-sides: the value itself", same, v, props=("C02",))]
            for c in cs:
                c.guard = z3.And(z3.Not(same), c.guard)
                out.append(c)
            return out
        return cs

    def extra_obligations(self, I, ctx, outcome):
        R = ctx["R"]
        return [("frame[registry unchanged]", ("C15", "C05", "C13"), not R.writes)]


@register
class ConvertMatchedValueSpec(FunctionSpec):
    """UnitDatabase._ConvertMatchedValue(quantity_type, from_unit, to_unit, exp, value): the re-expression
    of an operand's amount(s) during unit matching, for every value kind the operations hand over (float,
    list, tuple, ndarray): exponent 1 or equal units is Convert's contract; otherwise, for a scale-only
    pair, every element is scaled by ratio**exp, in a new container of the same kind and length (the
    operand's own container is never written)."""

    fq = UDB + ":UnitDatabase._ConvertMatchedValue"
    props = ("C03", "C04", "C10", "C13")
    callees = (UDB + ":UnitDatabase.Convert", UDB + ":UnitDatabase._ConvertWithExp")
    probe = "array_powers"

    def variants(self, tier):
        return ["float", "list", "tuple", "ndarray"]

    def setup(self, I, variant):
        symseq.install(I.P)
        db, R = make_db(I)
        install_additional_conversions(I)
        v = REGISTRY[UDB + ":UnitDatabase.Convert"].make_value(I, variant)
        if isinstance(v, symseq.SymSeq):
            v.region = "param"
        qt, fu, tu = nm("qt"), nm("from_unit"), nm("to_unit")
        e = SNum(z3.Int("exp"), "int")
        ctx = {"f": bound(I, db, "_ConvertMatchedValue"), "args": [qt, fu, tu, e, v], "R": R, "st": R.snapshot(), "quantity_type": qt, "from_unit": fu, "to_unit": tu, "exp": e, "value": v}
        if isinstance(v, symseq.SymSeq):
            ctx["elems0"], ctx["n0"] = v.elems, v.n
        return ctx

    def cases(self, I, ctx):
        R, st = ctx["R"], ctx["st"]
        qt, fu, tu, e, v = ctx["quantity_type"], ctx["from_unit"], ctx["to_unit"], ctx["exp"], ctx["value"]
        S = z3.Select
        plain = z3.Or(e.t == 1, fu.name == tu.name)
        out = []
        sub = {"R": R, "st": st, "category_or_quantity_type": qt, "from_unit": fu, "to_unit": tu, "value": v}
        for c in REGISTRY[UDB + ":UnitDatabase.Convert"].cases(I, sub):
            c.guard = z3.And(plain, c.guard)
            c.name = "plain/" + c.name
            out.append(c)
        pw = z3.Not(plain)
        out.append(Case("exponent-0", z3.And(pw, e.t == 0), "any"))
        ok = z3.And(pw, e.t != 0)
        c = qt.name
        isq = S(st["C_dom"], c)
        q = z3.If(isq, S(st["C_qt"], c), c)
        r1, k1, nq1, iv1 = resolve_unit(R, st, q, fu.name)
        r2, k2, nq2, iv2 = resolve_unit(R, st, q, tu.name)
        knownqt = z3.Or(isq, S(st["Q_dom"], c))
        out.append(rai("power/no-quantity-type", z3.And(ok, z3.Not(knownqt)), "InvalidQuantityTypeError", props=("C05",)))
        pre = z3.And(ok, knownqt)
        out.append(rai("power/unit-of-unregistered-type", z3.And(pre, z3.Or(nq1, nq2), z3.Not(z3.Or(iv1, iv2))), "InvalidQuantityTypeError", props=("C05",)))
        out.append(rai("power/invalid-unit", z3.And(pre, z3.Or(iv1, iv2), z3.Not(z3.Or(nq1, nq2))), "InvalidUnitError", props=("C05",)))
        out.append(Case("power/two-different-errors", z3.And(pre, z3.Or(iv1, iv2), z3.Or(nq1, nq2)), "any"))
        good = z3.And(pre, r1, r2)
        lin = scale_only(k1, k2)
        factor = upow(ratio(k1, k2), z3.ToReal(e.t))

        def chk(I, res):
            if isinstance(v, SNum):
                return res.real() == v.real() * factor if isinstance(res, SNum) else F
            if not (isinstance(res, symseq.SymSeq) and res.kind == v.kind):
                return F
            j = z3.Int("j!spec")
            return z3.And(
                res.token != v.token,
                res.n == ctx["n0"],
                z3.ForAll([j], z3.Implies(z3.And(j >= 0, j < ctx["n0"]), z3.Select(res.elems, j) == z3.Select(ctx["elems0"], j) * factor)),
            )

        out.append(ret("power/scaled-by-ratio**exp", z3.And(good, lin), props=("C03", "C04", "C10"), check=chk))
        out.append(Case("power/not-scale-only", z3.And(good, z3.Not(lin)), "any"))
        return out

    def extra_obligations(self, I, ctx, outcome):
        R = ctx["R"]
        obs = [("frame[registry unchanged]", ("C15", "C05", "C13"), not R.writes)]
        v = ctx["value"]
        if isinstance(v, symseq.SymSeq):
            obs.append(("frame[the operand's container is unchanged]", ("C13",), z3.And(v.n == ctx["n0"], v.elems == ctx["elems0"])))
        return obs
