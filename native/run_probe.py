"""Run under /venv/bin/python:  run_probe.py <probe name> <json hint>  → one JSON line on stdout.
Replays a refuted obligation on the *real* code (the working tree the VCs were generated from)."""
import json
import os
import sys
import traceback

sys.path.insert(0, os.path.dirname(os.path.abspath(__file__)))


def main():
    name = sys.argv[1]
    hint = json.loads(sys.argv[2]) if len(sys.argv) > 2 else {}
    try:
        import probes

        fn = probes.PROBES[name]
        res = fn(hint)
    except Exception:
        res = {"reproduced": False, "error": traceback.format_exc()}
    print("PROBE-RESULT " + json.dumps(res, default=repr))


if __name__ == "__main__":
    main()
