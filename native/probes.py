"""Native replays: each probe turns a refutation (obligation + model hint) into concrete calls of
the real barril API and evaluates the violated clause natively.  A probe only *reproduces*; it never
decides an obligation."""
import math
import sys

PROBES = {}


def probe(name):
    def deco(fn):
        PROBES[name] = fn
        return fn

    return deco


def fresh_db(filler):
    from barril.units.unit_database import UnitDatabase

    db = UnitDatabase()
    if filler == "posc":
        UnitDatabase.FillUnitDatabaseWithPosc(db, fill_categories=True)
    elif filler == "posc_nocat":
        UnitDatabase.FillUnitDatabaseWithPosc(db, fill_categories=False)
    elif filler == "simple":
        UnitDatabase.FillSimple(db)
    else:
        raise ValueError(filler)
    return db


def num(s, default=1.0):
    """z3 model value text -> float"""
    try:
        s = str(s).replace("?", "")
        if "/" in s:
            a, b = s.split("/")
            return float(a) / float(b)
        return float(s)
    except Exception:
        return default


def close(a, b, rel=1e-9):
    if a == b:
        return True
    try:
        return abs(a - b) <= rel * max(1.0, abs(a), abs(b))
    except Exception:
        return False


@probe("c01_row")
def c01_row(h):
    """h: filler, unit, which (inverse_fb_tb | inverse_tb_fb | mono_tobase | mono_frombase | total_*), x, y"""
    db = fresh_db(h["filler"])
    info = db.unit_to_unit_info[h["unit"]]
    base = db.GetBaseUnit(info.quantity_type)
    xs = [num(h.get("x"), 1.0), 1.0, 0.0, -1.0, 2.5, 1e6, -273.15, 1e-3]
    ys = [num(h.get("y"), 2.0), 2.0, 1.0, 0.5, 3.5, 1e7, 100.0, 1.0]
    which = h["which"]
    qt = info.quantity_type
    for x, y in zip(xs, ys):
        try:
            if which == "inverse_fb_tb":
                r = db.Convert(qt, base, h["unit"], db.Convert(qt, h["unit"], base, x))
                if not close(r, x):
                    return {"reproduced": True, "call": "Convert(%r,%r,%r, Convert(%r,%r,%r,%r))" % (qt, base, h["unit"], qt, h["unit"], base, x), "observed": r, "expected": x}
            elif which == "inverse_tb_fb":
                r = db.Convert(qt, h["unit"], base, db.Convert(qt, base, h["unit"], x))
                if not close(r, x):
                    return {"reproduced": True, "call": "Convert(%r,%r,%r, Convert(%r,%r,%r,%r))" % (qt, h["unit"], base, qt, base, h["unit"], x), "observed": r, "expected": x}
            elif which in ("mono_tobase", "mono_frombase"):
                a, b = (x, y) if x < y else (y, x)
                if a == b:
                    continue
                args = (qt, h["unit"], base) if which == "mono_tobase" else (qt, base, h["unit"])
                ra, rb = db.Convert(*args, a), db.Convert(*args, b)
                if not ra < rb:
                    return {"reproduced": True, "call": "Convert%r on %r < %r" % (args, a, b), "observed": [ra, rb], "expected": "strictly increasing"}
            elif which.startswith("total"):
                args = (qt, h["unit"], base) if which == "total_tobase" else (qt, base, h["unit"])
                r = db.Convert(*args, x)
                if not (isinstance(r, float) and math.isfinite(r)):
                    return {"reproduced": True, "call": "Convert%r(%r)" % (args, x), "observed": r, "expected": "finite float"}
        except ZeroDivisionError as e:
            return {"reproduced": True, "call": "%s %r at %r" % (which, h["unit"], x), "observed": "ZeroDivisionError", "expected": "a number"}
    return {"reproduced": False, "tried": len(xs)}
