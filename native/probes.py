"""Native replays: each probe turns a refutation (obligation + model hint) into concrete calls of
the real barril API and evaluates the violated clause natively.  A probe only *reproduces*; it never
decides an obligation."""
import math
import sys

PROBES = {}


def probe(name):
    def deco(fn):
        PROBES[name] = fn
        return fn

    return deco


def fresh_db(filler):
    from barril.units.unit_database import UnitDatabase

    db = UnitDatabase()
    if filler == "posc":
        UnitDatabase.FillUnitDatabaseWithPosc(db, fill_categories=True)
    elif filler == "posc_nocat":
        UnitDatabase.FillUnitDatabaseWithPosc(db, fill_categories=False)
    elif filler == "simple":
        UnitDatabase.FillSimple(db)
    else:
        raise ValueError(filler)
    return db


def num(s, default=1.0):
    """z3 model value text -> float"""
    try:
        s = str(s).replace("?", "")
        if "/" in s:
            a, b = s.split("/")
            return float(a) / float(b)
        return float(s)
    except Exception:
        return default


def close(a, b, rel=1e-9):
    if a == b:
        return True
    try:
        return abs(a - b) <= rel * max(1.0, abs(a), abs(b))
    except Exception:
        return False


@probe("c01_row")
def c01_row(h):
    """h: filler, unit, which (inverse_fb_tb | inverse_tb_fb | mono_tobase | mono_frombase | total_*), x, y"""
    db = fresh_db(h["filler"])
    info = db.unit_to_unit_info[h["unit"]]
    base = db.GetBaseUnit(info.quantity_type)
    xs = [num(h.get("x"), 1.0), 1.0, 0.0, -1.0, 2.5, 1e6, -273.15, 1e-3]
    ys = [num(h.get("y"), 2.0), 2.0, 1.0, 0.5, 3.5, 1e7, 100.0, 1.0]
    which = h["which"]
    qt = info.quantity_type
    for x, y in zip(xs, ys):
        try:
            if which == "inverse_fb_tb":
                r = db.Convert(qt, base, h["unit"], db.Convert(qt, h["unit"], base, x))
                if not close(r, x):
                    return {"reproduced": True, "call": "Convert(%r,%r,%r, Convert(%r,%r,%r,%r))" % (qt, base, h["unit"], qt, h["unit"], base, x), "observed": r, "expected": x}
            elif which == "inverse_tb_fb":
                r = db.Convert(qt, h["unit"], base, db.Convert(qt, base, h["unit"], x))
                if not close(r, x):
                    return {"reproduced": True, "call": "Convert(%r,%r,%r, Convert(%r,%r,%r,%r))" % (qt, h["unit"], base, qt, base, h["unit"], x), "observed": r, "expected": x}
            elif which in ("mono_tobase", "mono_frombase"):
                a, b = (x, y) if x < y else (y, x)
                if a == b:
                    continue
                args = (qt, h["unit"], base) if which == "mono_tobase" else (qt, base, h["unit"])
                ra, rb = db.Convert(*args, a), db.Convert(*args, b)
                if not ra < rb:
                    return {"reproduced": True, "call": "Convert%r on %r < %r" % (args, a, b), "observed": [ra, rb], "expected": "strictly increasing"}
            elif which.startswith("total"):
                args = (qt, h["unit"], base) if which == "total_tobase" else (qt, base, h["unit"])
                r = db.Convert(*args, x)
                if not (isinstance(r, float) and math.isfinite(r)):
                    return {"reproduced": True, "call": "Convert%r(%r)" % (args, x), "observed": r, "expected": "finite float"}
        except ZeroDivisionError as e:
            return {"reproduced": True, "call": "%s %r at %r" % (which, h["unit"], x), "observed": "ZeroDivisionError", "expected": "a number"}
    return {"reproduced": False, "tried": len(xs)}


@probe("c16_fix")
def c16_fix(h):
    from barril.units.unit_database import FixUnitIfIsLegacy

    r = FixUnitIfIsLegacy(h["s"])
    ok = list(r) == list(h["expect"])
    return {"reproduced": not ok, "call": "FixUnitIfIsLegacy(%r)" % h["s"], "observed": list(r), "expected": h["expect"]}


@probe("c16_entry")
def c16_entry(h):
    db = fresh_db(h["filler"])
    l, u = h["legacy"], h["unit"]
    qt = db.unit_to_unit_info[u].quantity_type
    a, b = db.GetDefaultCategory(l), db.GetDefaultCategory(u)
    if a != b:
        return {"reproduced": True, "call": "GetDefaultCategory(%r) vs (%r)" % (l, u), "observed": a, "expected": b}
    try:
        i = db.GetInfo(qt, l)
        if i.unit != u:
            return {"reproduced": True, "call": "GetInfo(%r,%r).unit" % (qt, l), "observed": i.unit, "expected": u}
        base = db.GetBaseUnit(qt)
        x, y = db.Convert(qt, l, base, 2.5), db.Convert(qt, u, base, 2.5)
        if x != y:
            return {"reproduced": True, "call": "Convert(%r,%r,%r,2.5)" % (qt, l, base), "observed": x, "expected": y}
    except Exception as e:
        return {"reproduced": True, "call": "GetInfo/Convert with legacy %r" % l, "observed": repr(e), "expected": "same as %r" % u}
    return {"reproduced": False}


@probe("c19_defcat")
def c19_defcat(h):
    db = fresh_db(h["filler"])
    u = h["unit"]
    c = db.GetDefaultCategory(u)
    qt = db.unit_to_unit_info[u].quantity_type
    ok = c in db.categories_to_quantity_types and db.categories_to_quantity_types[c].quantity_type == qt
    if h["filler"] == "posc_nocat":
        ok = ok or c is None
    return {"reproduced": not ok, "call": "GetDefaultCategory(%r)" % u, "observed": c, "expected": "a registered category of quantity type %r" % qt}


@probe("filler_builds")
def filler_builds(h):
    try:
        fresh_db(h["filler"])
    except Exception as e:
        return {"reproduced": True, "call": "filler %s" % h["filler"], "observed": repr(e)[:500], "expected": "the filler completes"}
    return {"reproduced": False}


@probe("c14_wf")
def c14_wf(h):
    db = fresh_db(h["filler"])
    k = h["kind"]
    U, Q, C = db.unit_to_unit_info, db.quantity_types, db.categories_to_quantity_types
    if k == "unit":
        u = h["unit"]
        i = U[u]
        ok = i.unit == u and any(x is i for x in Q.get(i.quantity_type, []))
        return {"reproduced": not ok, "call": "unit_to_unit_info[%r]" % u, "observed": [i.unit, i.quantity_type], "expected": "listed under its own symbol in its quantity type"}
    if k in ("qt", "base"):
        qt = h["qt"]
        rows = Q[qt]
        syms = [r.unit for r in rows]
        ok = len(rows) > 0 and len(set(syms)) == len(syms) and all(U.get(r.unit) is r and r.quantity_type == qt for r in rows)
        if ok:
            b = rows[0]
            for x in (0.0, 1.0, -3.5, 1e6):
                if b.tobase(x) != x or b.frombase(x) != x:
                    return {"reproduced": True, "call": "quantity_types[%r][0] = %r on %r" % (qt, b.unit, x), "observed": [b.tobase(x), b.frombase(x)], "expected": "identity"}
        return {"reproduced": not ok, "call": "quantity_types[%r]" % qt, "observed": syms[:6], "expected": "non-empty, duplicate-free, registered"}
    if k == "cat":
        c = h["cat"]
        ci = C[c]
        us = [r.unit for r in Q.get(ci.quantity_type, [])]
        ok = ci.quantity_type in Q and ci.default_unit in us and (ci.valid_units is None or all(v in us for v in ci.valid_units)) and ci.valid_units_set == set(ci.valid_units or [])
        if ok:
            try:
                from barril.units import Scalar
                from barril.units.unit_database import UnitDatabase

                UnitDatabase.PushSingleton(db)
                try:
                    s = Scalar(c)
                    ok = s.IsValid()
                finally:
                    UnitDatabase.PopSingleton()
            except Exception as e:
                return {"reproduced": True, "call": "Scalar(%r)" % c, "observed": repr(e), "expected": "constructs"}
        return {"reproduced": not ok, "call": "categories[%r]" % c, "observed": [ci.quantity_type, ci.default_unit, ci.valid_units], "expected": "W3"}
    return {"reproduced": False}


# ------------------------------------------------------------------------------------------------
# value-object pools (instantiation of abstract names from the real database)


def pool_scalars():
    from barril.units import Scalar

    m = Scalar(2.0, "m")
    s = Scalar(4.0, "s")
    out = {
        "simple": [Scalar(1.5, "m"), Scalar(250.0, "cm", "depth"), Scalar(20.0, "degC"), Scalar(3.0, "psi")],
        "derived1": [m * m, m * m * m, Scalar(1.0, "m") / s / s],
        "derived2": [m / s, m * s, Scalar(3.0, "kg") / (m * m * m)],
    }
    return out


def other_units(q):
    db = q.GetUnitDatabase()
    try:
        us = [u for u in db.GetUnits(q.GetQuantityType()) if u != q.GetUnit()]
        pref = [u for u in ("cm", "km", "m", "ft", "in", "K", "degF", "degC", "Pa", "psi", "bar", "min", "h", "s") if u in us]
        return list(dict.fromkeys(us[:4] + pref))
    except Exception:
        return []


@probe("scalar_getvalue")
def scalar_getvalue(h):
    """C02: value in own unit is the stored value; value in another unit equals db.Convert"""
    pools = pool_scalars()
    kinds = [h.get("variant", ["simple"])[0]] if h.get("variant") else list(pools)
    for k in kinds + [x for x in pools if x not in kinds]:
        for s in pools[k]:
            try:
                r = s.GetValue(s.GetUnit())
                if r != s.GetValue():
                    return {"reproduced": True, "call": "%r.GetValue(%r)" % (s, s.GetUnit()), "observed": r, "expected": s.GetValue()}
            except Exception as e:
                return {"reproduced": True, "call": "%r.GetValue(%r)" % (s, s.GetUnit()), "observed": repr(e), "expected": s.GetValue()}
            if k == "simple":
                db = s.GetUnitDatabase()
                for u in other_units(s.GetQuantity()):
                    exp = db.Convert(s.GetQuantityType(), s.GetUnit(), u, s.GetValue())
                    got = s.GetValue(u)
                    if got != exp:
                        return {"reproduced": True, "call": "%r.GetValue(%r)" % (s, u), "observed": got, "expected": exp}
    # units that share their registered *name* while being different units (the name is not an identity)
    from barril.units import Scalar as _S

    for a, b in (("mCi", "uCi"), ("lbmol", "mol(lbm)"), ("kJ/kmol", "kJ/mol"), ("sq yd", "yd2")):
        try:
            sc = _S(3.0, a)
            dbq = sc.GetUnitDatabase()
            exp = dbq.Convert(sc.GetQuantityType(), a, b, 3.0)
            got = sc.GetValue(b)
        except Exception:
            continue
        if got != exp:
            return {"reproduced": True, "call": "Scalar(3.0, %r).GetValue(%r)" % (a, b), "observed": got, "expected": exp}
    return {"reproduced": False}


@probe("scalar_order")
def scalar_order(h):
    """C08: <, <=, >, >= between Scalars agree with comparing the physical amounts"""
    import operator
    from barril.units import Scalar

    ops = {"lt": operator.lt, "le": operator.le, "gt": operator.gt, "ge": operator.ge}
    names = [h["variant"][0]] if h.get("variant") and h["variant"][0] in ops else list(ops)
    pairs = [
        (Scalar(1.0, "m"), Scalar(100.0, "cm")),
        (Scalar(100.0, "cm"), Scalar(1.0, "m")),
        (Scalar(1.0, "m"), Scalar(1.0, "m")),
        (Scalar(1.0, "m"), Scalar(150.0, "cm")),
        (Scalar(2.0, "m"), Scalar(150.0, "cm", "depth")),
        (Scalar(0.0, "degC"), Scalar(273.15, "K")),
        (Scalar(1.0, "h"), Scalar(30.0, "min")),
    ]
    for n in names:
        for a, b in pairs:
            db = a.GetUnitDatabase()
            pa = a.GetValue()
            pb = db.Convert(a.GetQuantityType(), b.GetUnit(), a.GetUnit(), b.GetValue())
            exp = ops[n](pa, pb)
            try:
                got = ops[n](a, b)
            except Exception as e:
                got = repr(e)
            if got != exp:
                return {"reproduced": True, "call": "%r %s %r" % (a, n, b), "observed": got, "expected": exp}
    return {"reproduced": False}


# ------------------------------------------------------------------------------------------------
# arithmetic (C03 / C04 / C05 / C09): independent factor-and-exponent oracle over scale-only units


def _k(db, unit):
    info = db.unit_to_unit_info[unit]
    return info.tobase(1.0) - info.tobase(0.0)


def magnitude(s):
    """base-unit magnitude and dimension {quantity type: exponent} of a Scalar, from its composing map"""
    q = s.GetQuantity()
    db = q.GetUnitDatabase()
    mag = s.GetValue()
    dim = {}
    for cat, (unit, exp) in q.GetCategoryToUnitAndExps().items():
        mag *= _k(db, unit) ** exp
        qt = db.GetCategoryQuantityType(cat)
        dim[qt] = dim.get(qt, 0) + exp
    return mag, {k: v for k, v in dim.items() if v != 0}


def arith_pool():
    from barril.units import Scalar

    m, cm, km = Scalar(2.0, "m"), Scalar(300.0, "cm"), Scalar(0.5, "km")
    s, mn = Scalar(4.0, "s"), Scalar(0.25, "min")
    d = Scalar(150.0, "cm", "depth")
    from collections import OrderedDict
    from barril.units import Quantity

    # quantities whose entries of one quantity type disagree on the unit (built directly, not by arithmetic)
    mixed = Scalar.CreateWithQuantity(Quantity.CreateDerived(OrderedDict([("length", ["m", 1]), ("diameter", ["cm", 1])])), 1.0)
    mixed2 = Scalar.CreateWithQuantity(Quantity.CreateDerived(OrderedDict([("length", ["m", 1]), ("diameter", ["m", 1])])), 2.0)
    return {
        # (named units of another quantity type whose symbol reads like a derived unit: area 'm2', velocity 'm/s')
        "simple": [m, cm, km, s, mn, d, Scalar(20.0, "degC"), Scalar(300.0, "K"), Scalar(50.0, "degF"), Scalar(3.0, "m2"), Scalar(2.0, "m/s")],
        "derived1": [m * m, cm * cm, cm * cm * cm, Scalar(1.0, "m") / (s * s) * Scalar(1.0, "s") * Scalar(1.0, "s") / m / m, km * km],
        "derived2": [m / s, cm / mn, km * s, cm * d, m * mn, s * cm, mn * km, Scalar(1.0, "s") / cm * Scalar(1.0, "m") * Scalar(1.0, "m"), mixed, mixed2],
        "empty": [Scalar.CreateEmptyScalar(3.0)],
    }


@probe("arith")
def arith(h):
    import operator

    ops = {"add": operator.add, "sub": operator.sub, "mul": operator.mul, "truediv": operator.truediv, "floordiv": operator.floordiv}
    names = {"Sum": "add", "Subtract": "sub", "Multiply": "mul", "Divide": "truediv", "FloorDivide": "floordiv"}
    var = h.get("variant") or []
    opn = None
    kinds = []
    for x in var:
        if x in ops:
            opn = x
        elif x in ("simple", "derived1", "derived2", "empty", "float", "int", "npfloat", "npfloat32"):
            kinds.append(x)
    todo = [opn] if opn else ["add", "sub", "mul", "truediv"]
    if h.get("function") in names:
        todo = [names[h["function"]]]
    pool = arith_pool()
    nums = {"float": [2.5], "int": [3], "npfloat": [], "npfloat32": []}
    try:
        import numpy

        nums["npfloat"] = [numpy.float64(2.5)]
        nums["npfloat32"] = [numpy.float32(2.5), numpy.int64(3), numpy.array([4, 5])[0], numpy.uint8(2)]
    except Exception:
        pass
    ka = kinds[0] if kinds else None
    kb = kinds[1] if len(kinds) > 1 else None
    As = (pool.get(ka) or nums.get(ka)) if ka else sum(pool.values(), [])
    Bs = (pool.get(kb) or nums.get(kb)) if kb else sum(pool.values(), [])
    from barril.units import Scalar

    for o in todo:
        for a in As:
            for b in Bs:
                if not isinstance(a, Scalar) and not isinstance(b, Scalar):
                    continue
                affine = any(isinstance(x, Scalar) and any(u in str(x.GetUnit()) for u in ("degC", "degF")) for x in (a, b))
                if affine and not (o in ("add", "sub") and isinstance(a, Scalar) and isinstance(b, Scalar) and not a.GetQuantity().IsDerived() and not b.GetQuantity().IsDerived()):
                    continue  # products / powers of offset units have no physical reading (C04 speaks of scale-only units)
                ma, da = magnitude(a) if isinstance(a, Scalar) else (float(a), {})
                mb, db_ = magnitude(b) if isinstance(b, Scalar) else (float(b), {})
                call = "%r %s %r" % (a, o, b)

                def snap(x):
                    if not isinstance(x, Scalar):
                        return repr(x)
                    q = x.GetQuantity()
                    return (x.GetValue(), x.GetUnit(), x.GetCategory(), [(c, list(ue)) for c, ue in q.GetCategoryToUnitAndExps().items()], q.GetComposingUnits())

                before = (snap(a), snap(b))
                try:
                    r = ops[o](a, b)
                except Exception as e:
                    if (snap(a), snap(b)) != before:
                        return {"reproduced": True, "call": call + " (rejected)", "observed": "operands afterwards: %r" % ((snap(a), snap(b)),), "expected": "operands unchanged: %r" % (before,)}
                    compatible = o in ("mul", "truediv", "floordiv") or da == db_ or not da or not db_
                    if compatible and not isinstance(e, ZeroDivisionError):
                        return {"reproduced": True, "call": call, "observed": repr(e), "expected": "a result"}
                    continue
                if (snap(a), snap(b)) != before:
                    return {"reproduced": True, "call": call, "observed": "operands afterwards: %r" % ((snap(a), snap(b)),), "expected": "operands unchanged: %r" % (before,)}
                if not isinstance(r, Scalar):
                    return {"reproduced": True, "call": call, "observed": repr(r), "expected": "a Scalar"}
                mr, dr = magnitude(r)
                if o in ("add", "sub") and isinstance(a, Scalar) and isinstance(b, Scalar) and not a.GetQuantity().IsDerived() and not b.GetQuantity().IsDerived() and a.GetQuantityType() == b.GetQuantityType():
                    # simple operands of one quantity type (offset units included): b re-expressed in a's unit
                    dbq = a.GetUnitDatabase()
                    exp_v = ops[o](a.GetValue(), dbq.Convert(a.GetQuantityType(), b.GetUnit(), a.GetUnit(), b.GetValue()))
                    if r.GetUnit() != a.GetUnit() or not close(r.GetValue(), exp_v, 1e-9):
                        return {"reproduced": True, "call": call, "observed": repr(r), "expected": "%r [%s]" % (exp_v, a.GetUnit())}
                    continue
                if o in ("add", "sub"):
                    if da != db_ and da and db_:
                        return {"reproduced": True, "call": call, "observed": repr(r), "expected": "InvalidOperationError"}
                    exp_m = ops[o](ma, mb)
                    exp_d = da or db_
                    if bool(da) != bool(db_):
                        # a dimensionless operand is taken in the other operand's units (by design)
                        va = a.GetValue() if isinstance(a, Scalar) else float(a)
                        vb = b.GetValue() if isinstance(b, Scalar) else float(b)

                        def consistent(x):
                            if not isinstance(x, Scalar):
                                return True
                            dbx = x.GetQuantity().GetUnitDatabase()
                            seen = {}
                            for c_, (u_, e_) in x.GetQuantity().GetCategoryToUnitAndExps().items():
                                if seen.setdefault(dbx.GetCategoryQuantityType(c_), u_) != u_:
                                    return False
                            return True

                        if not (consistent(a) and consistent(b)):
                            continue  # the units of the other operand are matched first; not a plain value operation
                        if not close(r.GetValue(), ops[o](va, vb), 1e-9) or dr != exp_d:
                            return {"reproduced": True, "call": call, "observed": repr(r), "expected": ops[o](va, vb)}
                        continue
                elif o == "mul":
                    exp_m = ma * mb
                    exp_d = {k: da.get(k, 0) + db_.get(k, 0) for k in set(da) | set(db_)}
                else:
                    exp_m = ma / mb
                    exp_d = {k: da.get(k, 0) - db_.get(k, 0) for k in set(da) | set(db_)}
                exp_d = {k: v for k, v in exp_d.items() if v != 0}
                if o == "floordiv":
                    continue
                if dr != exp_d or not close(mr, exp_m, 1e-9):
                    return {"reproduced": True, "call": call, "observed": [repr(r), mr, dr], "expected": [exp_m, exp_d]}
    return {"reproduced": False}


@probe("array_ops")
def array_ops(h):
    """C10/C09: Array OP Array / number equals the Scalar results elementwise; empty operands work;
    different lengths are rejected"""
    import operator
    import numpy
    from barril.units import Array, Scalar

    ops = {"add": operator.add, "sub": operator.sub, "mul": operator.mul, "truediv": operator.truediv, "floordiv": operator.floordiv}
    var = h.get("variant") or []
    todo = [x for x in var if x in ops] or ["add", "sub", "mul", "truediv"]
    mk = {"list": list, "tuple": tuple, "ndarray": lambda v: numpy.array(v, dtype=float)}
    conts = [x for x in var if x in mk]
    ca = [conts[0]] if conts else list(mk)
    cb = [conts[1]] if len(conts) > 1 else list(mk)
    clause = h.get("clause") or ""
    left_num = len(var) > 1 and var[1] in ("float", "int")
    right_num = len(var) > 2 and var[2] in ("float", "int")
    for o in todo:
        for ka in ca:
            for kb in cb:
                for va, ua, vb, ub in (([1.0, 2.0, 3.0], "m", [10.0, 20.0, 30.0], "cm"), ([], "m", [], "cm"), ([1.0, 2.0, 3.0], "m", [1.0, 2.0], "m"), ([4.0, 5.0], "s", [1.0, 2.0], "m")):
                    a = Array(mk[ka](va), ua)
                    b = Array(mk[kb](vb), ub)
                    if left_num:
                        a = 2.5
                    if right_num:
                        b = 2.5
                    call = "%r %s %r" % (a, o, b)
                    la = len(va) if not left_num else len(vb)
                    lb = len(vb) if not right_num else len(va)
                    both = not left_num and not right_num
                    try:
                        r = ops[o](a, b)
                    except Exception as e:
                        if both and la != lb and isinstance(e, ValueError):
                            continue
                        if both and o in ("add", "sub") and ua == "s" and type(e).__name__ == "InvalidOperationError":
                            continue
                        return {"reproduced": True, "call": call, "observed": repr(e), "expected": "an Array" if la == lb or not both else "ValueError"}
                    if both and la != lb:
                        return {"reproduced": True, "call": call, "observed": repr(r), "expected": "ValueError (operands of different lengths)"}
                    if not isinstance(r, Array):
                        return {"reproduced": True, "call": call, "observed": repr(r), "expected": "an Array"}
                    n = la if not left_num else lb
                    if len(r) != n:
                        return {"reproduced": True, "call": call, "observed": repr(r), "expected": "%d elements" % n}
                    if n == 0:
                        # no values: the quantity is still the one Scalars in these units would give
                        try:
                            sq = ops[o](a if left_num else Scalar(1.0, ua), b if right_num else Scalar(1.0, ub)).GetQuantity()
                        except Exception:
                            sq = None
                        if sq is not None and r.GetQuantity() != sq:
                            return {"reproduced": True, "call": call, "observed": repr(r.GetQuantity()), "expected": repr(sq)}
                    for i in range(n):
                        sa = a if left_num else Scalar(va[i], ua)
                        sb = b if right_num else Scalar(vb[i], ub)
                        try:
                            s = ops[o](sa, sb)
                        except Exception as e:
                            return {"reproduced": True, "call": call, "observed": repr(r), "expected": "Scalars raise %r" % e}
                        if not close(float(r[i]), s.GetValue(), 1e-12) or r.GetQuantity() != s.GetQuantity():
                            return {"reproduced": True, "call": call + " element %d" % i, "observed": [float(r[i]), repr(r.GetQuantity())], "expected": [s.GetValue(), repr(s.GetQuantity())]}
    return {"reproduced": False}


# ------------------------------------------------------------------------------------------------
# database lookups and conversions (C01/C02/C05/C16): independent oracle over a pool of real names


def _legacy_pairs(db):
    from barril.units.unit_database import _LEGACY_TO_CURRENT

    out = []
    for legacy, current in _LEGACY_TO_CURRENT:
        for u in db.unit_to_unit_info:
            if current in u:
                l = u.replace(current, legacy)
                if l != u and l not in db.unit_to_unit_info:
                    out.append((l, u))
                    break
    return out


@probe("db_lookup")
def db_lookup(h):
    """GetInfo / Convert / CheckCategoryUnit against the registry read directly"""
    import numpy
    from barril.units.unit_database import UnitDatabase, InvalidUnitError, InvalidQuantityTypeError

    db = UnitDatabase.GetSingleton()
    U = db.unit_to_unit_info
    units = ["m", "cm", "ft", "km", "degC", "K", "degF", "s", "min", "psi", "Pa", "lbmol", "Mm3", "N.s/m", "m3/d", "<unknown>"]
    units = [u for u in units if u in U]
    legs = _legacy_pairs(db)[:12]
    names = units + [l for l, _ in legs] + ["no-such-unit"]
    qts = ["length", "temperature", "time", "pressure", "amount of substance", "volume", "depth", "Unknown", "no-such-type"]

    def resolve(qt, u):
        """the unit GetInfo(qt, u, fix_unknown=True) must resolve to, or an exception class"""
        real_qt = db.categories_to_quantity_types[qt].quantity_type if qt in db.categories_to_quantity_types else qt
        if u in U and U[u].quantity_type in (qt, real_qt):
            return u
        if real_qt not in db.quantity_types:
            return InvalidQuantityTypeError
        if real_qt == "Unknown":
            return "<unknown>"
        for l, cur in legs:
            if l == u and U[cur].quantity_type == real_qt:
                return cur
        from barril.units.unit_database import FixUnitIfIsLegacy

        is_l, fixed = FixUnitIfIsLegacy(u)
        if is_l and fixed in U and U[fixed].quantity_type == real_qt:
            return fixed
        return InvalidUnitError

    for qt in qts:
        for u in names:
            exp = resolve(qt, u)
            call = "GetInfo(%r, %r, fix_unknown=True)" % (qt, u)
            try:
                got = db.GetInfo(qt, u, fix_unknown=True).unit
            except Exception as e:
                got = type(e)
            if isinstance(exp, type) and isinstance(got, type) and issubclass(got, exp):
                continue
            if got != exp:
                return {"reproduced": True, "call": call, "observed": getattr(got, "__name__", got), "expected": getattr(exp, "__name__", exp)}
    xs = [0.0, 1.0, -2.5, 37.3, 1e6]
    for qt in qts:
        for u in names:
            for v in names:
                ru, rv = resolve(qt, u), resolve(qt, v)
                for x in (xs[3], list(xs), tuple(xs), numpy.array(xs)):
                    call = "Convert(%r, %r, %r, %r)" % (qt, u, v, x)
                    try:
                        got = db.Convert(qt, u, v, x)
                    except Exception as e:
                        got = e
                    if u == v:
                        if got is not x:
                            return {"reproduced": True, "call": call, "observed": repr(got), "expected": "the argument itself (same unit)"}
                        continue
                    bad = [r for r in (ru, rv) if isinstance(r, type)]
                    if bad:
                        if not isinstance(got, Exception):
                            return {"reproduced": True, "call": call, "observed": repr(got), "expected": bad[0].__name__}
                        continue
                    if isinstance(got, Exception):
                        return {"reproduced": True, "call": call, "observed": repr(got), "expected": "a converted value"}
                    f = lambda t: U[rv].frombase(U[ru].tobase(t))
                    if isinstance(x, float):
                        ok = got == f(x)
                    elif isinstance(x, numpy.ndarray):
                        ok = isinstance(got, numpy.ndarray) and len(got) == len(x) and all(a == f(b) for a, b in zip(got, x))
                    else:
                        ok = type(got) is type(x) and len(got) == len(x) and all(a == f(b) for a, b in zip(got, x))
                    if not ok:
                        return {"reproduced": True, "call": call, "observed": repr(got), "expected": "frombase_%s(tobase_%s(x)) elementwise, same container kind" % (rv, ru)}
    cats = [c for c in ("length", "depth", "temperature", "time", "volume") if c in db.categories_to_quantity_types]
    for c in cats:
        for u in names:
            qt = db.categories_to_quantity_types[c].quantity_type
            valid = u in U and U[u].quantity_type == qt
            for _ in range(2):  # miss path, then memo-hit path
                try:
                    db.CheckCategoryUnit(c, u)
                    got = True
                except InvalidUnitError:
                    got = False
                if got != valid:
                    return {"reproduced": True, "call": "CheckCategoryUnit(%r, %r)" % (c, u), "observed": got, "expected": valid}
    return {"reproduced": False}


@probe("obtain")
def obtain(h):
    """C07: ObtainQuantity interning, composing-map ownership (pairs are new lists), captions"""
    from collections import OrderedDict
    from barril.units import ObtainQuantity, Scalar

    # composing-map forms with tuple pairs / the caller's own dict
    for pair in ((lambda u, e: (u, e)), (lambda u, e: [u, e])):
        d = OrderedDict([("length", pair("m", 2)), ("time", pair("s", -1))])
        q = ObtainQuantity(d)
        m = q.GetCategoryToUnitAndExps()
        if m is d or any(not isinstance(v, list) for v in m.values()):
            try:
                r = Scalar(q, 1.0) + Scalar(ObtainQuantity(OrderedDict([("length", ["cm", 2]), ("time", ["s", -1])])), 1.0)
                obs = repr(r)
            except Exception as e:
                obs = repr(e)
            return {"reproduced": True, "call": "ObtainQuantity(%r)" % d, "observed": "composing map %r (shared with the caller: %s); arithmetic with it: %s" % (m, m is d, obs), "expected": "a map owned by the quantity whose [unit, exp] pairs are lists"}
    q1 = ObtainQuantity([("m", 2)], ["length"])
    if any(not isinstance(v, list) for v in q1.GetCategoryToUnitAndExps().values()):
        return {"reproduced": True, "call": "ObtainQuantity([('m', 2)], ['length'])", "observed": repr(q1.GetCategoryToUnitAndExps()), "expected": "list pairs"}
    # captions distinguish interned quantities; repeated requests are identical
    reqs = [
        lambda: ObtainQuantity(OrderedDict([("length", ["m", 2])]), None, "Caption A"),
        lambda: ObtainQuantity(OrderedDict([("length", ["m", 2])]), None, "Caption B"),
        lambda: ObtainQuantity(OrderedDict([("length", ["m", 2])])),
        lambda: ObtainQuantity("m", "length", "Caption A"),
        lambda: ObtainQuantity("m", "length"),
        lambda: ObtainQuantity("m", "depth"),
        lambda: ObtainQuantity("cm", "length"),
        lambda: ObtainQuantity("m"),
        lambda: ObtainQuantity("bbl/ft", "area"),
        lambda: ObtainQuantity("bbl/ft"),
        # the same entries in a different order: different composing maps (ordered), so not equal - and in any
        # case equal quantities must have equal hashes
        lambda: ObtainQuantity(OrderedDict([("length", ["m", 2]), ("time", ["s", -1])])),
        lambda: ObtainQuantity(OrderedDict([("time", ["s", -1]), ("length", ["m", 2])])),
    ]
    qs = [r() for r in reqs]
    for i, r in enumerate(reqs):
        if r() is not qs[i]:
            return {"reproduced": True, "call": "request %d repeated" % i, "observed": "a different object", "expected": "the identical object"}
    expect_caps = ["Caption A", "Caption B", "", "Caption A", "", "", "", "", "", "", "", ""]
    for q, c in zip(qs, expect_caps):
        if (q.GetUnknownCaption() or "") != c:
            return {"reproduced": True, "call": "caption of %r" % q, "observed": q.GetUnknownCaption(), "expected": c}
    # the composing-map form of a simple quantity (one entry, exponent 1) keeps the caption; this is the
    # form pickling uses, so Scalars / FixedArrays on captioned quantities survive a pickle round trip
    import pickle
    from barril.units import FixedArray, Quantity

    for mk in (
        lambda: ObtainQuantity(OrderedDict([("length", ["m", 1])]), None, "Caption C"),
        lambda: ObtainQuantity(OrderedDict([("length", ("m", 1))]), None, "Caption C"),
        lambda: Quantity.CreateDerived(OrderedDict([("length", ["m", 1])]), unknown_unit_caption="Feeeet"),
        lambda: ObtainQuantity(OrderedDict([("length", ["m", 2]), ("time", ["s", -1])]), None, "Caption D"),
        lambda: ObtainQuantity(OrderedDict([("length", ["m", 1]), ("depth", ["m", 1])])),
        lambda: ObtainQuantity(OrderedDict([("length", ["m", 1]), ("depth", ["m", -1]), ("time", ["s", 1])])),
    ):
        q = mk()
        exp_cap = q.GetUnknownCaption()
        if q is not mk():
            return {"reproduced": True, "call": "composing-map request repeated", "observed": "a different object", "expected": "the identical object"}
        if "Caption C" in repr(mk.__code__.co_consts) and exp_cap != "Caption C":
            return {"reproduced": True, "call": "ObtainQuantity(OrderedDict([('length', ['m', 1])]), None, 'Caption C').GetUnknownCaption()", "observed": exp_cap, "expected": "Caption C"}
        for obj in (Scalar(q, 2.5), FixedArray(2, q, [1.0, 2.0]), q):
            back = pickle.loads(pickle.dumps(obj))
            bq = back if obj is q else back.GetQuantity()
            if not (back == obj) or (bq.GetUnknownCaption() or "") != (exp_cap or "") or dict(bq.GetCategoryToUnitAndExps()) != dict(q.GetCategoryToUnitAndExps()):
                return {"reproduced": True, "call": "pickle.loads(pickle.dumps(%r)) with caption %r" % (obj, exp_cap), "observed": "%r with caption %r, equal=%s" % (back, bq.GetUnknownCaption(), back == obj), "expected": "an equal object with the same caption"}
    db = qs[0].GetUnitDatabase()
    if qs[7].GetCategory() != db.GetDefaultCategory("m") or qs[9].GetCategory() != db.GetDefaultCategory("bbl/ft"):
        return {"reproduced": True, "call": "ObtainQuantity('bbl/ft') after ObtainQuantity('bbl/ft', 'area')", "observed": qs[9].GetCategory(), "expected": db.GetDefaultCategory("bbl/ft")}
    for i in range(len(qs)):
        for j in range(len(qs)):
            same = (i == j) or {i, j} == {4, 7}
            if (qs[i] == qs[j]) != same or (qs[i] == qs[j] and (hash(qs[i]) != hash(qs[j]) or len({qs[i], qs[j]}) != 1)):
                return {"reproduced": True, "call": "requests %d and %d" % (i, j), "observed": "equal=%s" % (qs[i] == qs[j]), "expected": "equal=%s with equal hashes" % same}
    return {"reproduced": False}


# ------------------------------------------------------------------------------------------------
# registration histories (C14 / C15): WF after every step, rejected calls change nothing, and a
# database that answered queries in between reports the same as a fresh one


def _snapshot(db):
    U = {u: (i.quantity_type, i.name, i.default_category) for u, i in db.unit_to_unit_info.items()}
    Q = {q: [i.unit for i in l] for q, l in db.quantity_types.items()}
    C = {}
    for c, ci in db.categories_to_quantity_types.items():
        C[c] = (ci.quantity_type, ci.default_unit, None if ci.valid_units is None else list(ci.valid_units), sorted(ci.valid_units_set), ci.default_value, ci.min_value, ci.max_value, ci.is_min_exclusive, ci.is_max_exclusive)
    return {"U": U, "Q": Q, "C": C}


def _wf(db):
    """violations of WF as text"""
    bad = []
    U, Q, C = db.unit_to_unit_info, db.quantity_types, db.categories_to_quantity_types
    for u, i in U.items():
        if i.unit != u or not any(x is i for x in Q.get(i.quantity_type, [])):
            bad.append("W1: unit %r not listed in its type" % u)
    for q, l in Q.items():
        syms = [i.unit for i in l]
        if len(set(syms)) != len(syms) or any(U.get(i.unit) is not i or i.quantity_type != q for i in l):
            bad.append("W1: list of %r" % q)
        if not l:
            bad.append("W2: %r has no unit" % q)
        else:
            for x in (0.0, 1.0, -2.5):
                if l[0].tobase(x) != x or l[0].frombase(x) != x:
                    bad.append("W2: first-listed unit %r of %r is not an identity" % (l[0].unit, q))
                    break
    for c, ci in C.items():
        us = [i.unit for i in Q.get(ci.quantity_type, [])]
        if ci.quantity_type not in Q or ci.default_unit not in us:
            bad.append("W3: category %r default unit %r / type %r" % (c, ci.default_unit, ci.quantity_type))
        if ci.valid_units is not None and any(v not in us for v in ci.valid_units):
            bad.append("W3: category %r valid units" % c)
        if ci.valid_units_set != set(ci.valid_units or []):
            bad.append("W3: category %r valid_units_set" % c)
        v = ci.default_value
        if ci.min_value is not None and not (v > ci.min_value if ci.is_min_exclusive else v >= ci.min_value):
            bad.append("W3: category %r default %r below min %r" % (c, v, ci.min_value))
        if ci.max_value is not None and not (v < ci.max_value if ci.is_max_exclusive else v <= ci.max_value):
            bad.append("W3: category %r default %r above max %r" % (c, v, ci.max_value))
    return bad


def _reports(db):
    """what the database reports through its query API"""
    out = {}
    for q in sorted(db.quantity_types):
        out[("units", q)] = list(db.GetUnits(q))
        out[("base", q)] = db.GetBaseUnit(q)
    for c in sorted(db.categories_to_quantity_types):
        try:
            out[("valid", c)] = list(db.GetValidUnits(c))
        except Exception as e:
            out[("valid", c)] = type(e).__name__
        out[("default", c)] = db.GetDefaultUnit(c)
        for u in sorted(db.unit_to_unit_info):
            try:
                db.CheckCategoryUnit(c, u)
                ok = True
            except Exception:
                ok = False
            out[("check", c, u)] = ok
    for u in sorted(db.unit_to_unit_info):
        out[("defcat", u)] = db.GetDefaultCategory(u)
    return out


def _histories():
    """lists of (method name, args, kwargs); accepted or rejected"""
    f2, t2 = (lambda x: x / 100.0), (lambda x: x * 100.0)
    H = []
    base = [
        ("AddUnitBase", ("length", "meters", "m"), {}),
        ("AddUnit", ("length", "centimeters", "cm", "%f * 100.0", "%f / 100.0"), {}),
        ("AddUnitBase", ("time", "seconds", "s"), {}),
        ("AddUnit", ("time", "minutes", "min", "%f / 60.0", "%f * 60.0"), {}),
        ("AddCategory", ("length", "length"), {}),
        ("AddCategory", ("time", "time"), {}),
    ]
    H.append(("plain", base))
    H.append(("late-unit", base + [("AddCategory", ("well length",), {"from_category": "length"}), ("AddUnit", ("length", "kilometers", "km", "%f / 1000.0", "%f * 1000.0"), {})]))
    H.append(("unit-before-base", [("AddUnit", ("length", "centimeters", "cm", "%f * 100.0", "%f / 100.0"), {}), ("AddCategory", ("length", "length"), {})]))
    H.append(("rejected", base + [
        ("AddUnit", ("time", "meters again", "m", "%f", "%f"), {}),
        ("AddUnitBase", ("length", "centimeters", "cm"), {}),
        ("AddCategory", ("length", "time"), {}),
        ("AddCategory", ("depth", "length"), {"valid_units": ["m", "s"]}),
        ("AddCategory", ("depth", "length"), {"default_unit": "s"}),
        ("AddCategory", ("depth", "nothing"), {}),
        ("AddCategory", ("depth", "length"), {"min_value": 0.0, "max_value": 10.0, "default_value": 50.0}),
        ("AddCategory", ("shallow", "length"), {"max_value": 10.0, "default_value": 50.0}),
        ("AddCategory", ("deep", "length"), {"min_value": 10.0, "default_value": 5.0}),
        ("AddCategory", ("x", "length"), {"min_value": 5.0, "max_value": 1.0}),
        ("AddCategory", ("y", "length"), {"min_value": 0.0, "is_min_exclusive": True}),
        ("AddCategory", ("z",), {"from_category": "nothing"}),
    ]))
    H.append(("limits", base + [
        ("AddCategory", ("depth", "length"), {"valid_units": ["m"], "min_value": 0.0, "max_value": 15.0, "default_value": 5.0}),
        ("AddCategory", ("shallower",), {"from_category": "depth", "max_value": 1.0}),
        ("AddCategory", ("depth copy",), {"from_category": "depth"}),
        ("AddCategory", ("only max", "length"), {"max_value": -3.0}),
        ("AddCategory", ("only min", "length"), {"min_value": 7.0}),
        ("AddCategory", ("depth", "length"), {"override": True, "default_unit": "cm"}),
    ]))
    return H


@probe("registry_history")
def registry_history(h):
    from barril.units.unit_database import UnitDatabase
    from barril.units import Scalar

    known_w2 = "first-listed unit"
    for name, steps in _histories():
        db = UnitDatabase()
        fresh_steps = []
        UnitDatabase.PushSingleton(db)
        try:
            for k, (meth, args, kw) in enumerate(steps):
                before = _snapshot(db)
                kw2 = {a: (list(b) if isinstance(b, list) else b) for a, b in kw.items()}
                try:
                    getattr(db, meth)(*args, **kw2)
                    accepted = True
                except Exception as e:
                    accepted = False
                    if _snapshot(db) != before:
                        return {"reproduced": True, "call": "history %s step %d: %s%r %r rejected with %r" % (name, k, meth, args, kw, e), "observed": "registry changed", "expected": "registry exactly as before"}
                if accepted:
                    fresh_steps.append((meth, args, kw))
                bad = _wf(db)
                if h.get("ignore_unit_before_base"):
                    bad = [b for b in bad if known_w2 not in b or name != "unit-before-base"]
                if bad:
                    return {"reproduced": True, "call": "history %s after step %d: %s%r %r" % (name, k, meth, args, kw), "observed": bad[:3], "expected": "well-formed registry"}
                # queries in between (including failing ones) must not influence later answers
                _reports(db)
                for c in list(db.categories_to_quantity_types) + ["depth", "well length", "shallower", "only max"]:
                    for u in ("km", "m", "cm", "s", "min", "h"):
                        try:
                            db.CheckCategoryUnit(c, u)
                        except Exception:
                            pass
                for c in list(db.categories_to_quantity_types):
                    try:
                        Scalar(c).GetValidUnits()
                        Scalar(1.0, db.GetUnits(db.GetCategoryQuantityType(c))[-1], c).GetValidUnits()
                    except Exception:
                        pass
            warm = _reports(db)
        finally:
            UnitDatabase.PopSingleton()
        db2 = UnitDatabase()
        for meth, args, kw in fresh_steps:
            getattr(db2, meth)(*args, **{a: (list(b) if isinstance(b, list) else b) for a, b in kw.items()})
        cold = _reports(db2)
        if warm != cold:
            diff = [k for k in cold if warm.get(k) != cold[k]][:3]
            return {"reproduced": True, "call": "history %s: reports after interleaved queries vs a fresh database" % name, "observed": {repr(k): warm.get(k) for k in diff}, "expected": {repr(k): cold[k] for k in diff}}
    return {"reproduced": False}


@probe("construct_forms")
def construct_forms(h):
    """C19: all construction forms build equal objects, for a sample of units (incl. units whose default
    category is not their quantity type) and after requests that could disturb the intern table"""
    from barril.units import Scalar, Array, FixedArray, ObtainQuantity
    from barril.units.unit_database import UnitDatabase

    db = UnitDatabase.GetSingleton()
    units = ["m", "cm", "degC", "psi", "bbl/ft", "Btu/hr", "m3/d", "1/s"]
    units = [u for u in units if u in db.unit_to_unit_info]
    for rnd in range(2):
        for u in units:
            c = db.GetDefaultCategory(u)
            qt = db.unit_to_unit_info[u].quantity_type
            v = 2.5
            forms = {
                "(v,u)": lambda: Scalar(v, u),
                "(v,u,c)": lambda: Scalar(v, u, c),
                "(c,v,u)": lambda: Scalar(c, v, u),
                "((v,u))": lambda: Scalar((v, u)),
                "(quantity,v)": lambda: Scalar(ObtainQuantity(u, c), v),
                "CreateWithQuantity": lambda: Scalar.CreateWithQuantity(ObtainQuantity(u, c), v),
            }
            objs = {k: f() for k, f in forms.items()}
            ref = objs["(v,u,c)"]
            for k, o in objs.items():
                if not (o == ref and ref == o and o.GetCategory() == c and o.GetUnit() == u and o.GetValue() == v):
                    return {"reproduced": True, "call": "Scalar%s with u=%r (round %d)" % (k, u, rnd), "observed": repr(o), "expected": repr(ref)}
            vals = [1.0, 2.0, 3.0]
            arrs = [Array(vals, u), Array(vals, u, c), Array(c, vals, u), Array(ObtainQuantity(u, c), vals), Array.CreateWithQuantity(ObtainQuantity(u, c), vals)]
            fas = [FixedArray(3, vals, u), FixedArray(3, c, vals, u), FixedArray(3, ObtainQuantity(u, c), vals), FixedArray.CreateWithQuantity(ObtainQuantity(u, c), vals, dimension=3)]
            for group in (arrs, fas):
                for o in group:
                    if not (o == group[0] and group[0] == o and o.GetCategory() == c):
                        return {"reproduced": True, "call": "%s forms with u=%r (round %d)" % (type(o).__name__, u, rnd), "observed": repr(o), "expected": repr(group[0])}
            # a request with the quantity-type-named category must not disturb the category-less forms
            if qt in db.categories_to_quantity_types:
                try:
                    Scalar(v, u, qt)
                except Exception:
                    pass
        for c in ("length", "temperature", "volume per length"):
            if c in db.categories_to_quantity_types:
                ci = db.GetCategoryInfo(c)
                a, b = Scalar(c), Scalar(c, ci.default_value, ci.default_unit)
                if a != b:
                    return {"reproduced": True, "call": "Scalar(%r)" % c, "observed": repr(a), "expected": repr(b)}
                r = eval(repr(a), {"Scalar": Scalar})
                if r != a:
                    return {"reproduced": True, "call": "eval(repr(%r))" % a, "observed": repr(r), "expected": repr(a)}
    # C19: the values container of an Array built from the category alone is its own (filling one in place
    # must not show up in the next one)
    a1 = Array("length")
    try:
        a1.values.append(1500.0)
    except Exception:
        pass
    for c in ("length", "temperature"):
        a2 = Array(c)
        ci = db.GetCategoryInfo(c)
        if len(a2.values) != 0 or a2 != Array(c, [], ci.default_unit) or a2 != Array([], ci.default_unit, c):
            return {"reproduced": True, "call": "a = Array('length'); a.values.append(1500.0); Array(%r)" % c, "observed": repr(a2), "expected": repr(Array(c, [], ci.default_unit))}
    # C02: Scalar(category, unit=u) carries the category's default amount, expressed in u (categories whose
    # default unit is not the base unit and whose default value is not zero, on a private database)
    db2 = UnitDatabase.CreateDefaultSingleton()
    UnitDatabase.PushSingleton(db2)
    try:
        db2.AddCategory("probe ambient temperature", "temperature", valid_units=["degC", "degF", "K"], default_unit="degC", default_value=25.0)
        db2.AddCategory("probe pipeline length", "length", valid_units=["km", "m", "ft"], default_unit="km", default_value=2.0)
        for c, du, dv, us in (("probe ambient temperature", "degC", 25.0, ["degC", "K", "degF"]), ("probe pipeline length", "km", 2.0, ["km", "m", "ft"])):
            for u in us:
                o = Scalar(c, unit=u)
                exp = db2.Convert(c, du, u, dv)
                if o.GetCategory() != c or o.GetUnit() != u or not close(o.GetValue(), exp, 1e-12):
                    return {"reproduced": True, "call": "Scalar(%r, unit=%r) with category default %r %s" % (c, u, dv, du), "observed": repr(o), "expected": "%r %s" % (exp, u)}
    finally:
        UnitDatabase.PopSingleton()
    return {"reproduced": False}


@probe("fixedarray")
def fixedarray(h):
    """C11/C13: FixedArray size invariant, ChangingIndex / IndexAsScalar / CreateCopy semantics, sources untouched"""
    import copy
    import numpy
    from barril.units import FixedArray, Array, Scalar

    mk = {"list": list, "tuple": tuple, "ndarray": lambda v: numpy.array(v, dtype=float)}

    def state(fa):
        return (list(float(x) for x in fa.GetValues()), fa.GetUnit(), fa.GetCategory(), fa.dimension, type(fa.GetValues()).__name__)

    def ok(fa):
        return isinstance(fa, FixedArray) and len(fa.GetValues()) == fa.dimension >= 2

    for kind, f in mk.items():
        base = [1.0, 2.0, 3.0]
        fa = FixedArray(3, "depth", f(base), "m")
        s0 = state(fa)
        ops = {
            "ChangingIndex(0, 5.0)": (lambda: fa.ChangingIndex(0, 5.0), ([5.0, 2.0, 3.0], "m", "depth")),
            "ChangingIndex(1, (5.0,))": (lambda: fa.ChangingIndex(1, (5.0,)), ([1.0, 5.0, 3.0], "m", "depth")),
            "ChangingIndex(-1, (50.0, 'cm'))": (lambda: fa.ChangingIndex(-1, (50.0, "cm")), ([100.0, 200.0, 50.0], "cm", "depth")),
            "ChangingIndex(0, Scalar(5,'cm'))": (lambda: fa.ChangingIndex(0, Scalar(5.0, "cm")), ([5.0, 200.0, 300.0], "cm", "length")),
            "ChangingIndex(0, Scalar(5,'cm'), use_value_unit=False)": (lambda: fa.ChangingIndex(0, Scalar(5.0, "cm"), use_value_unit=False), ([0.05, 2.0, 3.0], "m", "depth")),
            "CreateCopy()": (lambda: fa.CreateCopy(), (base, "m", "depth")),
            "CreateCopy(unit='cm')": (lambda: fa.CreateCopy(unit="cm"), ([100.0, 200.0, 300.0], "cm", "depth")),
            "fa * 2": (lambda: fa * 2, ([2.0, 4.0, 6.0], "m", "depth")),
            "copy.deepcopy": (lambda: copy.deepcopy(fa), (base, "m", "depth")),
        }
        for name, (op, (vals, unit, cat)) in ops.items():
            try:
                r = op()
            except Exception as e:
                return {"reproduced": True, "call": "%s on %r (%s)" % (name, fa, kind), "observed": repr(e), "expected": "a FixedArray"}
            if state(fa) != s0:
                return {"reproduced": True, "call": "%s (%s values)" % (name, kind), "observed": "source changed to %r" % (state(fa),), "expected": repr(s0)}
            if not ok(r):
                return {"reproduced": True, "call": "%s (%s values)" % (name, kind), "observed": repr(r), "expected": "len(values) == dimension >= 2"}
            got = (list(float(x) for x in r.GetValues()), r.GetUnit(), r.GetCategory())
            if not (all(close(a, b, 1e-12) for a, b in zip(got[0], vals)) and len(got[0]) == len(vals) and got[1:] == (unit, cat)):
                return {"reproduced": True, "call": "%s on %r (%s values)" % (name, fa, kind), "observed": got, "expected": (vals, unit, cat)}
        s = fa.IndexAsScalar(1)
        if not (s.GetValue() == 2.0 and s.GetCategory() == "depth" and s.GetUnit() == "m"):
            return {"reproduced": True, "call": "IndexAsScalar(1)", "observed": repr(s), "expected": "Scalar(2.0, 'm', 'depth')"}
        for bad in (lambda: FixedArray(1, f([1.0]), "m"), lambda: FixedArray(3, f([1.0, 2.0]), "m"), lambda: fa.CreateCopy(values=f([1.0, 2.0])), lambda: FixedArray.CreateWithQuantity(fa.GetQuantity(), f([1.0])), lambda: fa + Array(f([10.0, 20.0]), "m")):
            try:
                r = bad()
            except ValueError:
                continue
            except Exception as e:
                return {"reproduced": True, "call": "size-breaking request (%s values)" % kind, "observed": repr(e), "expected": "ValueError"}
            return {"reproduced": True, "call": "size-breaking request (%s values)" % kind, "observed": repr(r), "expected": "ValueError"}
        if state(fa) != s0:
            return {"reproduced": True, "call": "rejected requests (%s values)" % kind, "observed": "source changed", "expected": repr(s0)}
    return {"reproduced": False}


@probe("array_broadcast")
def array_broadcast(h):
    import numpy
    from barril.units import Array

    a = Array(numpy.array([1.0, 2.0, 3.0]), "m")
    b = Array(numpy.array([10.0]), "m")
    try:
        r = a + b
    except ValueError:
        return {"reproduced": False}
    return {"reproduced": True, "call": "%r + %r" % (a, b), "observed": repr(r), "expected": "ValueError (operands of different lengths)"}


@probe("curve")
def curve(h):
    from barril.curve.curve import Curve
    from barril.units import Array

    a3, b3, a2 = Array([1.0, 2.0, 3.0], "m"), Array([4.0, 5.0, 6.0], "s"), Array([1.0, 2.0], "m")
    try:
        Curve(a2, b3)
        return {"reproduced": True, "call": "Curve(len 2, len 3)", "observed": "accepted", "expected": "ValueError"}
    except ValueError:
        pass
    c = Curve(a3, b3)
    steps = [("SetImage", a2), ("SetDomain", Array([1.0], "s")), ("SetImage", Array([7.0, 8.0, 9.0], "m")), ("SetDomain", Array([0.0, 1.0, 2.0], "s")), ("SetImage", a2)]
    for name, arr in steps:
        before = (c.GetImage(), c.GetDomain())
        try:
            getattr(c, name)(arr)
        except ValueError:
            if (c.GetImage(), c.GetDomain()) != before or c.GetImage() is not before[0] or c.GetDomain() is not before[1]:
                return {"reproduced": True, "call": "rejected %s" % name, "observed": "curve changed", "expected": "unchanged"}
        if len(c.GetImage().GetValues()) != len(c.GetDomain().GetValues()):
            return {"reproduced": True, "call": "%s(%r)" % (name, arr), "observed": [len(c.GetImage().GetValues()), len(c.GetDomain().GetValues())], "expected": "equal lengths"}
    return {"reproduced": False}


@probe("derived_strings")
def derived_strings(h):
    """C20: unit / category / quantity-type strings of derived quantities against an independent renderer,
    and parse-back of the unit string"""
    import itertools
    import re
    from collections import OrderedDict
    from barril.units import ObtainQuantity
    from barril.units.unit_database import UnitDatabase

    db = UnitDatabase.GetSingleton()

    def rend(seq, long):
        sep, div, one = (" * ", " / ", "1 / ") if long else (".", "/", "1/")
        fac = lambda n, m: n if m == 1 else (("(%s) ** %d" % (n, m)) if long else "%s%d" % (n, m))
        num = [fac(n, e) for n, e in seq if e > 0]
        den = [fac(n, -e) for n, e in seq if e < 0]
        s = sep.join(num)
        if den:
            s += (div if num else one) + sep.join(den)
        return s

    def joined(seq):
        d = OrderedDict()
        for k, e in seq:
            d[k] = d.get(k, 0) + e
        return list(d.items())

    def parse(s):
        numden = s.split("/")
        out = []
        for k, part in enumerate(numden):
            if k == 0 and part == "1":
                continue
            for tok in part.split("."):
                m = re.match(r"^(.*?)(\d*)$", tok)
                out.append((m.group(1), (int(m.group(2)) if m.group(2) else 1) * (1 if k == 0 else -1)))
        return out

    # three categories of one quantity type sharing one unit symbol: joined exponents that cancel part-way
    same = [c for c in ("length", "depth", "diameter", "well length") if c in db.categories_to_quantity_types][:3]
    if len(same) == 3:
        for exps in ((2, -2, 1), (1, -1, 3), (-1, 1, -2), (2, -1, -1)):
            d = OrderedDict((c, ["m", e]) for c, e in zip(same, exps))
            q = ObtainQuantity(d)
            ju = joined([("m", e) for e in exps])
            exp_unit = rend([(u, e) for u, e in ju if e != 0], False)
            if q.GetUnit() != exp_unit:
                return {"reproduced": True, "call": "ObtainQuantity(%r).GetUnit()" % dict(d), "observed": q.GetUnit(), "expected": exp_unit}
    cats = [("length", "m"), ("time", "s"), ("mass", "kg"), ("depth", "cm"), ("temperature", "K")]
    cats = [(c, u) for c, u in cats if c in db.categories_to_quantity_types and u in db.unit_to_unit_info]
    for n in (1, 2, 3):
        for combo in itertools.permutations(cats, n):
            for exps in itertools.product((-2, -1, 1, 3), repeat=n):
                if n == 1 and exps[0] == 1:
                    continue
                d = OrderedDict((c, [u, e]) for (c, u), e in zip(combo, exps))
                q = ObtainQuantity(d)
                seq = [(c, u, e) for (c, u), e in zip(combo, exps)]
                exp_cat = rend([(c, e) for c, u, e in seq], True)
                exp_qt = rend(joined([(db.GetCategoryQuantityType(c), e) for c, u, e in seq]), True)
                ju = joined([(u, e) for c, u, e in seq])
                exp_unit = rend(ju, False)
                got = (q.GetCategory(), q.GetQuantityType(), q.GetUnit())
                if got != (exp_cat, exp_qt, exp_unit):
                    return {"reproduced": True, "call": "ObtainQuantity(%r)" % dict(d), "observed": got, "expected": (exp_cat, exp_qt, exp_unit)}
                if sorted(parse(q.GetUnit())) != sorted((u, e) for u, e in ju if e != 0):
                    return {"reproduced": True, "call": "parse(%r)" % q.GetUnit(), "observed": parse(q.GetUnit()), "expected": ju}
                # the unit-name string: the registered names of the units, joined per name, long form
                jn = joined([(db.GetUnitName(db.GetCategoryQuantityType(c), u), e) for c, u, e in seq])
                exp_name = rend(jn, True)
                if q.GetUnitName() != exp_name:
                    return {"reproduced": True, "call": "ObtainQuantity(%r).GetUnitName()" % dict(d), "observed": q.GetUnitName(), "expected": exp_name}
    return {"reproduced": False}


@probe("unit_system_manager")
def unit_system_manager(h):
    """C17: histories of the unit-system manager with a listener log and an invariant check after every step"""
    from barril.units.unit_system_manager import UnitSystemManager
    from barril.units import Scalar

    def fresh():
        m = UnitSystemManager()
        log = []
        m.on_current.Register(lambda s: log.append(("current", s.GetId())))
        m.on_unit_changed.Register(lambda c, u: log.append(("unit", c, u)))
        return m, log

    def inv(m, systems):
        bad = []
        for i, s in m.GetUnitSystems().items():
            if s.GetId() != i:
                bad.append("system stored under %r has id %r" % (i, s.GetId()))
        cur = m.GetCurrent()
        if cur.GetId() is not None and not any(cur is s for s in m.GetUnitSystems().values()):
            bad.append("current system %r is not registered" % cur.GetId())
        return bad

    # 1. removing a system while none is current
    m, log = fresh()
    a = m.AddUnitSystem("a", "A", {"length": "m"})
    m.current = None
    del log[:]
    before = list(m.GetUnitSystems())
    try:
        m.RemoveUnitSystem("a")
    except Exception as e:
        return {"reproduced": True, "call": "RemoveUnitSystem('a') with no current system", "observed": "%r; systems before %r, after %r" % (e, before, list(m.GetUnitSystems())), "expected": "the system is removed (or the call is rejected and nothing changes)"}
    if "a" in m.GetUnitSystems() or log:
        return {"reproduced": True, "call": "RemoveUnitSystem('a') with no current system", "observed": [list(m.GetUnitSystems()), log], "expected": "removed, no notification"}
    # 2. two systems built from one dict must not share it
    m, log = fresh()
    d = {"length": "m"}
    a = m.AddUnitSystem("a", "A", d)
    b = m.AddUnitSystem("b", "B", d)
    del log[:]
    b.SetDefaultUnit("length", "cm")
    if a.GetDefaultUnit("length") != "m" or d != {"length": "m"} or log:
        return {"reproduced": True, "call": "b.SetDefaultUnit('length','cm') where a (current) and b were added with the same dict", "observed": {"a": a.GetDefaultUnit("length"), "caller dict": d, "notifications": log}, "expected": "a and the caller's dict unchanged, no notification (b is not current)"}
    # 3. a longer history with notifications
    m, log = fresh()
    steps = [
        ("add a", lambda: m.AddUnitSystem("a", "A", {"length": "m", "time": "s"}), [("current", "a")]),
        ("add b", lambda: m.AddUnitSystem("b", "B", {"length": "cm", "time": "min"}), []),
        ("add a again", lambda: m.AddUnitSystem("a", "A2", {}), "raise"),
        ("b.SetDefaultUnit", lambda: m.GetUnitSystemById("b").SetDefaultUnit("length", "km"), []),
        ("a.SetDefaultUnit", lambda: m.GetUnitSystemById("a").SetDefaultUnit("length", "ft"), [("unit", "length", "ft")]),
        ("current = b", lambda: setattr(m, "current", m.GetUnitSystemById("b")), [("current", "b")]),
        ("a.SetDefaultUnit (not current)", lambda: m.GetUnitSystemById("a").SetDefaultUnit("length", "m"), []),
        ("b.RemoveCategory", lambda: m.GetUnitSystemById("b").RemoveCategory("time"), [("unit", "time", None)]),
        ("template", lambda: m.SetTemplateUnitSystemByUnitsMapping({"length": "m"}), []),
        ("template not covered", lambda: m.SetTemplateUnitSystemByUnitsMapping({"mass": "kg"}), "raise"),
        ("add c without length", lambda: m.AddUnitSystem("c", "C", {"time": "s"}), "raise"),
        ("remove b (current)", lambda: m.RemoveUnitSystem("b"), [("current", "a")]),
        ("current = None", lambda: setattr(m, "current", None), [("current", None)]),
        ("a.SetDefaultUnit (no current)", lambda: m.GetUnitSystemById("a").SetDefaultUnit("length", "mm"), []),
        ("add d (none current)", lambda: m.AddUnitSystem("d", "D", {"length": "m"}), [("current", "d")]),
        ("a.SetDefaultUnit (d current)", lambda: m.GetUnitSystemById("a").SetDefaultUnit("length", "in"), []),
        ("remove d (current)", lambda: m.RemoveUnitSystem("d"), [("current", "a")]),
        ("remove a (last)", lambda: m.RemoveUnitSystem("a"), [("current", None)]),
    ]
    for name, f, expect in steps:
        del log[:]
        ids0 = list(m.GetUnitSystems())
        cur0 = m.GetCurrent().GetId()
        try:
            f()
            raised = False
        except Exception as e:
            raised = True
            if expect != "raise":
                return {"reproduced": True, "call": name, "observed": repr(e), "expected": "accepted, notifications %r" % (expect,)}
            if list(m.GetUnitSystems()) != ids0 or m.GetCurrent().GetId() != cur0 or log:
                return {"reproduced": True, "call": name + " (rejected)", "observed": [list(m.GetUnitSystems()), m.GetCurrent().GetId(), log], "expected": "nothing changes"}
        if expect == "raise" and not raised:
            return {"reproduced": True, "call": name, "observed": "accepted", "expected": "rejected"}
        if expect != "raise" and log != expect:
            return {"reproduced": True, "call": name, "observed": log, "expected": expect}
        bad = inv(m, None)
        if bad:
            return {"reproduced": True, "call": name, "observed": bad, "expected": "manager invariant"}
    # 4. ConvertToCurrent / ConvertScalarToCurrent
    m, log = fresh()
    m.AddUnitSystem("a", "A", {"depth": "km", "length": "cm"})
    r = m.ConvertToCurrent("depth", "m", 1500.0)
    if r != (1.5, "km") or m.ConvertToCurrent("time", "s", 2.0) != (2.0, "s"):
        return {"reproduced": True, "call": "ConvertToCurrent", "observed": r, "expected": (1.5, "km")}
    s = m.ConvertScalarToCurrent(Scalar(1500.0, "m", "depth"))
    if (s.GetValue(), s.GetUnit(), s.GetCategory()) != (1.5, "km", "depth"):
        return {"reproduced": True, "call": "ConvertScalarToCurrent(Scalar(1500.0, 'm', 'depth'))", "observed": repr(s), "expected": "Scalar(1.5, 'km', 'depth')"}
    return {"reproduced": False}


@probe("c06_row")
def c06_row(h):
    """C06: a Scalar in the named unit vs the same amount built from Scalars in the component units"""
    import re
    from barril.units import Scalar
    from barril.units.unit_database import UnitDatabase

    db = UnitDatabase.GetSingleton()
    U = db.unit_to_unit_info
    sym = h["unit"]
    if sym not in U:
        return {"reproduced": False, "note": "unit not registered"}
    qt = U[sym].quantity_type
    base = db.GetBaseUnit(qt)

    def k(u):
        return U[u].tobase(1.0) - U[u].tobase(0.0)

    if h.get("kind") == "prefix":
        x, n = h["of"], h["power"]
        got, exp = k(sym), k(x) * 10.0**n
        bad = abs(got - exp) > 1e-9 * abs(exp)
        return {"reproduced": bool(bad), "call": "Scalar(1, %r).GetValue(%r)" % (sym, base), "observed": got, "expected": "%g = 10^%d x Scalar(1, %r)" % (exp, n, x)}

    def tokens(s):
        out = []
        parts = s.split("/")
        for i, part in enumerate(parts):
            if i == 0 and part == "1":
                continue
            for tok in part.split("."):
                pre, atom, e = 1.0, tok, 1
                if atom not in U:
                    m = re.match(r"^(.*?)(\d+)$", atom)
                    if m and m.group(1) in U:
                        atom, e = m.group(1), int(m.group(2))
                    else:
                        m = re.match(r"^(\d+(?:\.\d+)?)(\D.*)$", atom)
                        if not m:
                            return None
                        pre, atom = float(m.group(1)), m.group(2)
                        m2 = re.match(r"^(.*?)(\d+)$", atom)
                        if atom not in U and m2 and m2.group(1) in U:
                            atom, e = m2.group(1), int(m2.group(2))
                if atom not in U:
                    return None
                out.append((pre, atom, e if i == 0 else -e))
        return out

    def amount(s):
        toks = tokens(s)
        if toks is None or (len(toks) == 1 and toks[0][0] == 1.0 and toks[0][2] == 1):
            return None
        v = 1.0
        for pre, atom, e in toks:
            v *= (pre ** (1 if e > 0 else -1)) * k(atom) ** e
        return v

    P = amount(sym)
    if P is None:
        return {"reproduced": False, "note": "symbol does not decompose natively"}
    cT = amount(base) or 1.0
    got = k(sym) * cT
    rel = abs(got - P) / abs(P)
    return {"reproduced": bool(rel > 1e-7), "call": "Scalar(1, %r) in base units of %r vs the product of its component units" % (sym, qt), "observed": got, "expected": P, "relative_difference": rel}


def _value_objects():
    from collections import OrderedDict
    import numpy
    from barril.units import Scalar, Array, FixedArray, FractionScalar, ObtainQuantity
    from barril.units.unit_system import UnitSystem
    from barril.basic.fraction import Fraction, FractionValue
    from barril.curve.curve import Curve

    objs = [
        ObtainQuantity("m", "length"), ObtainQuantity(OrderedDict([("length", ["m", 2])])),
        Scalar(1.0, "m"), Scalar(100.0, "cm"), Scalar(1.0, "m", "depth"), Scalar(1.0, "m") * Scalar(1.0, "m"),
        Array([1.0, 2.0], "m"), Array((1.0, 2.0), "m"), Array(numpy.array([1.0, 2.0]), "m"), Array([], "m"),
        Array(numpy.array([1.0, 2.0, 3.0]), "m"), Array(numpy.array([1.0]), "m"), Array(numpy.array([]), "m"), Array(numpy.array([1.0, 1.0]), "m"),
        FixedArray(2, numpy.array([1.0, 2.0]), "m"), FixedArray(3, numpy.array([1.0, 2.0, 3.0]), "m"),
        Curve(Array(numpy.array([1.0, 2.0, 3.0]), "m"), Array(numpy.array([0.0, 1.0, 2.0]), "s")),
        FixedArray(2, [1.0, 2.0], "m"), FixedArray(3, [1.0, 2.0, 3.0], "m"),
        FractionScalar("length", value=FractionValue(1, Fraction(1, 2)), unit="m"), FractionScalar(1.5, "m"),
        FractionValue(1, Fraction(1, 2)), FractionValue(1.5), Fraction(1, 2), Fraction(2, 4), Fraction(3, 1),
        Curve(Array([1.0, 2.0], "m"), Array([0.0, 1.0], "s")),
        UnitSystem("a", "A", {"length": "m"}), UnitSystem("a", "A", {"length": "m"}, True),
        UnitSystem("a", "A", {"length": "m", "time": "s"}), UnitSystem("a", "A", {}), UnitSystem("a", "A", {"length": "cm"}),
    ]
    others = [None, 0, 1.5, "m", (1, 2), [1.0, 2.0], object(), {"a": 1}]
    return objs, others


@probe("equality")
def equality(h):
    """C08: == and != between barril value objects and unrelated objects never raise, are reflexive and symmetric;
    equal hashable objects have equal hashes"""
    objs, others = _value_objects()
    for x in objs:
        for y in objs + others:
            res = []
            for name, f in (("x == y", lambda: x == y), ("y == x", lambda: y == x), ("x != y", lambda: x != y), ("y != x", lambda: y != x)):
                try:
                    res.append(bool(f()))
                except Exception as e:
                    return {"reproduced": True, "call": "%s with x=%r (%s), y=%r (%s)" % (name, x, type(x).__name__, y, type(y).__name__), "observed": repr(e), "expected": "a bool"}
            if res[0] != res[1] or res[2] != res[3] or res[0] == res[2]:
                return {"reproduced": True, "call": "==/!= between %r and %r" % (x, y), "observed": res, "expected": "symmetric, != is the negation of =="}
            if res[0] and hasattr(x, "GetValues") and hasattr(y, "GetValues") and list(x.GetValues()) != list(y.GetValues()):
                return {"reproduced": True, "call": "%r == %r" % (x, y), "observed": True, "expected": "False (different values / lengths)"}
            if res[0]:
                try:
                    hx, hy = hash(x), hash(y)
                except TypeError:
                    continue
                if hx != hy:
                    return {"reproduced": True, "call": "hash of equal objects %r, %r" % (x, y), "observed": [hx, hy], "expected": "equal hashes"}
        try:
            if not (x == x) or (x != x):
                return {"reproduced": True, "call": "%r == itself" % (x,), "observed": False, "expected": True}
        except Exception as e:
            return {"reproduced": True, "call": "%r == itself" % (x,), "observed": repr(e), "expected": True}
    return {"reproduced": False}


@probe("fractions")
def fractions_probe(h):
    """C18/C08: Fraction vs fractions.Fraction on a grid; FractionValue amount; equality totality"""
    import copy
    import fractions
    import operator
    from barril.basic.fraction import Fraction, FractionValue

    grid = [(n, d) for n in (-7, -2, -1, 0, 1, 3, 10) for d in (-4, -1, 1, 2, 6)]
    ops = {"+": operator.add, "-": operator.sub, "*": operator.mul, "/": operator.truediv}
    cmps = {"==": operator.eq, "<": operator.lt, "<=": operator.le, ">": operator.gt, ">=": operator.ge, "!=": operator.ne}
    for n1, d1 in grid:
        for n2, d2 in grid:
            a, b = Fraction(n1, d1), Fraction(n2, d2)
            ra, rb = fractions.Fraction(n1, d1), fractions.Fraction(n2, d2)
            for s, f in ops.items():
                if s == "/" and n2 == 0:
                    continue
                r = f(a, b)
                if fractions.Fraction(r.numerator, r.denominator) != f(ra, rb):
                    return {"reproduced": True, "call": "Fraction(%d,%d) %s Fraction(%d,%d)" % (n1, d1, s, n2, d2), "observed": repr(r), "expected": str(f(ra, rb))}
            for s, f in cmps.items():
                if f(a, b) != f(ra, rb):
                    return {"reproduced": True, "call": "Fraction(%d,%d) %s Fraction(%d,%d)" % (n1, d1, s, n2, d2), "observed": f(a, b), "expected": f(ra, rb)}
            va, vb = FractionValue(2, a), FractionValue(-1.5, b)
            if float(va) != 2 + float(ra) or (va < vb) != (float(va) < float(vb)) or (va >= vb) != (float(va) >= float(vb)):
                return {"reproduced": True, "call": "FractionValue(2, %r)" % (a,), "observed": float(va), "expected": 2 + float(ra)}
            c = copy.copy(va)
            if not (c == va and c is not va and c.GetFraction() is not va.GetFraction()):
                return {"reproduced": True, "call": "copy.copy(%r)" % (va,), "observed": repr(c), "expected": "an equal, independent copy"}
    r = equality({})
    if r.get("reproduced"):
        return r
    return {"reproduced": False}


@probe("fraction_scalar")
def fraction_scalar(h):
    """C18/C08: a FractionScalar converts, orders and validates like a Scalar holding float(value)"""
    import operator
    from barril.units import FractionScalar, Scalar
    from barril.basic.fraction import Fraction, FractionValue

    clause = h.get("clause") or ""
    vals = [FractionValue(5, Fraction(1, 2)), FractionValue(0, Fraction(3, 4)), FractionValue(-2, Fraction(1, 8)), FractionValue(1.25), FractionValue(-2, Fraction(-1, 2)), FractionValue(0, Fraction(-3, 4)), FractionValue.CreateFromFloat(-2.5)]
    pairs = [("m", "cm"), ("in", "ft"), ("degC", "K"), ("degF", "degC")]
    want_affine = "affine" in clause
    want_order = "order" in clause or bool(h.get("variant") and h["variant"][0] in ("lt", "le", "gt", "ge"))

    def conversions(include_affine):
        for v in vals:
            for u, w in pairs:
                affine = u.startswith("deg")
                if affine != include_affine:
                    continue
                fs = FractionScalar(v, u)
                sc = Scalar(float(v), u)
                before = (repr(fs.GetValue()), float(fs.GetValue()), fs.GetUnit())
                got, exp = float(fs.GetValue(w)), sc.GetValue(w)
                fs < FractionScalar(v, w)
                if (repr(fs.GetValue()), float(fs.GetValue()), fs.GetUnit()) != before:
                    return {"reproduced": True, "call": "FractionScalar(%r, %r).GetValue(%r) / comparison" % (v, u, w), "observed": "operand afterwards: %r" % (fs.GetValue(),), "expected": "operand unchanged: %s" % before[0]}
                if abs(got - exp) > 1e-7 * max(1.0, abs(exp)):
                    return {"reproduced": True, "call": "float(FractionScalar(%r, %r).GetValue(%r))" % (v, u, w), "observed": got, "expected": exp}
                if float(fs.GetValue(u)) != float(v) or fs.GetValue() is not fs.value:
                    return {"reproduced": True, "call": "FractionScalar(%r, %r).GetValue(own unit)" % (v, u), "observed": float(fs.GetValue(u)), "expected": float(v)}
        return None

    if want_affine:
        return conversions(True) or {"reproduced": False}
    if not want_order:
        r = conversions(False) or conversions(True)
        if r:
            return r
    ops = {"<": operator.lt, "<=": operator.le, ">": operator.gt, ">=": operator.ge}
    items = [(FractionValue(1), "m", None), (FractionValue(100), "cm", None), (FractionValue(1), "m", "depth"), (FractionValue(0, Fraction(1, 2)), "m", None), (FractionValue(50), "cm", "depth")]
    if True:
        for va, ua, ca in items:
            for vb, ub, cb in items:
                a = FractionScalar(va, ua, ca) if ca else FractionScalar(va, ua)
                b = FractionScalar(vb, ub, cb) if cb else FractionScalar(vb, ub)
                pa, pb = Scalar(float(va), ua), Scalar(float(vb), ub)
                for s, f in ops.items():
                    exp = f(pa.GetValue("m"), pb.GetValue("m"))
                    try:
                        got = f(a, b)
                    except Exception as e:
                        got = repr(e)
                    if got != exp:
                        return {"reproduced": True, "call": "%r %s %r" % (a, s, b), "observed": got, "expected": exp}
        try:
            FractionScalar(FractionValue(1), "m") < FractionScalar(FractionValue(1), "s")
            return {"reproduced": True, "call": "FractionScalar in m < FractionScalar in s", "observed": "no error", "expected": "TypeError"}
        except TypeError:
            pass
    return {"reproduced": False}


@probe("c18_bounded")
def c18_bounded(h):
    """BOUNDED stand-in (not a proof): format/parse round trip of FractionValue and CreateFromFloat on a grid"""
    from barril.basic.fraction import Fraction, FractionValue

    n = 0
    # str / CreateFromString round trip: numbers -50..50 (step 1 and .5/.25), fractions n/d with d in 2..16
    numbers = [x * 0.25 for x in range(-200, 201)]
    fracs = [(a, d) for d in (2, 3, 4, 8, 16) for a in range(0, d)]
    for num in numbers:
        for a, d in fracs:
            if a and float(num) % 1 != 0:
                continue  # the textual form 'number fraction' is used with whole numbers
            v = FractionValue(num, Fraction(a, d))
            n += 1
            text = str(v)
            try:
                back = FractionValue.CreateFromString(text, consider_locale=False)
            except Exception as e:
                return {"reproduced": True, "call": "CreateFromString(str(%r)) = CreateFromString(%r)" % (v, text), "observed": repr(e), "expected": repr(v), "evaluations": n}
            if float(back) != float(v) or back.GetNumber() != v.GetNumber() or back.GetFraction() != v.GetFraction():
                return {"reproduced": True, "call": "CreateFromString(str(%r)) = CreateFromString(%r)" % (v, text), "observed": repr(back), "expected": repr(v), "evaluations": n}
    # CreateFromFloat: k/64 for k in -640..640, and decimals with up to 3 digits in (-10, 10)
    floats = [k / 64.0 for k in range(-640, 641)] + [k / 1000.0 for k in range(-9999, 10000, 7)]
    for x in floats:
        n += 1
        try:
            v = FractionValue.CreateFromFloat(x)
        except Exception as e:
            return {"reproduced": True, "call": "CreateFromFloat(%r)" % x, "observed": repr(e), "expected": "a FractionValue denoting %r" % x, "evaluations": n}
        if abs(float(v) - x) > 1e-9 * max(1.0, abs(x)):
            return {"reproduced": True, "call": "CreateFromFloat(%r)" % x, "observed": "%r = %r" % (v, float(v)), "expected": x, "evaluations": n}
    return {"reproduced": False, "evaluations": n}


@probe("array_getvalues")
def array_getvalues(h):
    """C02/C10: Array.GetValues(unit) equals the database float conversion element by element, any container kind"""
    import numpy
    from barril.units import Array

    def flat(x):
        out = []
        for e in x:
            if isinstance(e, tuple):
                out.extend(e)
            else:
                out.append(float(e))
        return out

    data = [0.0, 100.0, -40.0, 37.0]
    # all-zero amounts in every container kind (an offset unit does not map zero to zero)
    for kind, mk in (("list", list), ("tuple", tuple), ("ndarray", numpy.array)):
        for u, w in (("degC", "K"), ("degF", "degC"), ("m", "cm")):
            z = Array(mk([0.0, 0.0]), u)
            got = [float(x) for x in z.GetValues(w)]
            exp = [z.GetUnitDatabase().Convert(z.GetQuantityType(), u, w, 0.0)] * 2
            if any(not close(x, y, 1e-12) for x, y in zip(got, exp)) or len(got) != 2:
                return {"reproduced": True, "call": "Array(%s([0.0, 0.0]), %r).GetValues(%r)" % (kind, u, w), "observed": got, "expected": exp}
    containers = {
        "list": list(data), "tuple": tuple(data), "ndarray": numpy.array(data),
        "list-of-tuples": [(0.0, 100.0), (-40.0, 37.0)], "tuple-of-tuples": ((0.0, 100.0), (-40.0, 37.0)),
    }
    for name, vals in containers.items():
        for u, w, cat in (("m", "km", None), ("degC", "degF", None), ("degF", "K", None), ("psi", "Pa", None), ("cm", "m", "depth")):
            a = Array(vals, u, cat) if cat else Array(vals, u)
            db = a.GetUnitDatabase()
            before = repr(a.GetValues())
            got = a.GetValues(w)
            exp = [db.Convert(a.GetQuantityType(), u, w, x) for x in flat(vals)]
            if name in ("list", "tuple", "ndarray"):
                kind_ok = type(got) is type(vals)
            else:
                kind_ok = type(got) is type(vals) and all(isinstance(e, tuple) for e in got)
            if not kind_ok or len(flat(got)) != len(exp) or any(not close(x, y, 1e-12) for x, y in zip(flat(got), exp)):
                return {"reproduced": True, "call": "Array(%r, %r).GetValues(%r)" % (vals, u, w), "observed": repr(got), "expected": exp}
            if a.GetValues(u) is not a.GetValues() or repr(a.GetValues()) != before:
                return {"reproduced": True, "call": "Array(%r, %r).GetValues(own unit)" % (vals, u), "observed": "a different / changed container", "expected": "the stored container, unchanged"}
            c = a.CreateCopy(unit=w)
            if c.GetCategory() != a.GetCategory() or c.GetUnit() != w or any(not close(x, y, 1e-12) for x, y in zip(flat(c.GetValues()), exp)):
                return {"reproduced": True, "call": "Array(%r, %r, %r).CreateCopy(unit=%r)" % (vals, u, a.GetCategory(), w), "observed": repr(c), "expected": "category %r, values %r" % (a.GetCategory(), exp)}
    return {"reproduced": False}


@probe("validity")
def validity(h):
    """C12: IsValid / CheckValidity of Scalars and Arrays depend only on the amounts (unit, container kind,
    element order, NaN elements skipped)"""
    import itertools
    import math
    import numpy
    from barril.units import Array, Scalar
    from barril.units.unit_database import UnitDatabase
    from barril.units.exceptions import QuantityValidationError

    db = UnitDatabase.CreateDefaultSingleton() if False else UnitDatabase.GetSingleton()
    cats = []
    for name, kw in (("probe depth", dict(min_value=0.0, max_value=15.0)), ("probe depth ex", dict(min_value=0.0, max_value=15.0, is_min_exclusive=True, is_max_exclusive=True, default_value=1.0)), ("probe min only", dict(min_value=2.0))):
        if name not in db.categories_to_quantity_types:
            db.AddCategory(name, "length", **kw)
        cats.append(name)
    mk = {"list": list, "tuple": tuple, "ndarray": lambda v: numpy.array(v, dtype=float)}
    base_sets = [[0.0, 20.0, 5.0], [3.0, 4.0, 5.0], [15.0, 0.0], [float("nan"), 7.0, float("nan"), 20.0, 1.0], [float("nan"), float("nan")], [-1.0, 5.0], [2.0]]
    for cat in cats:
        ci = db.GetCategoryInfo(cat)
        for vals in base_sets:
            for perm in set(itertools.permutations(vals)) if len(vals) <= 4 else [tuple(vals), tuple(reversed(vals))]:
                for unit, f in (("m", 1.0), ("cm", 100.0), ("km", 0.001)):
                    scaled = [v * f for v in perm]
                    exp = True
                    for v in perm:
                        if math.isnan(v):
                            continue
                        exp = exp and Scalar(cat, v, "m").IsValid()
                    for kind, g in mk.items():
                        a = Array(cat, g(scaled), unit)
                        got = a.IsValid()
                        if got != exp:
                            return {"reproduced": True, "call": "Array(%r, %r, %r).IsValid()" % (cat, g(scaled), unit), "observed": got, "expected": exp}
                        try:
                            a2 = Array(cat, g(scaled), unit)
                            a2.CheckValidity()
                            ok = True
                        except QuantityValidationError:
                            ok = False
                        if ok != exp:
                            return {"reproduced": True, "call": "Array(%r, %r, %r).CheckValidity()" % (cat, g(scaled), unit), "observed": "accepted" if ok else "rejected", "expected": "accepted" if exp else "rejected"}
        for v in (-1.0, 0.0, 2.0, 15.0, 16.0, float("nan")):
            ok_m = Scalar(cat, v, "m").IsValid()
            for unit, f in (("cm", 100.0), ("km", 0.001)):
                if Scalar(cat, v * f, unit).IsValid() != ok_m:
                    return {"reproduced": True, "call": "Scalar(%r, %r, %r).IsValid()" % (cat, v * f, unit), "observed": not ok_m, "expected": ok_m}
            lim_ok = (not math.isnan(v)) and (ci.min_value is None or (v > ci.min_value if ci.is_min_exclusive else v >= ci.min_value)) and (ci.max_value is None or (v < ci.max_value if ci.is_max_exclusive else v <= ci.max_value))
            if ok_m != lim_ok:
                return {"reproduced": True, "call": "Scalar(%r, %r, 'm').IsValid()" % (cat, v), "observed": ok_m, "expected": lim_ok}
    # a copy re-tagged with another category answers for ITS category, whatever the source had memoised
    src = Array("length", [-5.0, 50.0, 250.0], "m")
    src.IsValid()
    cp = src.CreateCopy(unit="km", category="probe depth")
    if cp.IsValid() or Array("probe depth", [-0.005, 0.05, 0.25], "km").IsValid():
        return {"reproduced": True, "call": "a = Array('length', [-5, 50, 250], 'm'); a.IsValid(); a.CreateCopy(unit='km', category='probe depth').IsValid()  (limits [0, 15] m)", "observed": cp.IsValid(), "expected": False}
    bad = Array("probe depth", [-5.0, 50.0], "m")
    bad.IsValid()
    cp2 = bad.CreateCopy(unit="m", category="length")
    if not cp2.IsValid():
        return {"reproduced": True, "call": "an invalid 'probe depth' Array re-tagged as plain length", "observed": False, "expected": True}
    # limits are stated in the category's default unit, which need not be the base unit of the quantity type
    name = "probe reach km"
    if name not in db.categories_to_quantity_types:
        db.AddCategory(name, "length", default_unit="km", valid_units=["km", "m", "cm"], min_value=0.5, max_value=15.0, default_value=1.0)
    for v_km in (0.1, 0.5, 1.0, 15.0, 15.5, 0.02):
        exp = 0.5 <= v_km <= 15.0
        for unit, f in (("km", 1.0), ("m", 1000.0), ("cm", 100000.0)):
            sc = Scalar(name, v_km * f, unit)
            if sc.IsValid() != exp:
                return {"reproduced": True, "call": "Scalar(%r, %r, %r).IsValid() with limits [0.5, 15] km" % (name, v_km * f, unit), "observed": sc.IsValid(), "expected": exp}
            ar = Array(name, [v_km * f], unit)
            if ar.IsValid() != exp:
                return {"reproduced": True, "call": "Array(%r, [%r], %r).IsValid() with limits [0.5, 15] km" % (name, v_km * f, unit), "observed": ar.IsValid(), "expected": exp}
    return {"reproduced": False}


@probe("convert_exp")
def convert_exp(h):
    """C02/C06: re-expressing an amount given in a power of a unit: v [u**e] is v * (k_u/k_w)**e [w**e] for scale-only
    units (k = base units per unit), for zero and negative amounts too; through UnitDatabase.Convert with
    (unit, exponent) lists, Quantity.Convert of derived quantities and 1/Scalar"""
    from barril.units import UnitDatabase, Scalar, Quantity

    db = UnitDatabase.GetSingleton()
    m = (h or {}).get("model") or {}
    vals = [0.0, 1.0, 0.25, -6.0, 2.5]
    mv = num(m.get("value"), None)
    if mv is not None and mv not in vals:
        vals.insert(0, mv)
    exps = [-1, -2, 2, 3, -3, 1]
    me = num(m.get("from_exp0"), None)
    if me is not None and int(me) in exps:
        exps.remove(int(me))
        exps.insert(0, int(me))
    pairs = [("volume", "galUK", "m3"), ("length", "ft", "m"), ("length", "m", "cm"), ("time", "h", "s"), ("mass", "g", "kg"), ("pressure", "psi", "Pa")]
    for qt, u, w in pairs:
        ku = db.Convert(qt, u, db.GetBaseUnit(qt), 1.0)
        kw = db.Convert(qt, w, db.GetBaseUnit(qt), 1.0)
        for e in exps:
            for v in vals:
                exp = v * (ku / kw) ** e
                for desc, fn in (
                    ("UnitDatabase.Convert(%r, [(%r, %d)], [(%r, %d)], %r)" % (qt, u, e, w, e, v), lambda: db.Convert(qt, [(u, e)], [(w, e)], v)),
                    ("Quantity.CreateDerived({%r: [%r, %d]}).Convert(%r, [(%r, %d)])" % (qt, u, e, v, w, e), lambda: Quantity.CreateDerived({qt: [u, e]}).Convert(v, [(w, e)])),
                ):
                    try:
                        got = fn()
                    except Exception as ex:
                        return {"reproduced": True, "call": desc, "observed": "%s: %s" % (type(ex).__name__, ex), "expected": exp}
                    if not close(got, exp, 1e-9):
                        return {"reproduced": True, "call": desc, "observed": got, "expected": exp}
        # the amount built from component Scalars against the named reciprocal row, where the table has one
        for named, target in (("1/" + u, "1/" + w),):
            try:
                row = Scalar(0.25, named).GetValue(target)
            except Exception:
                continue
            s = 1.0 / Scalar(4.0, u)
            got = s.GetQuantity().Convert(s.GetValue(), [(w, -1)])
            if not close(got, row, 1e-6):
                return {"reproduced": True, "call": "(1.0 / Scalar(4.0, %r)) re-expressed per %s" % (u, w), "observed": got, "expected": "Scalar(0.25, %r).GetValue(%r) = %r" % (named, target, row)}
    return {"reproduced": False}


@probe("pure_queries")
def pure_queries(h):
    """C15: a read-only query leaves the registry as it was and answers the same when asked again"""
    h = h or {}
    fillers = [h["filler"]] if h.get("filler") else ["simple", "posc"]

    def canon(r):
        if isinstance(r, (list, tuple)):
            return [canon(x) for x in r]
        if hasattr(r, "unit") and hasattr(r, "quantity_type"):
            return ("UnitInfo", r.unit)
        if hasattr(r, "category") and hasattr(r, "quantity_type"):
            return ("CategoryInfo", r.category)
        if hasattr(r, "__iter__") and not isinstance(r, (str, dict, set, frozenset)):
            return [canon(x) for x in r]
        return r

    for filler in fillers:
        db = fresh_db(filler)
        ref = fresh_db(filler)
        calls = []
        if h.get("method"):
            calls.append((h["method"], [tuple(a) if isinstance(a, list) and a and not isinstance(a[0], list) and not isinstance(a[0], str) else a for a in h.get("args", [])]))
        q0 = "length"
        calls += [("GetUnits", []), ("GetInfos", []), ("GetQuantityTypes", []), ("GetUnits", [q0]), ("GetInfos", [q0]), ("GetUnitNames", [q0]), ("GetBaseUnit", [q0]), ("GetInfo", [q0, "m"]), ("GetDefaultCategory", ["m"]), ("FindUnitCase", ["M"])]
        for meth, args in calls:
            args = [[tuple(x) for x in a] if isinstance(a, list) and a and isinstance(a[0], (list, tuple)) else a for a in args]
            before = (_snapshot(db), _reports(db))
            outs = []
            for _ in range(2):
                try:
                    outs.append(("return", repr(canon(getattr(db, meth)(*args)))))
                except Exception as e:
                    outs.append(("raise", type(e).__name__))
            call = "%s db.%s(%s)" % (filler, meth, ", ".join(repr(a) for a in args))
            after = (_snapshot(db), _reports(db))
            if after != before:
                return {"reproduced": True, "call": call, "observed": "the registry reports something else after the call", "expected": "unchanged registry"}
            if outs[0] != outs[1]:
                return {"reproduced": True, "call": call + " twice", "observed": "%s then %s" % (outs[0][1][:300], outs[1][1][:300]), "expected": "the same answer"}
            try:
                fresh = ("return", repr(canon(getattr(ref, meth)(*args))))
            except Exception as e:
                fresh = ("raise", type(e).__name__)
            if fresh != outs[1]:
                return {"reproduced": True, "call": call + " on a used vs a fresh database", "observed": outs[1][1][:300], "expected": fresh[1][:300]}
    return {"reproduced": False}


@probe("c09_float_bounded")
def c09_float_bounded(h):
    """BOUNDED stand-in (not a proof): the binary operators between a Scalar / Array / FixedArray and a plain
    number apply exactly Python's (numpy's) own float operation to the stored value(s) - bit for bit, which the
    real-number model of the deductive check cannot see (floor division of quotients that round to an integer,
    integers above 2**53) - and keep / invert the unit"""
    import operator
    import numpy
    from barril.units import Scalar, Array, FixedArray

    n = 0
    vals = [1.0, 3.5, 0.3, 7.0, -2.5, 0.7, 1e-3, 12345.678, 4.35, 100.0]
    ks = [0.1, 0.2, 0.3, 0.7, 2, 3, -0.1, 1.0, 1e-3, 2.5, 10, 0.05]
    ops = [("+", operator.add), ("-", operator.sub), ("*", operator.mul), ("/", operator.truediv), ("//", operator.floordiv)]

    def same(a, b):
        return a == b or (a != a and b != b)

    def check(desc, got, exp_vals, exp_unit):
        if not hasattr(got, "GetUnit"):
            return {"reproduced": True, "call": desc, "observed": "%r (no unit)" % (got,), "expected": "a barril object", "evaluations": n}
        gv = got.GetValue() if isinstance(got, Scalar) else list(got.GetValues())
        ev = exp_vals if isinstance(got, Scalar) else list(exp_vals)
        ok = same(gv, ev) if isinstance(got, Scalar) else (len(gv) == len(ev) and all(same(float(x), float(y)) for x, y in zip(gv, ev)))
        if not ok or (exp_unit is not None and got.GetUnit() != exp_unit):
            return {"reproduced": True, "call": desc, "observed": "%r [%s]" % (gv, got.GetUnit()), "expected": "%r [%s]" % (ev, exp_unit), "evaluations": n}
        return None

    for k in ks:
        for sym, op in ops:
            for a in vals:
                n += 2
                r = check("Scalar(%r, 'm') %s %r" % (a, sym, k), op(Scalar(a, "m"), k), op(a, k), "m")
                if r:
                    return r
                r = check("%r %s Scalar(%r, 'm')" % (k, sym, a), op(k, Scalar(a, "m")), op(k, a), "m" if sym in "+-*" else None)
                if r:
                    return r
            for kind, mk in (("list", list), ("tuple", tuple), ("ndarray", numpy.array)):
                n += 2
                x = Array(mk(vals), "m")
                exp = numpy.array(vals) if kind == "ndarray" else None
                r = check("Array(%s(%r), 'm') %s %r" % (kind, vals, sym, k), op(x, k), op(exp, k) if exp is not None else [op(a, k) for a in vals], "m")
                if r:
                    return r
                r = check("%r %s Array(%s(%r), 'm')" % (k, sym, kind, vals), op(k, x), op(k, exp) if exp is not None else [op(k, a) for a in vals], "m" if sym in "+-*" else None)
                if r:
                    return r
            n += 1
            fa = FixedArray(3, tuple(vals[:3]), "m")
            r = check("FixedArray(3, %r, 'm') %s %r" % (tuple(vals[:3]), sym, k), op(fa, k), [op(a, k) for a in vals[:3]], "m")
            if r:
                return r
    big = 10**17 + 1
    n += 1
    r = check("Array([%d], 'm') // 1" % big, Array([big], "m") // 1, [big // 1], "m")
    if r:
        return r
    return {"reproduced": False, "evaluations": n}


@probe("create_derived")
def create_derived(h):
    """C05: Quantity.CreateDerived validates every entry: a unit that does not belong to its category's quantity
    type is rejected wherever it stands in the composition"""
    from collections import OrderedDict
    from barril.units import Quantity
    from barril.units.unit_database import InvalidUnitError, InvalidQuantityTypeError

    bad = [
        [("length", ["m", 1]), ("time", ["m", 1])],
        [("time", ["s", -1]), ("length", ["s", 1])],
        [("length", ["m", 2]), ("time", ["m", -1])],
        [("time", ["m", 1]), ("length", ["m", 1])],
        [("length", ["m", 1]), ("no such category", ["m", 1])],
        [("length", ["lbmole", 2])],
    ]
    for comp in bad:
        try:
            q = Quantity.CreateDerived(OrderedDict((c, list(ue)) for c, ue in comp))
        except (InvalidUnitError, InvalidQuantityTypeError):
            continue
        except Exception as e:
            return {"reproduced": True, "call": "Quantity.CreateDerived(%r)" % comp, "observed": repr(e), "expected": "InvalidUnitError / InvalidQuantityTypeError"}
        return {"reproduced": True, "call": "Quantity.CreateDerived(%r)" % comp, "observed": repr(q), "expected": "InvalidUnitError / InvalidQuantityTypeError"}
    good = [[("length", ["m", 1]), ("depth", ["m", 1])], [("length", ["m", 2]), ("time", ["s", -1])], [("length", ["cm", -1]), ("depth", ["m", 1])]]
    for comp in good:
        try:
            q = Quantity.CreateDerived(OrderedDict((c, list(ue)) for c, ue in comp))
        except Exception as e:
            return {"reproduced": True, "call": "Quantity.CreateDerived(%r)" % comp, "observed": repr(e), "expected": "a quantity"}
        if [(c, list(ue)) for c, ue in q.GetCategoryToUnitAndExps().items()] != [(c, list(ue)) for c, ue in comp]:
            return {"reproduced": True, "call": "Quantity.CreateDerived(%r)" % comp, "observed": repr(q.GetCategoryToUnitAndExps()), "expected": comp}
    return {"reproduced": False}


@probe("array_powers")
def array_powers(h):
    """C03/C04/C10/C13: operands whose unit carries an exponent other than 1 and has to be re-expressed: every
    container kind gives the elementwise Scalar results, and the operands are untouched afterwards"""
    import operator
    import numpy
    from barril.units import Array, Scalar

    mk = {"list": list, "tuple": tuple, "ndarray": lambda v: numpy.array(v, dtype=float)}
    ops = [("*", operator.mul), ("/", operator.truediv), ("+", operator.add), ("-", operator.sub)]
    va, vb = [2.0, 3.0, 5.0], [100.0, 200.0, 400.0]
    for ka in mk:
        for kb in mk:
            a = Array(mk[ka](va), "m")
            b = Array(mk[kb](vb), "cm")
            area_b = b * b  # cm2
            area_a = a * a  # m2
            inv_b = 1.0 / (b * b)  # 1/cm2
            cases = [(a, area_b, "*"), (a, area_b, "/"), (area_a, area_b, "+"), (area_a, area_b, "-"), (area_b, area_a, "+"), (a, inv_b, "*"), (area_a, inv_b, "*")]
            for x, y, sym in cases:
                op = dict(ops)[sym]
                bx, by = (list(x.GetValues()), x.GetUnit()), (list(y.GetValues()), y.GetUnit())
                call = "Array(%s %r [%s]) %s Array(%s %r [%s])" % (type(x.GetValues()).__name__, bx[0], bx[1], sym, type(y.GetValues()).__name__, by[0], by[1])
                try:
                    r = op(x, y)
                except Exception as e:
                    return {"reproduced": True, "call": call, "observed": repr(e), "expected": "an Array"}
                if (list(x.GetValues()), x.GetUnit()) != bx or (list(y.GetValues()), y.GetUnit()) != by:
                    return {"reproduced": True, "call": call, "observed": "operands afterwards: %r [%s], %r [%s]" % (list(x.GetValues()), x.GetUnit(), list(y.GetValues()), y.GetUnit()), "expected": "operands unchanged"}
                for i in range(len(va)):
                    s = op(Scalar(bx[0][i], x.GetQuantity().GetUnit()) if not x.GetQuantity().IsDerived() else Scalar.CreateWithQuantity(x.GetQuantity(), bx[0][i]), Scalar.CreateWithQuantity(y.GetQuantity(), by[0][i]))
                    if not close(float(r.GetValues()[i]), s.GetValue(), 1e-12) or r.GetQuantity() != s.GetQuantity():
                        return {"reproduced": True, "call": call + " element %d" % i, "observed": [float(r.GetValues()[i]), r.GetUnit()], "expected": [s.GetValue(), s.GetUnit()]}
                    mr, _ = magnitude(Scalar.CreateWithQuantity(r.GetQuantity(), float(r.GetValues()[i])))
                    mx, _ = magnitude(Scalar.CreateWithQuantity(x.GetQuantity(), bx[0][i]))
                    my, _ = magnitude(Scalar.CreateWithQuantity(y.GetQuantity(), by[0][i]))
                    if not close(mr, op(mx, my), 1e-9):
                        return {"reproduced": True, "call": call + " element %d (base magnitudes)" % i, "observed": mr, "expected": op(mx, my)}
    return {"reproduced": False}


# ------------------------------------------------------------------------------------------------
# BOUNDED stand-in for history effects (memo tables / caches added to the database or to value objects, whose
# contents no contract describes): a prelude of legal but unusual calls, then the ordinary probes in the same
# process - every probe compares with an oracle that does not depend on the history.
def _history_prelude():
    import numpy
    from barril.units import Scalar, Array, Quantity, ObtainQuantity, GetUnknownQuantity
    from barril.units.unit_database import UnitDatabase

    db = UnitDatabase.GetSingleton()
    n = 0

    def attempt(fn):
        nonlocal n
        n += 1
        try:
            return fn()
        except Exception:
            return None

    # values of the Unknown quantity type asked for real units (any label resolves there)
    for u in ("cm", "km", "m", "s", "min", "degC", "K", "psi", "m2", "cm2", "ft"):
        attempt(lambda: Scalar(GetUnknownQuantity(u), 5.0).GetValue(u))
        attempt(lambda: Scalar(GetUnknownQuantity("label"), 5.0).GetValue(u))
        attempt(lambda: Array(GetUnknownQuantity(u), [1.0, 2.0]).GetValues(u))
    # failed lookups and conversions across quantity types
    for qt, u in (("length", "s"), ("time", "m"), ("temperature", "psi"), ("no such type", "m"), ("length", "no such unit")):
        attempt(lambda: db.GetInfo(qt, u))
        attempt(lambda: db.Convert(qt, u, "m", 1.0))
        attempt(lambda: db.CheckCategoryUnit(qt, u))
        attempt(lambda: Scalar(1.0, "m").GetValue(u))
        attempt(lambda: ObtainQuantity(u, qt))
    # unit matching with several exponents for the same pairs of units, in both orders, every value kind
    m, cm, km, s, h = (Scalar(2.0, x) for x in ("m", "cm", "km", "s", "h"))
    powers = lambda x: [x, x * x, x * x * x, 1.0 / x, 1.0 / (x * x)]
    for a in powers(m) + powers(km):
        for b in powers(cm) + powers(m):
            for op in (lambda x, y: x + y, lambda x, y: x - y, lambda x, y: x * y, lambda x, y: x / y, lambda x, y: y + x, lambda x, y: y * x):
                attempt(lambda: op(a, b))
    for ka in (list, tuple, numpy.array):
        for kb in (list, tuple, numpy.array):
            A, B = Array(ka([1.0, 2.0]), "m"), Array(kb([10.0, 20.0]), "cm")
            for op in (lambda x, y: x * y, lambda x, y: x * (y * y), lambda x, y: (x * x) + (y * y), lambda x, y: x / (y * y * y)):
                attempt(lambda: op(A, B))
                attempt(lambda: op(B, A))
    # validity verdicts, copies with other units / categories
    for c in ("length", "depth", "temperature"):
        sc = attempt(lambda: Scalar(c, 1.0, db.GetDefaultUnit(c)))
        if sc is not None:
            attempt(sc.IsValid)
            attempt(sc.GetValidUnits)
            for u in attempt(lambda: db.GetValidUnits(c)) or []:
                attempt(lambda: sc.CreateCopy(unit=u).IsValid())
    attempt(lambda: Scalar(1.0, "km", "depth").GetValidUnits())
    attempt(db.GetUnits)
    attempt(db.GetInfos)
    return n


def _history_run(names):
    n = _history_prelude()
    for rnd in range(2):
        for name in names:
            # (the one recorded finding of the registration histories - AddUnit before AddUnitBase, C14 - is not
            # a history effect and is left to its own property)
            r = PROBES[name]({"ignore_unit_before_base": True} if name == "registry_history" else {})
            if r.get("reproduced"):
                r["call"] = "after a prelude of %d legal calls (unknown-quantity values asked for real units, failed lookups, unit matching with several exponents, validity queries) and %d earlier probes: %s" % (n, rnd * len(names), r.get("call"))
                r["evaluations"] = n
                return r
    return {"reproduced": False, "evaluations": n + 2 * len(names)}


@probe("history_conversions")
def history_conversions(h):
    """BOUNDED: conversions answer the same after an arbitrary-looking history (C02 / C15)"""
    return _history_run(["scalar_getvalue", "db_lookup", "convert_exp", "array_getvalues", "construct_forms"])


@probe("history_arithmetic")
def history_arithmetic(h):
    """BOUNDED: arithmetic answers the same after an arbitrary-looking history (C03 / C04 / C15)"""
    return _history_run(["arith", "array_powers", "array_ops"])


@probe("history_all")
def history_all(h):
    """BOUNDED: queries, conversions, arithmetic, validity after a history (C15)"""
    return _history_run(["registry_history", "pure_queries", "scalar_getvalue", "db_lookup", "convert_exp", "arith", "array_powers", "validity", "obtain", "construct_forms"])


@probe("scalar_pow")
def scalar_pow(h):
    """C04/C06: Scalar ** n is the n-fold product (quantity, exponents per type, base magnitude), n = 1..9"""
    from barril.units import Scalar

    for a in (Scalar(3.0, "cm"), Scalar(2.0, "ft"), Scalar(3.0, "km") / Scalar(2.0, "min"), Scalar(1.5, "psi")):
        for n in range(1, 10):
            try:
                p = a**n
            except Exception as e:
                return {"reproduced": True, "call": "%r ** %d" % (a, n), "observed": repr(e), "expected": "the %d-fold product" % n}
            ref = a
            for _ in range(n - 1):
                ref = ref * a
            mp, dp = magnitude(p)
            mr, dr = magnitude(ref)
            if p.GetQuantity() != ref.GetQuantity() or dp != dr or not close(mp, mr, 1e-9) or not close(p.GetValue(), ref.GetValue(), 1e-9):
                return {"reproduced": True, "call": "%r ** %d" % (a, n), "observed": "%r (%s)" % (p, dp), "expected": "%r (%s)" % (ref, dr)}
    return {"reproduced": False}
