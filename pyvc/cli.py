import argparse
import json
import os
import sys
import time


def main(argv=None):
    ap = argparse.ArgumentParser(prog="check")
    ap.add_argument("property")
    ap.add_argument("--tier", default=os.environ.get("VERIF_TIER", "quick"), choices=["quick", "thorough"])
    ap.add_argument("--replay", default=None)
    ap.add_argument("--procs", type=int, default=None)
    a = ap.parse_args(argv)
    seed = int(os.environ.get("VERIF_SEED", "0") or 0)
    import z3

    z3.set_param("smt.random_seed", seed % (2**31))
    z3.set_param("sat.random_seed", seed % (2**31))
    from . import report

    if a.replay:
        rec = json.load(open(a.replay))
        rp = rec.get("replay")
        if not rp:
            print("replay file carries no native replay (no-failing-input-found); obligation: %s" % rec.get("obligation"))
            print(json.dumps(rec.get("solver_model"), indent=1))
            return 0
        res = report.run_probe(rp["probe"], rp["hint"])
        print(json.dumps(res, indent=1))
        return 1 if res.get("reproduced") else 0
    from . import stdtasks  # registers tasks
    from .tasks import run_tasks
    from props.defs import PROPS

    pid = a.property
    if pid not in PROPS:
        print("no check registered for %s" % pid)
        return 3
    spec = PROPS[pid]
    tasks = spec["tasks"](a.tier)
    rep = report.Report(pid, a.tier, seed, level=spec.get("level", "proof"))
    rep.trusted = list(spec.get("trusted", []))
    rep.assumptions += list(spec.get("assumptions", []))
    for tr in run_tasks(tasks, a.tier, a.procs):
        rep.add_task_result(tr)
    return rep.finish()


if __name__ == "__main__":
    sys.exit(main())
