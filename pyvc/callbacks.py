"""Assumed contract of oop_ext.foundation.callback.Callback (A10): a callback object holds a list of
listeners; Register(f) adds f unless an equal listener (same function bound to the same object) is
already there; Unregister(f) removes it if present (no-op otherwise); calling the object invokes
every listener once, in registration order.  Every invocation is also recorded in a ghost log
(Path.ghost['cb_log']) so that contracts can state exactly which notifications were sent."""
from .engine import OutOfSubset
from .values import *
from .interp import SProto


def same_listener(a, b):
    if isinstance(a, SBound) and isinstance(b, SBound):
        sa, sb = a.self_, b.self_
        same_obj = isinstance(sa, SRef) and isinstance(sb, SRef) and sa.o is sb.o
        fa, fb = a.func, b.func
        same_fn = (getattr(fa, "fi", None) is not None and getattr(fa, "fi", None) is getattr(fb, "fi", None)) or fa is fb
        return same_obj and same_fn
    return a is b


class SCallback(SProto):
    region = "callback"

    def __init__(self):
        self.listeners = []

    def pytype(self):
        return "Callback"

    def py_truth(self, I):
        return True

    def py_is(self, I, other):
        return other is self

    def py_call(self, I, args, kwargs):
        I.P.ghost.setdefault("cb_log", []).append((self, list(args)))
        for l in list(self.listeners):
            I.call(l, list(args), {})
        return SNone

    def py_getattr(self, I, name):
        if name == "Register":
            def reg(I, a, k):
                f = a[0]
                if not any(same_listener(f, l) for l in self.listeners):
                    self.listeners.append(f)
                    I.P.log_write(self, ("listeners", "Register"))
                return SNone

            return SBuiltin("Callback.Register", reg)
        if name == "Unregister":
            def unreg(I, a, k):
                f = a[0]
                n = len(self.listeners)
                self.listeners[:] = [l for l in self.listeners if not same_listener(f, l)]
                if len(self.listeners) != n:
                    I.P.log_write(self, ("listeners", "Unregister"))
                return SNone

            return SBuiltin("Callback.Unregister", unreg)
        if name == "UnregisterAll":
            def unreg_all(I, a, k):
                self.listeners[:] = []
                return SNone

            return SBuiltin("Callback.UnregisterAll", unreg_all)
        raise OutOfSubset("Callback.%s" % name)


class SCallbackClass(SProto):
    """callback.Callback / Callback1[T] / Callback2[A, B]: subscripting is a no-op, calling creates one"""

    def pytype(self):
        return "type"

    def py_getitem(self, I, k):
        return self

    def py_call(self, I, args, kwargs):
        return SCallback()


class SCallbackModule(SProto):
    def pytype(self):
        return "module"

    def py_getattr(self, I, name):
        if name.startswith("Callback"):
            return SCallbackClass()
        raise OutOfSubset("oop_ext.foundation.callback.%s" % name)


def install(I):
    I.ext = dict(I.ext)
    I.ext["oop_ext.foundation.callback"] = SCallbackModule()
