"""Contracts on real functions: case contracts (guard → outcome), verification of a body against
its contract, and application of a contract at call sites (modular verification)."""
import time
import traceback
import z3

from .engine import Explorer, PyRaise, OutOfSubset, Obligation, discharge, is_true, is_false, to_bool
from .interp import Interp, to_z3b
from .values import *
from .extract import get_repo

REGISTRY = {}  # fq -> FunctionSpec instance


def register(cls):
    inst = cls()
    REGISTRY[inst.key or inst.fq] = inst
    return cls


class Unspecified(Exception):
    """a callee was used where its contract says nothing: the caller's behaviour is unknown there"""


class Case:
    """guard: z3 Bool over the pre-state; outcome: ('return', SVal or checker) | ('raise', exception class name)"""

    def __init__(self, name, guard, kind, value=None, exc=None, props=(), effects=None, check=None, finding=None, check_exc=None, facts=None):
        self.name = name
        self.guard = to_bool(guard)
        self.kind = kind
        self.value = value
        self.exc = exc
        self.props = tuple(props)
        self.effects = effects  # callable(I) applying the specified state change (summary side)
        self.check = check  # callable(I, outcome_value) -> z3 Bool : extra/alternative result predicate
        self.finding = finding
        self.check_exc = check_exc  # callable(I, excref) -> z3 Bool on the raised exception object
        # callable(I) -> [z3 Bool]: definitional facts of the clause's vocabulary (evaluated after the
        # body ran, so they may be ground instances over terms the path built); hypotheses of this
        # clause's obligation only
        self.facts = facts


def ret(name, guard, value=None, props=(), effects=None, check=None, facts=None):
    return Case(name, guard, "return", value=value, props=props, effects=effects, check=check, facts=facts)


def rai(name, guard, exc, props=(), effects=None, check_exc=None, facts=None):
    return Case(name, guard, "raise", exc=exc, props=props, effects=effects, check_exc=check_exc, facts=facts)


def unspecified(name, guard):
    """inputs the contract says nothing about (no obligation; a summary may not be applied there)"""
    return Case(name, guard, "any")


def else_guard(cases):
    return z3.Not(z3.Or(*[c.guard for c in cases])) if cases else z3.BoolVal(True)


class FunctionSpec:
    fq = None
    key = None  # registry key when several specs (harnesses) are attached to one function
    props = ()
    callees = ()  # fqs whose contracts are used (instead of their bodies) when verifying this one
    level = "proof"  # or "bounded"
    bound = None

    # -- to be provided ---------------------------------------------------------------------------
    def variants(self, tier):
        return [None]

    def setup(self, I, variant):
        """build symbolic inputs; return ctx dict with keys f, args, kwargs (+ whatever cases need)"""
        raise NotImplementedError

    def cases(self, I, ctx):
        """list[Case] describing the function on the inputs ctx (guards over the pre-state)"""
        raise NotImplementedError

    def extra_obligations(self, I, ctx, outcome):
        """[(name, props, goal)] in addition to the case clauses (frames, invariants...)"""
        return []

    def allowed_write(self, I, ctx, obj, what):
        """frame: may the function write to this heap object?"""
        if hasattr(obj, "token"):  # sequence of unknown length: fresh iff created during the call
            return getattr(obj, "region", None) == "fresh" and obj.token > ctx.get("tok_mark", 1 << 60)
        return getattr(obj, "region", None) == "fresh" and getattr(obj, "oid", 0) > ctx.get("oid_mark", 0)

    # -- summary (used by callers) ------------------------------------------------------------------
    def summary(self):
        spec = self

        def apply(I, f, args, kwargs):
            if spec.inline_when(I, f, args, kwargs):
                return I.call_function(f, args, kwargs, force_inline=True)
            ctx = spec.bind_call(I, f, args, kwargs)
            pre = spec.call_requires(I, ctx)
            for name, goal in pre:
                ob = Obligation("pre[%s@%s]" % (name, spec.fq.split(":")[1]), spec.props, "pre")
                discharge(I.P, goal, ob)
                I.P.obligs.append(ob)
            cs = spec.cases(I, ctx)
            idx = I.P.choose([c.guard for c in cs])
            c = cs[idx]
            I.P.notes.append(("summary", spec.fq, c.name))
            if c.kind == "any":
                raise Unspecified("%s is unspecified in case %s" % (spec.fq.split(":")[1], c.name))
            if c.effects is not None:
                c.effects(I)
            if c.kind == "raise":
                raise PyRaise(spec.make_exc(I, c))
            v = c.value
            if callable(v):
                v = v(I)
            return v

        return apply

    def make_exc(self, I, c):
        ci = find_exc_class(I.repo, c.exc)
        if ci is None:
            return I.exc(c.exc, OPAQUE)
        return SRef(I.P.alloc(HExc(ci, [OPAQUE])))

    def bind_call(self, I, f, args, kwargs):
        """ctx for a call site (default: positional/keyword binding by the real signature)"""
        from .interp import Frame, function_locals

        fr = Frame(f.module)
        I.bind_args(f.node, f, args, kwargs, fr)
        ctx = dict(fr.vars)
        ctx["$call"] = True
        return ctx

    def call_requires(self, I, ctx):
        return []

    probe = None

    def replay_hint(self, ob):
        """native replay for a refuted obligation of this contract: the probe named by the spec gets the
        variant and clause from the obligation name and the solver model's values"""
        if not self.probe:
            return None
        import re

        m = re.search(r"\{([^}]*)\}", ob.name)
        variant = m.group(1).split(",") if m else None
        m2 = re.search(r"/(post|frame|memo|intern|raises|unchanged_on_raise|pre|inv)\[([^\]]*)\]", ob.name)
        return {"probe": self.probe, "hint": {"variant": variant, "clause": m2.group(2) if m2 else None, "kind": m2.group(1) if m2 else None, "model": ob.model}}

    def inline_when(self, I, f, args, kwargs):
        """call sites the contract does not cover and where the real body is executed instead"""
        return False


_exc_index = {}


def find_exc_class(repo, name):
    if not _exc_index:
        for m in repo.modules.values():
            for c in m.classes.values():
                _exc_index.setdefault(c.name, c)
    c = _exc_index.get(name)
    if c is not None and any(b in BUILTIN_EXC for b in c.base_names()):
        return c
    return None


def exc_is(excref, name):
    return name in exc_ancestors(excref.o.cls)


def same_value(I, a, b):
    """result identity/equality used to compare an outcome with the contract's value"""
    from .interp import SProto

    if isinstance(a, (SNum,)) and isinstance(b, SNum):
        if a.kind != b.kind and not (a.kind in ("float", "npfloat", "npfloat32") and b.kind in ("float", "npfloat", "npfloat32")):
            return False
        return I.equal(a, b)
    if isinstance(a, SRef) or isinstance(b, SRef) or isinstance(a, SProto) or isinstance(b, SProto):
        if isinstance(a, SProto) and hasattr(a, "same_as"):
            return a.same_as(I, b)
        if isinstance(b, SProto) and hasattr(b, "same_as"):
            return b.same_as(I, a)
        return I.identical(a, b)
    if isinstance(a, STuple) and isinstance(b, STuple):
        if len(a.items) != len(b.items):
            return False
        conj = [to_z3b(same_value(I, x, y)) for x, y in zip(a.items, b.items)]
        return z3.And(*conj) if conj else True
    if type(a) is not type(b):
        return False
    if a is SNone:
        return True
    if isinstance(a, SFn):
        return a.t == b.t
    return I.equal(a, b)


class VerifyResult:
    def __init__(self, spec):
        self.spec = spec
        self.obligations = []
        self.paths = 0
        self.solver_s = 0.0
        self.solver_calls = 0
        self.wall_s = 0.0
        self.covers = {}  # case name -> reached?
        self.inlined = {}
        self.summarised = {}
        self.inv_used = {}
        self.oos = []

    def meta(self):
        fi = get_repo().func(self.spec.fq)
        return {
            "function": self.spec.key or self.spec.fq,
            "file": fi.module.path,
            "lines": list(fi.span()),
            "sha256": fi.sha256(),
            "paths": self.paths,
            "solver_s": round(self.solver_s, 3),
            "solver_calls": self.solver_calls,
            "wall_s": round(self.wall_s, 3),
            "inlined": sorted(self.inlined),
            "callee_contracts_used": sorted(self.summarised),
            "invariant_instances_assumed": self.inv_used,
            "covers": self.covers,
            "level": self.spec.level,
            "bound": self.spec.bound,
        }


def verify(spec, tier="quick", summaries=None, only_props=None, part=None, vfilter=None):
    """Check the real body of spec.fq against spec on every path of every variant."""
    repo = get_repo()
    res = VerifyResult(spec)
    t0 = time.time()
    summ = {}
    for fq in spec.callees:
        if fq in REGISTRY:
            summ[fq] = REGISTRY[fq].summary()
    if summaries:
        summ.update(summaries)
    short = (spec.key or spec.fq).split(":")[1]
    allv = list(spec.variants(tier))
    if vfilter:
        import fnmatch as _fn

        vn = lambda v: "" if v is None else (v if isinstance(v, str) else ",".join(str(x) for x in v))
        allv = [v for v in allv if any(_fn.fnmatchcase(vn(v), pat) for pat in vfilter)]
    if part is not None:
        allv = allv[part[0] :: part[1]]
    for variant in allv:
        ex = Explorer()
        vname = "" if variant is None else "{%s}" % (variant if isinstance(variant, str) else ",".join(str(x) for x in variant))
        pathno = [0]

        def run(P, variant=variant):
            I = Interp(P, repo, summaries=summ)
            ctx = spec.setup(I, variant)
            ctx["oid_mark"] = P.next_oid - 1
            wmark = len(P.writes)  # writes made while building the pre-state are not the function's
            from . import symseq as _ss

            ctx["tok_mark"] = _ss._tok[0]
            f = ctx["f"]
            cs = spec.cases(I, ctx)
            try:
                v = I.call(f, ctx["args"], ctx.get("kwargs", {}))
                outcome = ("return", v)
            except PyRaise as e:
                outcome = ("raise", e.exc)
            except Unspecified as e:
                outcome = ("unspecified", str(e))
            pathno[0] += 1
            k = pathno[0]
            obs = []
            for c in cs:
                if is_false(c.guard):
                    continue
                if not P.feasible(c.guard):
                    continue
                res.covers[c.name] = True
                ob = Obligation("%s%s/post[%s]#p%d" % (short, vname, c.name, k), c.props or spec.props, "post")
                if c.kind == "any":
                    continue
                if c.kind == "if-returns" and outcome[0] != "return":
                    continue  # nothing is claimed unless the body returns (raises, or a callee contract that is silent there)
                if outcome[0] == "unspecified":
                    ob.status = "unknown"
                    ob.detail = outcome[1]
                    obs.append(ob)
                    continue
                if c.kind == "if-returns":
                    # a clause about the result only: nothing is claimed when the body raises
                    if outcome[0] != "return":
                        continue
                    goal = z3.Implies(c.guard, to_z3b(c.check(I, outcome[1])))
                    ob.detail = "body returns %s" % short_repr(outcome[1])
                    discharge(P, goal, ob)
                    obs.append(ob)
                    continue
                if c.kind == "either":
                    # the clause covers both outcomes: a return must satisfy `check`, a raise of the named
                    # exception must satisfy `check_exc` (each typically states when that outcome is allowed)
                    if outcome[0] == "return":
                        goal = z3.Implies(c.guard, to_z3b(c.check(I, outcome[1])))
                        ob.detail = "body returns %s" % short_repr(outcome[1])
                    elif outcome[0] == "raise" and exc_is(outcome[1], c.exc):
                        goal = z3.Implies(c.guard, to_z3b(c.check_exc(I, outcome[1])))
                        ob.detail = "body raises %s" % c.exc
                    else:
                        goal = z3.Not(c.guard)
                        ob.detail = "expected a return or %s, body %s" % (c.exc, describe(outcome))
                    discharge(P, goal, ob)
                    obs.append(ob)
                    continue
                if c.kind == "raise":
                    if outcome[0] == "raise" and exc_is(outcome[1], c.exc):
                        goal = True
                        if c.check_exc is not None:
                            goal = z3.Implies(c.guard, to_z3b(c.check_exc(I, outcome[1])))
                            ob.detail = "attributes of the raised %s" % c.exc
                    else:
                        goal = z3.Not(c.guard)
                        ob.detail = "expected %s, body %s" % (c.exc, describe(outcome))
                else:
                    if outcome[0] != "return":
                        goal = z3.Not(c.guard)
                        ob.detail = "expected a normal return, body %s" % describe(outcome)
                    else:
                        eqs = []
                        if c.value is not None:
                            v = c.value(I) if callable(c.value) else c.value
                            eqs.append(to_z3b(same_value(I, outcome[1], v)))
                        if c.check is not None:
                            eqs.append(to_z3b(c.check(I, outcome[1])))
                        goal = z3.Implies(c.guard, z3.And(*eqs) if eqs else z3.BoolVal(True))
                        if not ob.detail:
                            ob.detail = "body returns %s" % short_repr(outcome[1])
                if c.facts is not None:
                    hyp = [to_bool(h) for h in c.facts(I)]
                    if hyp:
                        goal = z3.Implies(z3.And(*hyp), to_bool(goal))
                discharge(P, goal, ob)
                obs.append(ob)
            # frame
            for obj, what in P.writes[wmark:]:
                if not spec.allowed_write(I, ctx, obj, what):
                    ob = Obligation("%s%s/frame[%s %s]#p%d" % (short, vname, short_repr(obj), what[0], k), spec.props, "frame")
                    ob.status = "refuted"
                    ob.detail = "write outside the contract's frame: %r %r" % (obj, what)
                    obs.append(ob)
            for name, props, goal in spec.extra_obligations(I, ctx, outcome):
                ob = Obligation("%s%s/%s#p%d" % (short, vname, name, k), props or spec.props, "extra")
                discharge(P, goal, ob)
                obs.append(ob)
            for ob in P.obligs:
                ob.name = "%s%s/%s#p%d" % (short, vname, ob.name, k)
                obs.append(ob)
            for tag, _ in P.assumed:
                if tag.startswith("inv:"):
                    res.inv_used[tag[4:]] = res.inv_used.get(tag[4:], 0) + 1
            for q, n in I.called.items():
                res.inlined[q] = res.inlined.get(q, 0) + n
            for q, n in I.summarised.items():
                res.summarised[q] = res.summarised.get(q, 0) + n
            return (outcome, obs)

        for r in ex.run(run):
            res.paths += 1
            if isinstance(r.outcome, tuple) and r.outcome and r.outcome[0] == "oos":
                ob = Obligation("%s%s/subset#p%d" % (short, vname, res.paths), spec.props, "oos")
                ob.status = "oos"
                ob.detail = r.outcome[1]
                res.obligations.append(ob)
                res.oos.append(r.outcome[1])
                continue
            outcome, obs = r.outcome
            res.obligations.extend(obs)
        for k2, ob in enumerate(ex.stats.get("side_obligs", [])):
            ob.name = "%s%s/%s#s%d" % (short, vname, ob.name, k2)
            res.obligations.append(ob)
        res.solver_s += ex.stats.get("solver_s", 0.0)
        res.solver_calls += ex.stats.get("solver_calls", 0)
    res.wall_s = time.time() - t0
    if only_props:
        pass
    return res


def describe(outcome):
    if outcome[0] == "unspecified":
        return "unspecified (%s)" % outcome[1]
    if outcome[0] == "raise":
        return "raises %s" % outcome[1].o.clsname()
    return "returns %s" % short_repr(outcome[1])


def short_repr(v):
    s = repr(v)
    return s if len(s) < 120 else s[:117] + "..."
