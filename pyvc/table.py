"""Table functions: the shipped fillers are straight-line code over literals, so executing their
real AST (and the real AST of AddUnit / AddUnitBase / AddCategory / UnitInfo.__init__ /
Make*ToBase they call) on an empty registry yields a registry that is concrete in structure.
Quantified postconditions of the fillers then become one obligation per row."""
import time
import z3

from .engine import Explorer, Path, PyRaise, OutOfSubset, Obligation, discharge
from .interp import Interp, Frame
from .values import *
from .extract import get_repo

FILLERS = ("posc", "posc_nocat", "simple")

UDB = "barril.units.unit_database"


class UnitRow:
    __slots__ = ("unit", "qt", "name", "tb", "fb", "default_category", "index", "is_base", "line")

    def __repr__(self):
        return "<UnitRow %s:%s>" % (self.qt, self.unit)


class CatRow:
    __slots__ = (
        "category",
        "qt",
        "valid_units",
        "valid_units_set",
        "default_unit",
        "default_value",
        "min_value",
        "max_value",
        "is_min_exclusive",
        "is_max_exclusive",
        "caption",
    )


class Table:
    def __init__(self):
        self.filler = None
        self.units = {}  # unit -> UnitRow (from unit_to_unit_info)
        self.qts = {}  # qt -> [UnitRow] (from quantity_types, in list order)
        self.cats = {}  # category -> CatRow
        self.db = None
        self.path = None
        self.interp = None
        self.build_s = 0.0
        self.calls = {}


class TableError(Exception):
    pass


def new_db(I):
    repo = I.repo
    ci = repo.cls(UDB + ":UnitDatabase")
    db = I.instantiate(ci, [], {"default_singleton": SBool(True)})
    return db


def build_table(filler):
    """run the real filler on a fresh UnitDatabase object; returns Table"""
    repo = get_repo()
    stats = {}
    P = Path([], stats)
    I = Interp(P, repo)
    t0 = time.time()
    db = new_db(I)
    P.ghost["singletons"] = {"UnitDatabase": db}
    cls = SClass(repo.cls(UDB + ":UnitDatabase"))
    try:
        if filler == "posc":
            I.call(I.getattr(cls, "FillUnitDatabaseWithPosc"), [db], {"fill_categories": SBool(True)})
        elif filler == "posc_nocat":
            I.call(I.getattr(cls, "FillUnitDatabaseWithPosc"), [db], {"fill_categories": SBool(False)})
        elif filler == "simple":
            I.call(I.getattr(cls, "FillSimple"), [db], {})
        else:
            raise ValueError(filler)
    except PyRaise as e:
        err = TableError("filler %s raises %s%r" % (filler, e.exc.o.clsname(), tuple(e.exc.o.args)))
        err.raised = e.exc.o.clsname()
        raise err
    if P.decisions:
        raise TableError("filler %s is not straight-line over constants (%d data-dependent forks)" % (filler, len(P.decisions)))
    T = Table()
    T.filler = filler
    T.db = db
    T.path = P
    T.interp = I
    T.calls = dict(I.called)
    f = db.o.fields

    def s(v):
        if v is SNone:
            return None
        if isinstance(v, SStr) and v.py is not None:
            return v.py
        raise TableError("non-constant string in table: %r" % (v,))

    def num(v):
        if v is SNone:
            return None
        if isinstance(v, SNum):
            c = v.concrete()
            if c is not None:
                return c
        if isinstance(v, SBool):
            return v.concrete()
        raise TableError("non-constant number in table: %r" % (v,))

    def row_of(info, idx=None):
        r = UnitRow()
        fl = info.o.fields
        r.unit = s(fl["unit"])
        r.qt = s(fl["quantity_type"])
        r.name = s(fl["name"])
        r.tb = fl["tobase"]
        r.fb = fl["frombase"]
        r.default_category = s(fl["default_category"])
        r.index = idx
        r.is_base = False
        return r

    u2i = f["unit_to_unit_info"].o
    info_by_oid = {}
    for k, info in u2i.entries:
        r = row_of(info)
        T.units[s(k)] = r
        info_by_oid[info.o.oid] = (s(k), r)
    for k, lst in f["quantity_types"].o.entries:
        rows = []
        for i, info in enumerate(lst.o.items):
            if info.o.oid in info_by_oid:
                r = info_by_oid[info.o.oid][1]
                if r.index is not None:
                    # same object listed twice
                    r2 = row_of(info, i)
                    rows.append(r2)
                    continue
                r.index = i
            else:
                r = row_of(info, i)  # an info that is not in unit_to_unit_info (W1 will flag it)
            rows.append(r)
        T.qts[s(k)] = rows
    for k, ci in f["categories_to_quantity_types"].o.entries:
        c = CatRow()
        fl = ci.o.fields
        c.category = s(fl["category"])
        c.qt = s(fl["quantity_type"])
        vu = fl["valid_units"]
        c.valid_units = None if vu is SNone else [s(x) for x in vu.o.items]
        c.valid_units_set = set(s(x) for x in fl["valid_units_set"].o.items)
        c.default_unit = s(fl["default_unit"])
        c.default_value = num(fl["default_value"])
        c.min_value = num(fl["min_value"])
        c.max_value = num(fl["max_value"])
        c.is_min_exclusive = num(fl["is_min_exclusive"])
        c.is_max_exclusive = num(fl["is_max_exclusive"])
        c.caption = s(fl["caption"])
        if s(k) != c.category:
            raise TableError("category key %r holds info for %r" % (s(k), c.category))
        T.cats[s(k)] = c
    T.build_s = time.time() - t0
    return T


_tables = {}


def get_table(filler):
    if filler not in _tables:
        try:
            _tables[filler] = build_table(filler)
        except TableError as e:
            _tables[filler] = e
    if isinstance(_tables[filler], TableError):
        raise _tables[filler]
    return _tables[filler]


# ------------------------------------------------------------------------------------------------
# exploring a conversion closure on a symbolic real


def explore_fn(T, fn_builder, max_paths=64):
    """fn_builder(I, P) -> SVal ; returns list of (path, outcome)"""
    repo = get_repo()
    ex = Explorer(max_paths=max_paths)

    def run(P):
        I = Interp(P, repo)
        P.ghost["singletons"] = {"UnitDatabase": T.db}
        try:
            return ("return", fn_builder(I, P))
        except PyRaise as e:
            return ("raise", e.exc)

    res = ex.run(run)
    return res, ex.stats


DOMAIN = 10**15


def in_domain(x):
    return z3.And(x >= -DOMAIN, x <= DOMAIN)


def row_obligations_c01(T, row, props=("C01",)):
    """Inv1, Inv2, Mono(tb), Mono(fb), Tot(tb), Tot(fb) for one unit row, each ∀ x ∈ D"""
    obs = []
    base = "%s/row[%s:%s]" % (T.filler, row.qt, row.unit)
    x = z3.Real("x")
    y = z3.Real("y")

    def call(I, f, v):
        return I.call(f, [v])

    def total(fname, f):
        ob = Obligation("%s/total_%s" % (base, fname), props, "row")
        res, _ = explore_fn(T, lambda I, P: (P.assume(in_domain(x), "domain"), call(I, f, SNum(x, "float")))[1])
        bad = [r for r in res if r.outcome[0] != "return"]
        if any(r.outcome[0] == "oos" for r in res):
            ob.status = "oos"
            ob.detail = "; ".join(r.outcome[1] for r in res if r.outcome[0] == "oos")
        elif bad:
            ob.status = "refuted"
            r = bad[0]
            chk = r.path.solver.check()
            ob.model = {"x": str(r.path.solver.model().eval(x, model_completion=True))} if chk == z3.sat else None
            ob.detail = "raises %s" % r.outcome[1].o.clsname()
        else:
            ob.status = "discharged"
        return ob

    def inverse(name, f, g):
        # g(f(x)) == x
        ob = Obligation("%s/%s" % (base, name), props, "row")

        def build(I, P):
            P.assume(in_domain(x), "domain")
            return call(I, g, call(I, f, SNum(x, "float")))

        res, _ = explore_fn(T, build)
        ob.status = "discharged"
        for r in res:
            if r.outcome[0] == "oos":
                ob.status = "oos"
                ob.detail = r.outcome[1]
                return ob
            if r.outcome[0] == "raise":
                continue  # totality is a separate obligation
            v = r.outcome[1]
            if not isinstance(v, SNum):
                ob.status = "refuted"
                ob.detail = "result is not a number"
                return ob
            o2 = Obligation("tmp")
            discharge(r.path, v.real() == x, o2)
            ob.ms += o2.ms
            ob.smt_size = max(ob.smt_size, o2.smt_size)
            if o2.status != "discharged":
                ob.status = o2.status
                ob.model = o2.model
                ob.detail = o2.detail
                return ob
        return ob

    def mono(name, f):
        ob = Obligation("%s/%s" % (base, name), props, "row")

        def build(I, P):
            P.assume(in_domain(x), "domain")
            P.assume(in_domain(y), "domain")
            P.assume(x < y, "x<y")
            return STuple([call(I, f, SNum(x, "float")), call(I, f, SNum(y, "float"))])

        res, _ = explore_fn(T, build)
        ob.status = "discharged"
        for r in res:
            if r.outcome[0] == "oos":
                ob.status = "oos"
                ob.detail = r.outcome[1]
                return ob
            if r.outcome[0] == "raise":
                continue
            a, b = r.outcome[1].items
            o2 = Obligation("tmp")
            discharge(r.path, a.real() < b.real(), o2)
            ob.ms += o2.ms
            ob.smt_size = max(ob.smt_size, o2.smt_size)
            if o2.status != "discharged":
                ob.status = o2.status
                ob.model = o2.model
                ob.detail = o2.detail
                return ob
        return ob

    obs.append(total("tobase", row.tb))
    obs.append(total("frombase", row.fb))
    obs.append(inverse("inverse_fb_tb", row.tb, row.fb))
    obs.append(inverse("inverse_tb_fb", row.fb, row.tb))
    obs.append(mono("mono_tobase", row.tb))
    obs.append(mono("mono_frombase", row.fb))
    return obs


if __name__ == "__main__":
    import sys

    for fl in sys.argv[1:] or ["simple"]:
        t0 = time.time()
        T = build_table(fl)
        print(fl, len(T.units), "units", len(T.qts), "qts", len(T.cats), "cats", "%.2fs" % (time.time() - t0))
        t0 = time.time()
        n = 0
        bad = []
        for u, row in list(T.units.items())[:50]:
            for ob in row_obligations_c01(T, row):
                n += 1
                if ob.status != "discharged":
                    bad.append(ob.to_dict())
        print(n, "obligations", "%.2fs" % (time.time() - t0), "bad:", bad[:6])
