"""Symbolic Python values."""
import z3
from fractions import Fraction as _F

from .engine import NameS, FnS, RealS, IntS, lit, OutOfSubset


class SVal:
    def pytype(self):
        raise NotImplementedError(type(self))


class SNoneT(SVal):
    def pytype(self):
        return "NoneType"

    def __repr__(self):
        return "None"


SNone = SNoneT()


class SNotImplementedT(SVal):
    def pytype(self):
        return "NotImplementedType"

    def __repr__(self):
        return "NotImplemented"


SNotImplemented = SNotImplementedT()


class SBool(SVal):
    __slots__ = ("t",)

    def __init__(self, t):
        if isinstance(t, bool):
            t = z3.BoolVal(t)
        self.t = t

    def pytype(self):
        return "bool"

    def concrete(self):
        s = z3.simplify(self.t)
        if z3.is_true(s):
            return True
        if z3.is_false(s):
            return False
        return None

    def __repr__(self):
        return "SBool(%s)" % self.t


def real_of_float(x):
    fr = _F(x)  # exact binary64 value
    return z3.RealVal(fr)


class SNum(SVal):
    """int (Int sort) or float (Real sort).  kind: 'int' | 'float' | 'npfloat' (numpy.float64, a float subclass) |
    'npfloat32' (a numpy scalar that is a numpy.number but neither an int nor a float)"""

    __slots__ = ("t", "kind", "nan", "pinf", "ninf")

    def __init__(self, t, kind=None, nan=None, pinf=None, ninf=None):
        if isinstance(t, bool):
            raise TypeError("bool is not SNum")
        if isinstance(t, int):
            t = z3.IntVal(t)
            kind = kind or "int"
        elif isinstance(t, float):
            if t != t or t in (float("inf"), float("-inf")):
                nan = z3.BoolVal(t != t)
                pinf = z3.BoolVal(t == float("inf"))
                ninf = z3.BoolVal(t == float("-inf"))
                t = z3.RealVal(0)
            else:
                t = real_of_float(t)
            kind = kind or "float"
        elif isinstance(t, _F):
            t = z3.RealVal(t)
            kind = kind or "float"
        if kind is None:
            kind = "int" if t.sort() == IntS else "float"
        self.t = t
        self.kind = kind
        # extended-float flags (None = ordinary finite number)
        self.nan = nan
        self.pinf = pinf
        self.ninf = ninf

    @property
    def is_int(self):
        return self.kind == "int"

    @property
    def extended(self):
        return self.nan is not None

    def pytype(self):
        return {"int": "int", "float": "float", "npfloat": "numpy.float64", "npfloat32": "numpy.float32"}[self.kind]

    def real(self):
        return z3.ToReal(self.t) if self.t.sort() == IntS else self.t

    def concrete(self):
        if self.extended:
            return None
        s = z3.simplify(self.t)
        if z3.is_int_value(s):
            return s.as_long()
        if z3.is_rational_value(s):
            fr = _F(s.numerator_as_long(), s.denominator_as_long())
            return fr
        return None

    def __repr__(self):
        return "SNum(%s:%s)" % (self.t, self.kind)


class SStr(SVal):
    """String.  py is the concrete text or None; name is a z3 Name term (always available for
    concrete text via lit()); opaque strings (messages) have neither."""

    __slots__ = ("py", "_name", "opaque")

    def __init__(self, py=None, name=None, opaque=False):
        self.py = py
        self._name = name
        self.opaque = opaque

    def pytype(self):
        return "str"

    @property
    def name(self):
        if self._name is None:
            if self.py is not None:
                self._name = lit(self.py)
            else:
                raise OutOfSubset("opaque string used as a name")
        return self._name

    def is_concrete(self):
        return self.py is not None

    def __repr__(self):
        if self.py is not None:
            return "SStr(%r)" % self.py
        if self.opaque:
            return "SStr(<opaque>)"
        return "SStr(%s)" % self._name


def sname(t):
    return SStr(name=t)


OPAQUE = SStr(opaque=True)


class STuple(SVal):
    __slots__ = ("items",)

    def __init__(self, items):
        self.items = list(items)

    def pytype(self):
        return "tuple"

    def __repr__(self):
        return "STuple(%r)" % (self.items,)


class SFn(SVal):
    """abstract conversion function (element of sort Fn)"""

    __slots__ = ("t", "attrs")

    def __init__(self, t):
        self.t = t
        self.attrs = {}

    def pytype(self):
        return "function"

    def __repr__(self):
        return "SFn(%s)" % self.t


class SType(SVal):
    """a builtin type object such as str, list, tuple, float, int, numpy.ndarray, OrderedDict"""

    __slots__ = ("name",)

    def __init__(self, name):
        self.name = name

    def pytype(self):
        return "type"

    def __repr__(self):
        return "SType(%s)" % self.name


class SClass(SVal):
    """a class defined in the repository"""

    __slots__ = ("ci",)

    def __init__(self, ci):
        self.ci = ci

    def pytype(self):
        return "type"

    def __repr__(self):
        return "SClass(%s)" % self.ci.name


class SLocalClass(SVal):
    """class defined inside a function (``class Stub: pass``)"""

    def __init__(self, name):
        self.name = name

    def pytype(self):
        return "type"


class SFunc(SVal):
    """a Python function of the repository: FuncInfo + defining frame (closure)"""

    __slots__ = ("fi", "closure", "attrs", "node", "is_lambda", "module")

    def __init__(self, fi=None, closure=None, node=None, module=None):
        self.fi = fi
        self.closure = closure
        self.attrs = {}
        self.node = node if node is not None else (fi.node if fi else None)
        self.is_lambda = fi is None
        self.module = module if module is not None else (fi.module if fi else None)

    def pytype(self):
        return "function"

    def __repr__(self):
        return "SFunc(%s)" % (self.fi.fq if self.fi else "<lambda>")


class SBound(SVal):
    __slots__ = ("self_", "func")

    def __init__(self, self_, func):
        self.self_ = self_
        self.func = func

    def pytype(self):
        return "method"

    def __repr__(self):
        return "SBound(%r,%r)" % (self.self_, self.func)


class SBuiltin(SVal):
    __slots__ = ("name", "impl")

    def __init__(self, name, impl):
        self.name = name
        self.impl = impl

    def pytype(self):
        return "builtin_function_or_method"

    def __repr__(self):
        return "SBuiltin(%s)" % self.name


class SModule(SVal):
    def __init__(self, name, mi=None):
        self.name = name
        self.mi = mi

    def pytype(self):
        return "module"

    def __repr__(self):
        return "SModule(%s)" % self.name


# ------------------------------------------------------------------------------------------------
# heap objects (always referenced through SRef)


class HBase:
    oid = None
    region = "fresh"
    frozen = False


class HObj(HBase):
    def __init__(self, cls, region="fresh"):
        self.cls = cls  # ClassInfo | SLocalClass | builtin-exception name
        self.fields = {}
        self.region = region

    def __repr__(self):
        return "HObj(%s#%s)" % (getattr(self.cls, "name", self.cls), self.oid)


class HList(HBase):
    def __init__(self, items, region="fresh"):
        self.items = list(items)
        self.region = region

    def __repr__(self):
        return "HList#%s(%r)" % (self.oid, self.items)


class HDict(HBase):
    """dict / OrderedDict with a concrete number of entries and possibly symbolic keys that are
    pairwise distinct (an invariant of dict, stated by whoever creates the object)."""

    def __init__(self, entries=(), ordered=False, region="fresh"):
        self.entries = list(entries)  # [(key SVal, value SVal)]
        self.ordered = ordered
        self.region = region

    def __repr__(self):
        return "HDict#%s(%r)" % (self.oid, self.entries)


class HSet(HBase):
    def __init__(self, items=(), region="fresh"):
        self.items = list(items)
        self.region = region


class HIter(HBase):
    def __init__(self, items):
        self.items = list(items)
        self.pos = 0


class HExc(HBase):
    def __init__(self, cls, args):
        self.cls = cls  # ClassInfo or builtin exception name (str)
        self.args = list(args)
        self.fields = {}

    def clsname(self):
        return self.cls if isinstance(self.cls, str) else self.cls.name

    def __repr__(self):
        return "HExc(%s)" % self.clsname()


class SRef(SVal):
    __slots__ = ("o",)

    def __init__(self, o):
        self.o = o

    def pytype(self):
        o = self.o
        if isinstance(o, HObj):
            return o.cls
        if isinstance(o, HList):
            return "list"
        if isinstance(o, HDict):
            return "OrderedDict" if o.ordered else "dict"
        if isinstance(o, HSet):
            return "set"
        if isinstance(o, HIter):
            return "iterator"
        if isinstance(o, HExc):
            return o.cls
        return getattr(o, "pytype_name", type(o).__name__)

    def __repr__(self):
        return "SRef(%r)" % (self.o,)


BUILTIN_EXC = {
    "BaseException": None,
    "Exception": "BaseException",
    "ArithmeticError": "Exception",
    "ZeroDivisionError": "ArithmeticError",
    "AssertionError": "Exception",
    "AttributeError": "Exception",
    "LookupError": "Exception",
    "IndexError": "LookupError",
    "KeyError": "LookupError",
    "NameError": "Exception",
    "UnboundLocalError": "NameError",
    "RuntimeError": "Exception",
    "NotImplementedError": "RuntimeError",
    "RecursionError": "RuntimeError",
    "StopIteration": "Exception",
    "TypeError": "Exception",
    "ValueError": "Exception",
    "OverflowError": "ArithmeticError",
}


def exc_ancestors(cls):
    """list of class names from cls up to BaseException (cls: ClassInfo or builtin name)"""
    out = []
    if isinstance(cls, str):
        n = cls
        while n is not None:
            out.append(n)
            n = BUILTIN_EXC.get(n)
        return out
    for c in cls.mro():
        out.append(c.name)
        for b in c.bases:
            if isinstance(b, str) and b in BUILTIN_EXC:
                for a in exc_ancestors(b):
                    if a not in out:
                        out.append(a)
    return out
