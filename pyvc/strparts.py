"""Token-level string model: a built string is a sequence of parts — literal text, a symbolic name
(unit / category / quantity-type symbol) or a symbolic integer.  Concatenation, f-strings,
str()/repr() of names and integers, and truthiness are exact on this representation.  Equality
between two *different* part sequences is not decided by the interpreter (out-of-subset); the
rendering contracts (C20) compare part sequences structurally in their own spec functions."""
import string
import z3

from .engine import OutOfSubset, lit, NameS
from .values import *


class SParts(SStr):
    __slots__ = ("parts",)

    def __init__(self, parts):
        SStr.__init__(self, None, None, False)
        self.parts = parts

    @property
    def name(self):
        if len(self.parts) == 1 and self.parts[0][0] == "name":
            return self.parts[0][1]
        raise OutOfSubset("a built string is used as a registry name")

    def __repr__(self):
        return "SParts(%s)" % " + ".join(repr(p[1]) if p[0] == "lit" else str(p[1]) for p in self.parts)


def parts_of(v):
    if isinstance(v, SParts):
        return list(v.parts)
    if isinstance(v, SStr):
        if v.opaque:
            return None
        if v.py is not None:
            return [("lit", v.py)] if v.py else []
        return [("name", v._name)]
    return None


def mk(parts):
    out = []
    for p in parts:
        if p[0] == "lit":
            if not p[1]:
                continue
            if out and out[-1][0] == "lit":
                out[-1] = ("lit", out[-1][1] + p[1])
                continue
        out.append(p)
    if not out:
        return SStr("")
    if len(out) == 1 and out[0][0] == "lit":
        return SStr(out[0][1])
    if len(out) == 1 and out[0][0] == "name":
        return SStr(name=out[0][1])
    return SParts(out)


class PartsModel:
    def concat(self, I, a, b):
        pa, pb = parts_of(a), parts_of(b)
        if pa is None or pb is None:
            return OPAQUE
        return mk(pa + pb)

    def format_value(self, I, x, conv, spec):
        if spec:
            return NotImplemented
        if isinstance(x, SStr):
            p = parts_of(x)
            if p is None:
                return OPAQUE
            if conv == "r":
                # repr of a symbol: quoted (symbols contain no quote or backslash: C19 table obligation)
                return mk([("lit", "'")] + p + [("lit", "'")])
            return mk(p)
        if isinstance(x, SNum) and x.is_int and not x.extended:
            c = x.concrete()
            if c is not None:
                return SStr(str(int(c)))
            return SParts([("int", x.t)])
        if isinstance(x, SNum) and not x.is_int and not x.extended and conv in (None, "s", "r"):
            # str/repr of a float: some text that evals back to the same float (assumption A12)
            return SParts([("float", x.real())])
        return NotImplemented

    def format(self, I, s, args, kw):
        out = []
        auto = 0
        try:
            fields = list(string.Formatter().parse(s.py))
        except ValueError:
            return NotImplemented
        for text, field, spec, conv in fields:
            out.append(("lit", text))
            if field is None:
                continue
            if spec:
                return NotImplemented
            if field == "":
                idx = auto
                auto += 1
            elif field.isdigit():
                idx = int(field)
            else:
                return NotImplemented
            if idx >= len(args):
                return NotImplemented
            v = self.format_value(I, args[idx], conv, None)
            if v is NotImplemented:
                return NotImplemented
            p = parts_of(v)
            if p is None:
                return OPAQUE
            out += p
        return mk(out)

    def percent(self, I, fmt, arg):
        """'...%s...' % x  with one string argument"""
        if fmt.py is None or fmt.py.count("%") != 1 or "%s" not in fmt.py:
            return NotImplemented
        if isinstance(arg, STuple):
            if len(arg.items) != 1:
                return NotImplemented
            arg = arg.items[0]
        v = self.format_value(I, arg, "s", None)
        if v is NotImplemented:
            return NotImplemented
        p = parts_of(v)
        if p is None:
            return OPAQUE
        a, b = fmt.py.split("%s")
        return mk([("lit", a)] + p + [("lit", b)])

    def truth(self, I, v):
        p = parts_of(v)
        if p is None:
            raise OutOfSubset("truth of opaque string")
        alts = []
        for k in p:
            if k[0] == "lit":
                if k[1]:
                    return True
            elif k[0] == "name":
                alts.append(k[1] != lit(""))
            else:
                return True  # str(int) is never empty
        return z3.Or(*alts) if alts else False


def install(P):
    P.ghost["strmodel"] = PartsModel()


def parts_equal(a, b):
    """z3 Bool / python bool: structural equality of two part sequences (same shape, equal pieces)"""
    if len(a) != len(b):
        return False
    conj = []
    for x, y in zip(a, b):
        if x[0] != y[0]:
            return False
        if x[0] == "lit":
            if x[1] != y[1]:
                return False
        else:
            conj.append(x[1] == y[1])
    return z3.And(*conj) if conj else True
