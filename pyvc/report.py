"""Verdicts, known findings, replay, evidence files, exit codes."""
import fnmatch
import json
import os
import re
import subprocess
import sys
import time

from .extract import EXTRACTION_DROPS, REPO

VERIF = os.path.dirname(os.path.dirname(os.path.abspath(__file__)))
KNOWN_FILE = os.path.join(VERIF, "KNOWN_FINDINGS.txt")
PY = os.environ.get("BARRIL_PY", "/venv/bin/python")

GLOBAL_ASSUMPTIONS = [
    "A1 machine floats are treated as mathematical reals (C12 adds NaN/±inf flags); rounding is not modelled",
    "A3 the Python semantics implemented by pyvc (evaluation order, operator dispatch, attribute lookup, exceptions, dict views, in-place operators, class-level objects) are assumed faithful; anything the interpreter does not model - an unknown builtin method, a field outside the contracts' object schemas, an unmodelled library call - makes the path undecided (out of subset), never a Python exception and never a verdict; refutations are replayed natively on the real code",
    "A5 numpy: elementwise arithmetic and comparisons on 1-d arrays, length-1 broadcasting, ValueError for other length mismatches, new arrays as results, in-place operators update the array; A10 oop_ext Callback / Singleton / interface decorators as modelled in pyvc/callbacks.py and pyvc/builtins.py",
    "A15 math.pow is the real power function: uninterpreted, with CPython's domain errors and ground instances of its laws over the applications a path makes (contracts/unit_database.power_facts); scale-only pairs of units are those with conv(u,w)(x) = ratio(u,w)*x",
    "callee closure: the clauses of callee contracts this property's proofs rely on are re-verified in this check and counted (tagged_dependency); other clauses of the same callees are left to the properties they belong to",
    "A4 ast.parse under python3.11 reads the same program CPython 3.12 runs",
    "A9 'for all histories' follows from the per-operation invariant/frame obligations by induction over public calls (meta-step, not machine-checked); one UnitDatabase singleton per history",
    "A13 z3 5.1 is correct (cvc5 1.0 cross-checks z3's unknowns; thorough tier re-checks samples)",
    "A14 termination is not proved (partial correctness)",
    "generators are evaluated eagerly (valid when no side effect interleaves with their consumption)",
]


def load_known():
    known, fixed = [], []
    if not os.path.exists(KNOWN_FILE):
        return known, fixed
    for line in open(KNOWN_FILE):
        line = line.strip()
        if not line or line.startswith("#"):
            continue
        if line.startswith("known:"):
            d = {}
            m = re.match(r"known:\s+property=(\S+)\s+obligation=(\S+)\s+(?:witness=(\S+)\s+)?what=(.*)$", line)
            if not m:
                raise SystemExit("KNOWN_FINDINGS.txt: cannot parse line: %s" % line)
            d["property"], d["pattern"], d["witness"], d["what"] = m.group(1), m.group(2), m.group(3), m.group(4)
            known.append(d)
        elif line.startswith("fixed:"):
            fixed.append(line)
    return known, fixed


def safe(name):
    return re.sub(r"[^A-Za-z0-9_.\-\[\]{}#:]+", "_", name)[:180]


def run_probe(name, hint, timeout=300):
    env = dict(os.environ)
    if REPO != "/repo":
        env["PYTHONPATH"] = os.path.join(REPO, "src")
    env.pop("PYTHONHASHSEED", None)
    try:
        p = subprocess.run(
            [PY, os.path.join(VERIF, "native", "run_probe.py"), name, json.dumps(hint)],
            capture_output=True,
            text=True,
            timeout=timeout,
            env=env,
            cwd="/",
        )
    except subprocess.TimeoutExpired:
        return {"reproduced": False, "error": "probe timeout"}
    for line in p.stdout.splitlines():
        if line.startswith("PROBE-RESULT "):
            return json.loads(line[len("PROBE-RESULT ") :])
    return {"reproduced": False, "error": "no probe result", "stdout": p.stdout[-2000:], "stderr": p.stderr[-2000:]}


class Report:
    def __init__(self, pid, tier, seed, level="proof", level_text=""):
        self.pid = pid
        self.tier = tier
        self.seed = seed
        self.level = level
        self.t0 = time.time()
        self.obligations = []  # dicts
        self.functions = []
        self.bounded = []
        self.notes = []
        self.errors = []
        self.assumptions = list(GLOBAL_ASSUMPTIONS)
        self.trusted = []
        self.checker_cmd = "./check %s --tier %s" % (pid, tier)
        self.extra = {}

    def add_task_result(self, tr):
        if tr.get("error"):
            self.errors.append("%s: %s" % (tr["name"], tr["error"]))
        for ob in tr["obligations"]:
            if self.pid in ob.get("props", []) or not ob.get("props"):
                self.obligations.append(ob)
        self.functions.extend(tr["functions"])
        self.bounded.extend(tr["bounded"])
        self.notes.extend(tr["notes"])
        for k, v in tr.get("extra", {}).items():
            self.extra.setdefault(k, []).append(v)

    def finish(self):
        pid = self.pid
        known, fixed = load_known()
        known = [k for k in known if k["property"] == pid]
        lines = []
        violations = []
        known_hits = {}
        undecided = []
        discharged = 0
        counted = 0
        by_backend = {}
        solver_ms = 0.0
        bounded_violations = [b["violation"] for b in self.bounded if b.get("violation") and pid in b.get("props", [])]
        for ob in self.obligations:
            st = ob["status"]
            solver_ms += ob.get("ms", 0.0)
            kf = None
            for k in known:
                if fnmatch.fnmatchcase(ob["name"], k["pattern"]):
                    kf = k
                    break
            if kf is not None:
                # obligations restricted to a known-finding case are kept apart
                known_hits.setdefault(kf["pattern"], {"entry": kf, "refuted": 0, "discharged": 0, "names": []})
                h = known_hits[kf["pattern"]]
                if st == "refuted":
                    h["refuted"] += 1
                    if len(h["names"]) < 5:
                        h["names"].append(ob["name"])
                elif st == "discharged":
                    h["discharged"] += 1
                else:
                    h["undecided"] = h.get("undecided", 0) + 1  # inside a case already known to be violated
                continue
            counted += 1
            if st == "discharged":
                discharged += 1
                by_backend[ob.get("backend", "z3")] = by_backend.get(ob.get("backend", "z3"), 0) + 1
            elif st == "refuted":
                violations.append(ob)
            else:
                undecided.append(ob)
        violations = violations + bounded_violations  # found by a bounded stand-in: reported, never counted as obligations
        # replay violations
        RD = os.environ.get("PYVC_REPLAY_DIR", os.path.join(VERIF, "replays"))
        os.makedirs(os.path.join(RD, pid), exist_ok=True)
        vio_records = []
        seen_replay = {}
        todo = []
        # the native replay budget goes first to violations of different functions / clauses / variants (many
        # refuted obligations are the same clause on different paths)
        import re as _re

        def _group(ob):
            n = _re.sub(r"#[ps]\d+$", "", ob["name"])
            return (_re.sub(r"\{[^}]*\}", "", n), n)

        buckets = {}
        for ob in violations:
            g = _group(ob)
            buckets.setdefault(g[0], {}).setdefault(g[1], []).append(ob)
        ordered = []
        layers = [[v for v in b.values()] for b in buckets.values()]
        depth = 0
        while any(layers):
            for lay in layers:
                if lay:
                    grp = lay.pop(0)
                    ordered.append(grp[0])
                    if len(grp) > 1:
                        lay.append(grp[1:])
            depth += 1
            if depth > 10000:
                break
        for ob in ordered:
            rp = ob.get("replay")
            key = json.dumps(rp, sort_keys=True) if rp else None
            if rp and key not in seen_replay and len(seen_replay) < 24:
                seen_replay[key] = None
                todo.append((key, rp))
        if todo:
            from concurrent.futures import ThreadPoolExecutor

            with ThreadPoolExecutor(max_workers=8) as tp:
                for (key, rp), nat in zip(todo, tp.map(lambda kr: run_probe(kr[1]["probe"], kr[1]["hint"]), todo)):
                    seen_replay[key] = nat
        for ob in violations:
            rp = ob.get("replay")
            key = json.dumps(rp, sort_keys=True) if rp else None
            native = seen_replay.get(key) if rp else None
            if rp and native is None:
                native = {"reproduced": False, "note": "replay budget (24 native replays per run) exhausted; run ./check %s --replay <this file>" % pid}
            path = os.path.join(RD, pid, safe(ob["name"]) + ".json")
            rec = {
                "property": pid,
                "obligation": ob["name"],
                "status": ob["status"],
                "detail": ob.get("detail"),
                "solver_model": ob.get("model"),
                "backend": ob.get("backend"),
                "replay": rp,
                "native": native,
                "repo": REPO,
            }
            with open(path, "w") as f:
                json.dump(rec, f, indent=1, default=repr)
            repro = bool(native and native.get("reproduced"))
            vio_records.append((ob, path, repro, native))
        vio_records.sort(key=lambda r: not r[2])
        any_repro = any(r for _, _, r, _ in vio_records)
        for ob, path, repro, native in vio_records[:40]:
            tail = "" if repro else " no-failing-input-found"
            lines.append("VIOLATION property=%s replay=%s obligation=%s%s" % (pid, path, ob["name"], tail))
        if len(vio_records) > 40:
            lines.append("... %d more violated obligations (see evidence)" % (len(vio_records) - 40))
        # known findings
        kf_out = []
        for k in known:
            h = known_hits.get(k["pattern"])
            entry = {"pattern": k["pattern"], "what": k["what"], "refuted": 0, "discharged": 0, "witness": k["witness"]}
            if h:
                entry["refuted"], entry["discharged"] = h["refuted"], h["discharged"]
                entry["examples"] = h["names"]
            if k["witness"]:
                pn, _, hj = k["witness"].partition(":")
                try:
                    hint = json.loads(hj) if hj else {}
                except Exception:
                    hint = {}
                nat = run_probe(pn, hint)
                entry["witness_still_fails"] = bool(nat.get("reproduced"))
                entry["witness_result"] = nat
            if entry["refuted"] > 0 or entry.get("witness_still_fails"):
                lines.append("KNOWN-FINDING: property=%s %s" % (pid, k["what"]))
            else:
                entry["stale"] = True
                lines.append("NOTE: known finding no longer observed (stale entry): %s" % k["what"])
            kf_out.append(entry)
        for ob in undecided[:20]:
            lines.append("UNDECIDED property=%s obligation=%s status=%s %s" % (pid, ob["name"], ob["status"], (ob.get("detail") or "")[:200]))
        for e in self.errors:
            lines.append("CHECKER-ERROR %s" % e.strip().splitlines()[-1])
        # exit code
        if self.errors:
            code = 3
        elif violations:
            code = 1
        elif undecided:
            code = 2
        elif counted == 0:
            lines.append("CHECKER-ERROR zero obligations generated for %s" % pid)
            code = 3
        else:
            code = 0
        # evidence
        samples = []
        step = max(1, len(self.obligations) // 10)
        for ob in self.obligations[::step][:10]:
            samples.append({k: ob.get(k) for k in ("name", "kind", "status", "ms", "smt_size", "backend", "detail")})
        funcs = []
        seenf = set()
        byname = {}
        for f in self.functions:
            if f["function"] in seenf:
                g = byname[f["function"]]
                for k in ("paths", "solver_s", "solver_calls", "wall_s"):
                    if k in f and k in g:
                        g[k] = round(g[k] + f[k], 3)
                for k in ("inlined", "callee_contracts_used"):
                    if k in f and k in g:
                        g[k] = sorted(set(g[k]) | set(f[k]))
                for k in ("covers", "invariant_instances_assumed"):
                    if isinstance(f.get(k), dict) and isinstance(g.get(k), dict):
                        g[k].update(f[k])
                continue
            seenf.add(f["function"])
            byname[f["function"]] = f
            funcs.append(f)
        cov = {
            "obligations": counted,
            "discharged": discharged,
            "checker_cmd": self.checker_cmd,
            "trusted_base": self.trusted,
            "samples": samples,
            "refuted": len(violations),
            "undecided": len(undecided),
            "by_backend": by_backend,
            "solver_s": round(solver_ms / 1000.0, 3),
            "functions_under_contract": funcs,
            "known_findings": kf_out,
            "fixed_findings": [l for l in fixed if "property=%s " % pid in l],
            "bounded": self.bounded,
            "extraction_drops": EXTRACTION_DROPS,
            "notes": self.notes[:50],
            "violated_obligations": [
                {"name": ob["name"], "detail": ob.get("detail"), "replay_file": p, "reproduced_natively": r}
                for ob, p, r, _ in vio_records[:100]
            ],
            "undecided_obligations": [{"name": ob["name"], "status": ob["status"], "detail": ob.get("detail")} for ob in undecided[:100]],
            "repo": REPO,
        }
        cov.update(self.extra_cov())
        ev = {
            "property_id": pid,
            "tier": self.tier,
            "seed": self.seed,
            "level": self.level,
            "coverage": cov,
            "assumptions": self.assumptions,
            "wall_s": round(time.time() - self.t0, 3),
            "violations": len(violations),
        }
        out = os.environ.get("PYVC_EVIDENCE_DIR", os.path.join(VERIF, "evidence"))
        os.makedirs(out, exist_ok=True)
        with open(os.path.join(out, "%s.json" % pid), "w") as f:
            json.dump(ev, f, indent=1, default=repr)
        for l in lines:
            print(l)
        print(
            "%s %s: obligations=%d discharged=%d refuted=%d undecided=%d known-finding-cases=%d functions=%d wall=%.1fs exit=%d"
            % (pid, self.tier, counted, discharged, len(violations), len(undecided), sum(k["refuted"] for k in kf_out), len(funcs), time.time() - self.t0, code)
        )
        return code

    def extra_cov(self):
        out = {}
        for k, v in self.extra.items():
            out[k] = v
        return out
