"""Mechanical extraction of the code under verification.

Every run re-reads the working tree under <repo>/src with ``ast``; no text of any barril function is
kept in /verif.  What extraction drops is listed in EXTRACTION_DROPS and copied into every evidence
file.
"""
import ast
import hashlib
import os
import subprocess
import sys

REPO = os.environ.get("BARRIL_REPO", "/repo")
SRC = os.path.join(REPO, "src")

EXTRACTION_DROPS = [
    "docstrings (expression statements that are string constants)",
    "type annotations and '# type:' comments (AnnAssign without value is a no-op)",
    "typing.cast(T, e) is evaluated as e",
    "'if TYPE_CHECKING:' blocks and @overload stubs",
    "decorators @Implements, @Override, @ImplementsInterface, @Deprecated (oop_ext; assumed to return the function/class unchanged)",
    "@total_ordering is modelled by inlining _gt_from_lt/_le_from_lt/_ge_from_lt read from the running interpreter's functools.py",
    "string formatting whose value only flows into an exception message is abstracted to an opaque string",
]


class FuncInfo:
    def __init__(self, node, module, qualname, cls=None, outer=None):
        self.node = node
        self.module = module  # ModuleInfo
        self.qualname = qualname  # e.g. UnitDatabase.Convert or UnitInfo.__init__.<locals>.MakeLambda
        self.cls = cls  # ClassInfo or None
        self.outer = outer
        self.decorators = [_dec_name(d) for d in getattr(node, "decorator_list", [])]

    @property
    def fq(self):
        return "%s:%s" % (self.module.name, self.qualname)

    @property
    def is_classmethod(self):
        return "classmethod" in self.decorators

    @property
    def is_staticmethod(self):
        return "staticmethod" in self.decorators

    @property
    def is_property(self):
        return "property" in self.decorators

    def source_segment(self):
        lines = self.module.lines[self.node.lineno - 1 : self.node.end_lineno]
        return "\n".join(lines)

    def sha256(self):
        return hashlib.sha256(self.source_segment().encode()).hexdigest()

    def span(self):
        return (self.node.lineno, self.node.end_lineno)

    def __repr__(self):
        return "<Func %s>" % self.fq


def _dec_name(d):
    if isinstance(d, ast.Call):
        d = d.func
    if isinstance(d, ast.Attribute):
        return d.attr
    if isinstance(d, ast.Name):
        return d.id
    return "?"


class ClassInfo:
    def __init__(self, node, module):
        self.node = node
        self.module = module
        self.name = node.name
        self.base_exprs = node.bases
        self.methods = {}  # name -> FuncInfo
        self.attrs = {}  # name -> ast expr (class-level assignments)
        self.aliases = {}  # name -> other attribute name (GetValue = GetAbstractValue)
        self.properties = {}  # name -> (getter name, setter name or None)
        self.decorators = [_dec_name(d) for d in node.decorator_list]
        self.bases = []  # resolved ClassInfo or builtin name strings (filled by Repo.link)
        for st in node.body:
            if isinstance(st, (ast.FunctionDef,)):
                decs = [_dec_name(d) for d in st.decorator_list]
                if "overload" in decs:
                    continue
                fi = FuncInfo(st, module, "%s.%s" % (self.name, st.name), cls=self)
                if "property" in decs:
                    self.properties[st.name] = (st.name, None)
                self.methods[st.name] = fi
            elif isinstance(st, ast.Assign) and len(st.targets) == 1 and isinstance(st.targets[0], ast.Name):
                tname = st.targets[0].id
                v = st.value
                if (
                    isinstance(v, ast.Call)
                    and isinstance(v.func, ast.Name)
                    and v.func.id == "property"
                ):
                    g = v.args[0].id if v.args and isinstance(v.args[0], ast.Name) else None
                    s = v.args[1].id if len(v.args) > 1 and isinstance(v.args[1], ast.Name) else None
                    self.properties[tname] = (g, s)
                elif isinstance(v, ast.Name) and v.id in self.methods:
                    self.aliases[tname] = v.id
                else:
                    self.attrs[tname] = v
            elif isinstance(st, ast.AnnAssign) and isinstance(st.target, ast.Name) and st.value is not None:
                self.attrs[st.target.id] = st.value

    @property
    def fq(self):
        return "%s:%s" % (self.module.name, self.name)

    def mro(self):
        # simple linearisation good enough for barril's single-inheritance chains (+Generic)
        out = [self]
        for b in self.bases:
            if isinstance(b, ClassInfo):
                for c in b.mro():
                    if c not in out:
                        out.append(c)
        return out

    def base_names(self):
        names = []
        for c in self.mro():
            names.append(c.name)
            for b in c.bases:
                if not isinstance(b, ClassInfo):
                    names.append(b)
        return names

    def find_method(self, name):
        for c in self.mro():
            if name in c.aliases:
                name2 = c.aliases[name]
                return c.find_method(name2)
            if name in c.methods and name not in c.properties:
                return c.methods[name]
            if name in c.methods:
                return c.methods[name]
        return None

    def find_property(self, name):
        for c in self.mro():
            if name in c.properties:
                g, s = c.properties[name]
                return c, g, s
            if name in c.methods or name in c.attrs or name in c.aliases:
                return None
        return None

    def find_attr(self, name):
        for c in self.mro():
            if name in c.attrs:
                return c, c.attrs[name]
        return None

    def is_subclass_of(self, other_name):
        return other_name in self.base_names()

    def __repr__(self):
        return "<Class %s>" % self.fq


class ModuleInfo:
    def __init__(self, name, path):
        self.name = name
        self.path = path
        with open(path, "r", encoding="utf-8") as f:
            self.text = f.read()
        self.lines = self.text.split("\n")
        self.tree = ast.parse(self.text, filename=path)
        self.functions = {}
        self.classes = {}
        self.constants = {}  # name -> ast expr
        self.imports = {}  # local name -> (module, attr or None)
        self._scan(self.tree.body)

    def _scan(self, body):
        for st in body:
            if isinstance(st, ast.FunctionDef):
                decs = [_dec_name(d) for d in st.decorator_list]
                if "overload" in decs:
                    continue
                self.functions[st.name] = FuncInfo(st, self, st.name)
            elif isinstance(st, ast.ClassDef):
                self.classes[st.name] = ClassInfo(st, self)
            elif isinstance(st, ast.Assign) and len(st.targets) == 1 and isinstance(st.targets[0], ast.Name):
                self.constants[st.targets[0].id] = st.value
            elif isinstance(st, ast.AnnAssign) and isinstance(st.target, ast.Name) and st.value is not None:
                self.constants[st.target.id] = st.value
            elif isinstance(st, ast.ImportFrom):
                mod = st.module or ""
                if st.level:
                    pkg = self.name.split(".")
                    # module name is a.b.c ; level 1 => a.b
                    base = pkg[: len(pkg) - st.level] if not self.path.endswith("__init__.py") else pkg[: len(pkg) - st.level + 1]
                    mod = ".".join(base + ([mod] if mod else []))
                for a in st.names:
                    self.imports[a.asname or a.name] = (mod, a.name)
            elif isinstance(st, ast.Import):
                for a in st.names:
                    self.imports[a.asname or a.name.split(".")[0]] = (a.name, None)
            elif isinstance(st, ast.If):
                # if TYPE_CHECKING: dropped ; else-branches scanned
                t = st.test
                if isinstance(t, ast.Name) and t.id == "TYPE_CHECKING":
                    self._scan(st.orelse)
                else:
                    self._scan(st.body)
                    self._scan(st.orelse)


class Repo:
    def __init__(self, src=SRC):
        self.src = src
        self.modules = {}
        root = os.path.join(src, "barril")
        for dirpath, dirnames, filenames in os.walk(root):
            dirnames[:] = [d for d in dirnames if d != "_tests" and d != "__pycache__"]
            for fn in filenames:
                if not fn.endswith(".py") or fn == "conftest.py":
                    continue
                path = os.path.join(dirpath, fn)
                rel = os.path.relpath(path, src)[:-3].replace(os.sep, ".")
                if rel.endswith(".__init__"):
                    rel = rel[: -len(".__init__")]
                self.modules[rel] = ModuleInfo(rel, path)
        self._link()

    def _link(self):
        for m in self.modules.values():
            for c in m.classes.values():
                c.bases = []
                for b in c.base_exprs:
                    bn = None
                    if isinstance(b, ast.Name):
                        bn = b.id
                    elif isinstance(b, ast.Subscript) and isinstance(b.value, ast.Name):
                        bn = b.value.id  # Generic[...]
                    elif isinstance(b, ast.Attribute):
                        bn = b.attr
                    r = self.resolve_name(m, bn) if bn else None
                    c.bases.append(r if isinstance(r, ClassInfo) else (bn or "?"))

    def resolve_name(self, module, name, _depth=0):
        """Resolve a module-level name to FuncInfo / ClassInfo / ('const', ast) / ('extmod', name) / None."""
        if _depth > 8:
            return None
        if name in module.classes:
            return module.classes[name]
        if name in module.functions:
            return module.functions[name]
        if name in module.constants:
            return ("const", module, module.constants[name])
        if name in module.imports:
            mod, attr = module.imports[name]
            if attr is None:
                return ("extmod", mod)
            if mod in self.modules:
                return self.resolve_name(self.modules[mod], attr, _depth + 1)
            # package import: from barril.units import Scalar  (units/__init__)
            if mod + "." + attr in self.modules:
                return ("mod", self.modules[mod + "." + attr])
            return ("ext", mod, attr)
        return None

    def func(self, fq):
        """fq = 'barril.units.unit_database:UnitDatabase.Convert' or with '.<locals>.name' suffixes."""
        modname, qual = fq.split(":")
        m = self.modules[modname]
        parts = qual.split(".<locals>.")
        head = parts[0]
        if "." in head:
            cname, mname = head.split(".", 1)
            fi = m.classes[cname].methods[mname]
        else:
            fi = m.functions[head]
        for p in parts[1:]:
            found = None
            for st in ast.walk(fi.node):
                if isinstance(st, ast.FunctionDef) and st.name == p and st is not fi.node:
                    found = st
                    break
            if found is None:
                raise KeyError(fq)
            fi = FuncInfo(found, m, fi.qualname + ".<locals>." + p, cls=None, outer=fi)
        return fi

    def cls(self, fq):
        modname, cname = fq.split(":")
        return self.modules[modname].classes[cname]


_functools_cache = {}


def stdlib_total_ordering_bodies():
    """Parse the interpreter's own functools.py (the one /venv/bin/python runs) and return the
    FunctionDefs total_ordering installs when only __lt__ is defined."""
    if _functools_cache:
        return _functools_cache
    py = os.environ.get("BARRIL_PY", "/venv/bin/python")
    try:
        path = subprocess.check_output([py, "-c", "import functools;print(functools.__file__)"], text=True).strip()
    except Exception:
        import functools

        path = functools.__file__
    m = ModuleInfo("functools", path)
    for n in ("_gt_from_lt", "_le_from_lt", "_ge_from_lt"):
        _functools_cache[n] = m.functions[n]
    _functools_cache["__path__"] = path
    return _functools_cache


_repo = None


def get_repo():
    global _repo
    if _repo is None:
        _repo = Repo()
    return _repo


if __name__ == "__main__":
    import time

    t = time.time()
    r = Repo()
    print(len(r.modules), "modules", time.time() - t)
    print(r.func("barril.units.unit_database:UnitDatabase.Convert").span())
    print(r.func("barril.units.unit_database:UnitInfo.__init__.<locals>.MakeLambda").span())
    print(r.cls("barril.units._fixedarray:FixedArray").base_names())
    print(stdlib_total_ordering_bodies()["_gt_from_lt"].span())
