"""Standard task kinds: verify a function contract, table rows, spec-level lemmas."""
import time
import z3

from .tasks import task, TaskResult
from .engine import Obligation, app, FnS, RealS
from .extract import get_repo


def table_or_obligation(tr, filler, chunk, props):
    """the filler must not raise: obligation filler[<name>]/no-raise (reported once, by chunk 0)"""
    from .table import get_table, TableError

    try:
        T = get_table(filler)
    except TableError as e:
        if getattr(e, "raised", None) is None:
            raise
        if chunk == 0:
            ob = Obligation("filler[%s]/no-raise" % filler, props, "row")
            ob.status = "refuted"
            ob.backend = "ground"
            ob.detail = str(e)[:600]
            d = ob.to_dict()
            d["replay"] = {"probe": "filler_builds", "hint": {"filler": filler}}
            tr.obligations.append(d)
        return None
    if chunk == 0:
        ob = Obligation("filler[%s]/no-raise" % filler, props, "row")
        ob.status = "discharged"
        ob.backend = "ground"
        tr.obligations.append(ob.to_dict())
    return T


def load_contracts():
    import contracts  # noqa

    contracts.load_all()


@task("verify")
def t_verify(tier, fq, replay=None, part=None, nparts=None, tag=None, vfilter=None):
    """tag = {"prop": P, "include": [fnmatch...], "exclude": [fnmatch...]}: this contract is a callee whose
    clauses matching include (and not exclude) carry property P's argument: their obligations are counted
    for P as well (modular verification: the caller's proof for P assumed exactly these clauses).
    vfilter: fnmatch patterns selecting variants of the contract."""
    import fnmatch
    from .contract import verify, REGISTRY

    load_contracts()
    spec = REGISTRY[fq]
    r = verify(spec, tier, part=(part, nparts) if nparts else None, vfilter=vfilter)
    tr = TaskResult("verify:" + fq + ("" if not nparts else "[%d/%d]" % (part, nparts)))
    for ob in r.obligations:
        d = ob.to_dict()
        if tag:
            inc = any(fnmatch.fnmatchcase(ob.name, p) for p in tag.get("include", ["*"]))
            exc = any(fnmatch.fnmatchcase(ob.name, p) for p in tag.get("exclude", []))
            if ob.status == "oos" or "/subset#" in ob.name:
                # a path of the callee that left the interpreter's subset: whatever clause it belonged to is
                # undecided for the dependent property too (never silently dropped)
                inc, exc = True, False
            if inc and not exc and tag["prop"] not in d.get("props", []):
                d["props"] = list(d.get("props", [])) + [tag["prop"]]
                d["tagged_dependency"] = True
        rp = spec.replay_hint(ob) if hasattr(spec, "replay_hint") else None
        if rp and ob.status == "refuted":
            d["replay"] = rp
        tr.obligations.append(d)
    tr.functions.append(r.meta())
    # vacuity: every case of the contract must be reachable
    return tr


@task("table_c01")
def t_table_c01(tier, filler, chunk, nchunks):
    from .table import get_table, row_obligations_c01

    tr = TaskResult("table_c01:%s:%d/%d" % (filler, chunk, nchunks))
    T = table_or_obligation(tr, filler, chunk, ("C01",))
    if T is None:
        return tr
    rows = list(T.units.values())
    part = rows[chunk::nchunks]
    for row in part:
        for ob in row_obligations_c01(T, row):
            d = ob.to_dict()
            if ob.status == "refuted":
                which = ob.name.rsplit("/", 1)[1]
                hint = {"filler": filler, "unit": row.unit, "which": which}
                if ob.model:
                    hint.update({k: v for k, v in ob.model.items() if k in ("x", "y")})
                d["replay"] = {"probe": "c01_row", "hint": hint}
            tr.obligations.append(d)
    if chunk == 0:
        tr.extra["table"] = {"filler": filler, "units": len(T.units), "quantity_types": len(T.qts), "categories": len(T.cats), "build_s": round(T.build_s, 2)}
        fns = sorted(T.calls)
        repo = get_repo()
        for fq in fns:
            try:
                fi = repo.func(fq)
            except Exception:
                continue
            tr.functions.append({"function": fq, "file": fi.module.path, "lines": list(fi.span()), "sha256": fi.sha256(), "level": "proof", "role": "real AST executed on the literal table (%d calls)" % T.calls[fq]})
    return tr


@task("lemma_c01_compose")
def t_lemma_c01(tier):
    """From Inv1/Inv2/Mono of each unit (the row obligations, ∀x∈ℝ) and Convert's float clause
    (result = app(fb_v, app(tb_u, x))): round trip, path independence, strict monotonicity of every
    conversion inside a quantity type.  Units are arbitrary (uninterpreted Fn constants)."""
    tr = TaskResult("lemma_c01_compose")
    x, y = z3.Reals("x y")
    fs = {}
    ax = []
    for u in "uvw":
        tb = z3.Const("tb_" + u, FnS)
        fb = z3.Const("fb_" + u, FnS)
        fs[u] = (tb, fb)
        ax.append(z3.ForAll([x], app(fb, app(tb, x)) == x))
        ax.append(z3.ForAll([x], app(tb, app(fb, x)) == x))
        ax.append(z3.ForAll([x, y], z3.Implies(x < y, app(tb, x) < app(tb, y))))
        ax.append(z3.ForAll([x, y], z3.Implies(x < y, app(fb, x) < app(fb, y))))

    def conv(a, b, t):
        return app(fs[b][1], app(fs[a][0], t))

    goals = {
        "round-trip": conv("v", "u", conv("u", "v", x)) == x,
        "path-independence": conv("v", "w", conv("u", "v", x)) == conv("u", "w", x),
        "monotone": z3.Implies(x < y, conv("u", "v", x) < conv("u", "v", y)),
        "never-reorders": z3.Implies(conv("u", "v", x) < conv("u", "v", y), x < y),
    }
    for name, g in goals.items():
        ob = Obligation("lemma[C01.compose/%s]" % name, ("C01", "C08"), "lemma")
        s = z3.Solver()
        s.set("timeout", 20000)
        s.add(*ax)
        s.add(z3.Not(g))
        t0 = time.time()
        r = s.check()
        ob.ms = (time.time() - t0) * 1000
        ob.smt_size = len(s.sexpr())
        ob.status = "discharged" if r == z3.unsat else ("refuted" if r == z3.sat else "unknown")
        tr.obligations.append(ob.to_dict())
    return tr


# ------------------------------------------------------------------------------------------------
# ground table obligations (the real function is executed on the concrete registry; no solver)


def _ground(name, props, ok, detail="", replay=None):
    ob = Obligation(name, props, "row")
    ob.status = "discharged" if ok else "refuted"
    ob.backend = "ground"
    ob.detail = detail
    d = ob.to_dict()
    if replay and not ok:
        d["replay"] = replay
    return d


def _call_concrete(T, fn):
    """run fn(I) on the table's database; exactly one path expected; returns ('return', v)|('raise', exc)"""
    from .table import explore_fn

    res, _ = explore_fn(T, lambda I, P: fn(I))
    if len(res) != 1:
        return ("oos", "%d paths on a concrete registry" % len(res))
    return res[0].outcome


def _py(v):
    from .builtins import to_py

    return to_py(v)


def legacy_table(I):
    from .values import SFunc

    mod = I.repo.modules["barril.units.unit_database"]
    from .interp import Frame

    v = I.eval(mod.constants["_LEGACY_TO_CURRENT"], Frame(mod))
    return [tuple(x) for x in _py(v)]


@task("table_c16")
def t_table_c16(tier, filler, chunk, nchunks):
    """∀u ∈ dom U: Fix(u) = (False,u);  ∀ legacy spelling l of u: l ∉ dom U, Fix(l) = (True,u),
    Fix(Fix(l)) = Fix(l); and GetDefaultCategory / GetInfo / Convert accept l exactly like u."""
    from .table import get_table
    from .values import SStr, SFunc, SNum
    from .interp import Interp
    from .engine import Path

    tr = TaskResult("table_c16:%s:%d/%d" % (filler, chunk, nchunks))
    T = table_or_obligation(tr, filler, chunk, ("C16",))
    if T is None:
        return tr
    repo = get_repo()
    fixfn = SFunc(repo.func("barril.units.unit_database:FixUnitIfIsLegacy"))
    I0 = Interp(Path([], {}), repo)
    leg = legacy_table(I0)

    def fix(s):
        out = _call_concrete(T, lambda I: I.call(fixfn, [SStr(s)]))
        if out[0] != "return":
            return None
        return _py(out[1])

    units = list(T.units)
    nleg = 0
    for u in units[chunk::nchunks]:
        r = fix(u)
        tr.obligations.append(_ground("%s/row[%s]/fix(u)=u" % (filler, u), ("C16",), r == (False, u), "FixUnitIfIsLegacy(%r) = %r" % (u, r), {"probe": "c16_fix", "hint": {"s": u, "expect": [False, u]}}))
        for legacy, current in leg:
            if current in u:
                l = u.replace(current, legacy)
                if l == u:
                    continue
                nleg += 1
                base = "%s/legacy[%s<-%s]" % (filler, u, l)
                tr.obligations.append(_ground(base + "/not-registered", ("C16",), l not in T.units, "legacy spelling %r is itself a registered unit" % l))
                r = fix(l)
                tr.obligations.append(_ground(base + "/fix(l)=u", ("C16",), r == (True, u), "FixUnitIfIsLegacy(%r) = %r" % (l, r), {"probe": "c16_fix", "hint": {"s": l, "expect": [True, u]}}))
                if r is not None:
                    r2 = fix(r[1])
                    tr.obligations.append(_ground(base + "/idempotent", ("C16",), r2 is not None and r2[1] == r[1] and r2[0] is False, "fix(fix(l)) = %r" % (r2,)))
                # entry points on the concrete registry: default category and conversion agree
                row = T.units[u]
                o1 = _call_concrete(T, lambda I: I.call(I.getattr(T.db, "GetDefaultCategory"), [SStr(l)]))
                o2 = _call_concrete(T, lambda I: I.call(I.getattr(T.db, "GetDefaultCategory"), [SStr(u)]))
                same = o1[0] == o2[0] == "return" and _py(o1[1]) == _py(o2[1])
                tr.obligations.append(_ground(base + "/GetDefaultCategory", ("C16",), same, "legacy %s vs current %s" % (o1[1] if o1[0] == "return" else o1, o2[1] if o2[0] == "return" else o2), {"probe": "c16_entry", "hint": {"filler": filler, "legacy": l, "unit": u}}))
                o3 = _call_concrete(T, lambda I: I.getattr(I.call(I.getattr(T.db, "GetInfo"), [SStr(row.qt), SStr(l)]), "unit"))
                tr.obligations.append(_ground(base + "/GetInfo", ("C16",), o3[0] == "return" and _py(o3[1]) == u, "GetInfo(%r,%r).unit = %s" % (row.qt, l, o3[1] if o3[0] == "return" else o3), {"probe": "c16_entry", "hint": {"filler": filler, "legacy": l, "unit": u}}))
    tr.extra["legacy_spellings"] = nleg
    if chunk == 0:
        tr.extra["substitutions"] = leg
        fi = repo.func("barril.units.unit_database:FixUnitIfIsLegacy")
        tr.functions.append({"function": fi.fq, "file": fi.module.path, "lines": list(fi.span()), "sha256": fi.sha256(), "level": "proof", "role": "real AST executed on every table symbol and every derivable legacy spelling (exhaustive, ground)"})
    return tr


@task("table_c19")
def t_table_c19(tier, filler, chunk, nchunks):
    """∀u: GetDefaultCategory(u) is a registered category of u's quantity type (so Scalar(v,u) and
    Scalar(v,u,c) name the same quantity); no symbol contains a quote or a backslash (repr evals back)."""
    from .table import get_table
    from .values import SStr

    tr = TaskResult("table_c19:%s:%d/%d" % (filler, chunk, nchunks))
    T = table_or_obligation(tr, filler, chunk, ("C19",))
    if T is None:
        return tr
    for u in list(T.units)[chunk::nchunks]:
        row = T.units[u]
        out = _call_concrete(T, lambda I: I.call(I.getattr(T.db, "GetDefaultCategory"), [SStr(u)]))
        c = _py(out[1]) if out[0] == "return" else None
        ok = c is not None and c in T.cats and T.cats[c].qt == row.qt
        if filler == "posc_nocat":
            ok = out[0] == "return" and (c is None or (c in T.cats and T.cats[c].qt == row.qt))
        tr.obligations.append(_ground("%s/row[%s]/default_category" % (filler, u), ("C19", "C14"), ok, "GetDefaultCategory(%r) = %r (unit's quantity type %r)" % (u, c, row.qt), {"probe": "c19_defcat", "hint": {"filler": filler, "unit": u}}))
        tr.obligations.append(_ground("%s/row[%s]/repr-safe" % (filler, u), ("C19",), "'" not in u and "\\" not in u, "symbol %r" % u))
    if chunk == 0:
        for c in T.cats:
            tr.obligations.append(_ground("%s/cat[%s]/repr-safe" % (filler, c), ("C19",), "'" not in c and "\\" not in c, "category %r" % c))
        repo = get_repo()
        fi = repo.func("barril.units.unit_database:UnitDatabase.GetDefaultCategory")
        tr.functions.append({"function": fi.fq, "file": fi.module.path, "lines": list(fi.span()), "sha256": fi.sha256(), "level": "proof", "role": "real AST executed for every table unit (exhaustive, ground)"})
    return tr


@task("table_c14")
def t_table_c14(tier, filler, chunk, nchunks):
    """WF of the registry each shipped filler builds, row by row (W1 unit/list agreement, W2 identity
    base first, W3 categories), plus 'a Scalar can be built for every category and every unit of its
    quantity type' by executing the real constructors on the table registry."""
    from .table import get_table, explore_fn
    from .values import SStr, SNum, SClass
    from .engine import discharge
    import z3 as _z3

    tr = TaskResult("table_c14:%s:%d/%d" % (filler, chunk, nchunks))
    T = table_or_obligation(tr, filler, chunk, ("C14",))
    if T is None:
        return tr
    P = ("C14",)
    add = tr.obligations.append
    rp = lambda kind, **h: {"probe": "c14_wf", "hint": dict(h, filler=filler, kind=kind)}
    units = list(T.units.items())
    for u, row in units[chunk::nchunks]:
        lst = T.qts.get(row.qt)
        add(_ground("%s/W1[%s]/key-is-symbol" % (filler, u), P, row.unit == u, "unit_to_unit_info[%r].unit = %r" % (u, row.unit), rp("unit", unit=u)))
        listed = lst is not None and row.index is not None and row.index < len(lst) and lst[row.index] is row
        add(_ground("%s/W1[%s]/listed-in-own-type" % (filler, u), P, listed, "unit %r of type %r is not listed (same object) in quantity_types[%r]" % (u, row.qt, row.qt), rp("unit", unit=u)))
    qts = list(T.qts.items())
    for qt, rows in qts[chunk::nchunks]:
        syms = [r.unit for r in rows]
        add(_ground("%s/W1[%s]/no-duplicates" % (filler, qt), P, len(set(syms)) == len(syms), "quantity type %r lists a symbol twice" % qt, rp("qt", qt=qt)))
        ok = all(r.qt == qt and T.units.get(r.unit) is r for r in rows)
        add(_ground("%s/W1[%s]/members-registered" % (filler, qt), P, ok, "a unit listed under %r is not the registered object for its symbol or names another type" % qt, rp("qt", qt=qt)))
        add(_ground("%s/W2[%s]/non-empty" % (filler, qt), P, len(rows) > 0, "quantity type %r has no unit" % qt, rp("qt", qt=qt)))
        if rows:
            b = rows[0]
            x = _z3.Real("x")
            for fname, f in (("tobase", b.tb), ("frombase", b.fb)):
                ob = Obligation("%s/W2[%s]/base-%s-identity" % (filler, qt, fname), P, "row")
                res, _ = explore_fn(T, lambda I, P_: I.call(f, [SNum(x, "float")]))
                ob.status = "discharged"
                for r in res:
                    if r.outcome[0] != "return" or not isinstance(r.outcome[1], SNum):
                        ob.status = "refuted" if r.outcome[0] != "oos" else "oos"
                        ob.detail = "first-listed unit %r of %r: %s raises/returns a non-number" % (b.unit, qt, fname)
                        break
                    o2 = Obligation("tmp")
                    discharge(r.path, r.outcome[1].real() == x, o2)
                    ob.ms += o2.ms
                    if o2.status != "discharged":
                        ob.status = o2.status
                        ob.model = o2.model
                        ob.detail = "first-listed unit %r of %r: %s is not the identity" % (b.unit, qt, fname)
                        break
                d = ob.to_dict()
                if ob.status == "refuted":
                    d["replay"] = rp("base", qt=qt)
                add(d)
    cats = list(T.cats.items())
    for c, ci in cats[chunk::nchunks]:
        base = "%s/W3[%s]" % (filler, c)
        us = [r.unit for r in T.qts.get(ci.qt, [])]
        add(_ground(base + "/quantity-type-exists", P, ci.qt in T.qts, "category %r -> unknown quantity type %r" % (c, ci.qt), rp("cat", cat=c)))
        add(_ground(base + "/default-unit-in-type", ("C14", "C12"), ci.default_unit in us, "default unit %r not among units of %r" % (ci.default_unit, ci.qt), rp("cat", cat=c)))
        add(_ground(base + "/valid-units-in-type", P, ci.valid_units is None or all(v in us for v in ci.valid_units), "valid_units %r not all in %r" % (ci.valid_units, ci.qt), rp("cat", cat=c)))
        add(_ground(base + "/valid-units-set", P, ci.valid_units_set == set(ci.valid_units or []), "valid_units_set differs from valid_units", rp("cat", cat=c)))
        lim = True
        if ci.min_value is not None and ci.max_value is not None:
            lim = ci.min_value <= ci.max_value
        if ci.min_value is not None:
            lim = lim and (ci.default_value > ci.min_value if ci.is_min_exclusive else ci.default_value >= ci.min_value)
        if ci.max_value is not None:
            lim = lim and (ci.default_value < ci.max_value if ci.is_max_exclusive else ci.default_value <= ci.max_value)
        add(_ground(base + "/default-value-in-limits", ("C14", "C12"), lim, "default %r, limits [%r,%r]" % (ci.default_value, ci.min_value, ci.max_value), rp("cat", cat=c)))
    if chunk == 0:
        tr.extra["table"] = {"filler": filler, "units": len(T.units), "quantity_types": len(T.qts), "categories": len(T.cats)}
        repo = get_repo()
        for fq in sorted(T.calls):
            try:
                fi = repo.func(fq)
            except Exception:
                continue
            tr.functions.append({"function": fq, "file": fi.module.path, "lines": list(fi.span()), "sha256": fi.sha256(), "level": "proof", "role": "real AST executed on the literal table (%d calls)" % T.calls[fq]})
    return tr


@task("lemma_arith")
def t_lemma_arith(tier, max_n=2):
    """spec-level lemmas over the arithmetic contracts (log domain), see contracts/arith.py"""
    load_contracts()
    from contracts.arith import arith_lemmas

    tr = TaskResult("lemma_arith")
    for name, props, hyp, goal in arith_lemmas(3 if tier == "thorough" else max_n):
        ob = Obligation(name, props, "lemma")
        s = z3.Solver()
        s.set("timeout", 60000 if tier == "thorough" else 20000)
        for h in hyp:
            s.add(h)
        s.add(z3.Not(goal))
        t0 = time.time()
        r = s.check()
        ob.ms = (time.time() - t0) * 1000
        ob.smt_size = len(s.sexpr())
        ob.status = "discharged" if r == z3.unsat else ("refuted" if r == z3.sat else "unknown")
        if r == z3.sat:
            from .engine import model_to_dict

            ob.model = model_to_dict(s.model())
        tr.obligations.append(ob.to_dict())
    # canaries (vacuity / sensitivity): the same lemmas stated for a matching step that ignores the exponent
    # of the re-expressed entry must be refutable
    from contracts.arith import arith_lemma_canaries

    for name, hyp, goal in arith_lemma_canaries():
        s2 = z3.Solver()
        s2.set("timeout", 20000)
        for h in hyp:
            s2.add(h)
        s2.add(z3.Not(goal))
        r2 = s2.check()
        tr.extra.setdefault("canaries", []).append({"name": name, "expected": "sat", "got": str(r2)})
        if r2 != z3.sat:
            tr.error = "canary failed: %s is provable (vacuous encoding?)" % name
    return tr


@task("table_c06")
def t_table_c06(tier, chunk=0, nchunks=1):
    """C06: per decomposable row of the POSC filler, factor x c_T == product of the component factors
    (x prefix), and per SI-prefixed atomic row, factor == 10^n x factor of the unprefixed unit; exact
    rational arithmetic on the literal texts read from the real AST; cross-check of the literals against
    the closures the real code builds."""
    from . import c06
    from .values import SNum
    from .engine import Path, PyRaise
    from .interp import Interp
    from fractions import Fraction

    tr = TaskResult("table_c06:%d/%d" % (chunk, nchunks))
    obs, stats, rows = c06.obligations()
    for name, ok, detail, info in obs[chunk::nchunks]:
        tr.obligations.append(_ground(name, ("C06",), ok, detail, {"probe": "c06_row", "hint": info}))
    # tie the literal texts to the running code: slope of the real to-base closure == b/c
    T = table_or_obligation(tr, "posc", chunk, ("C06",))
    nchk = 0
    if T is not None:
        I = Interp(Path([], {}), get_repo())
        I.P.ghost["singletons"] = {"UnitDatabase": T.db}
        for u, r in list(rows.items())[chunk::nchunks]:
            f = c06.factor(r)
            row = T.units.get(u)
            if f is None or row is None:
                continue
            try:
                vals = [I.call(row.tb, [SNum(x)]) for x in (0, 1)]
                ok = all(isinstance(v, SNum) and v.concrete() is not None for v in vals)
            except PyRaise:
                ok = False
            if ok:
                slope = Fraction(vals[1].concrete()) - Fraction(vals[0].concrete())
                ok = abs(slope - f[0]) <= abs(f[0]) * Fraction(1, 10**12)  # literals are binary64 at run time
            nchk += 1
            if not ok:
                tr.obligations.append(_ground("posc/row[%s]/literal-matches-closure" % u, ("C06",), False, "slope of the real closure differs from the literal b/c read from the AST"))
        tr.obligations.append(_ground("posc/literals-match-closures[%d/%d]" % (chunk, nchunks), ("C06",), True, "%d rows: slope of the executed to-base closure equals the literal b/c" % nchk))
    if chunk == 0:
        stats["literal_cross_checks"] = "every row with a factor, by chunk"
        tr.extra["c06"] = stats
        fi = get_repo().func("barril.units.posc:FillUnitDatabaseWithPosc")
        tr.functions.append({"function": fi.fq, "file": fi.module.path, "lines": list(fi.span()), "sha256": fi.sha256(), "level": "proof", "role": "coefficient literals of every row read from the real AST; %d compound rows and %d SI-prefixed rows decided in exact rational arithmetic" % (stats["decomposable"], stats["prefix"])})
    return tr


@task("bounded_native")
def t_bounded_native(tier, probe, props, bound, what):
    """BOUNDED stand-in: exhaustive native enumeration inside a stated bound.  Reported under
    'bounded' in the evidence and never counted among the proved obligations; a failing input found
    here is a violation (the input itself is the replay)."""
    from .report import run_probe

    tr = TaskResult("bounded_native:" + probe)
    res = run_probe(probe, {"tier": tier}, timeout=900)
    entry = {"stand_in": "native enumeration by probe %s" % probe, "what": what, "bound": bound, "evaluations": res.get("evaluations"), "findings": 0, "props": list(props)}
    if res.get("reproduced"):
        entry["findings"] = 1
        entry["violation"] = {"name": "bounded[%s]" % probe, "props": list(props), "status": "refuted", "kind": "bounded", "detail": "found_by=bounded: %s observed %r expected %r" % (res.get("call"), res.get("observed"), res.get("expected")), "replay": {"probe": probe, "hint": {}}, "ms": 0.0, "backend": "native", "model": None, "smt_size": 0}
    elif res.get("error"):
        tr.error = "bounded stand-in %s crashed: %s" % (probe, str(res.get("error"))[-400:])
    tr.bounded.append(entry)
    return tr


# ------------------------------------------------------------------------------------------------
# C15, ground half: every read-only query of UnitDatabase, executed from its real AST on the registry
# a shipped filler builds, leaves that registry as it was and answers the same when asked again.
def _registry_snapshot(db):
    """canonical, identity-aware picture of what the registry holds (memo tables excluded)"""
    from .values import SStr, SNum, SBool, SNone, SRef, HList, HDict, HSet, HObj, STuple

    def c(v, depth=0):
        if v is SNone:
            return None
        if isinstance(v, SStr):
            return v.py if v.py is not None else repr(v)
        if isinstance(v, SNum):
            return v.concrete()
        if isinstance(v, SBool):
            return v.concrete()
        if isinstance(v, STuple):
            return tuple(c(x, depth + 1) for x in v.items)
        if isinstance(v, SRef):
            o = v.o
            if isinstance(o, HList):
                return ("list", o.oid, tuple(c(x, depth + 1) for x in o.items))
            if isinstance(o, HSet):
                return ("set", o.oid, tuple(sorted(repr(c(x, depth + 1)) for x in o.items)))
            if isinstance(o, HDict):
                return ("dict", o.oid, tuple((c(k, depth + 1), c(x, depth + 1)) for k, x in o.entries))
            if isinstance(o, HObj):
                if depth > 3:
                    return ("obj", o.oid)
                name = getattr(o.cls, "name", "?")
                if name in ("UnitInfo", "CategoryInfo"):
                    return ("obj", name, o.oid, tuple((k, c(x, depth + 1)) for k, x in sorted(o.fields.items()) if not k.startswith("_")))
                return ("obj", name, o.oid)
        return repr(type(v).__name__)

    f = db.o.fields
    return tuple((k, c(f[k])) for k in ("quantity_types", "unit_to_unit_info", "categories_to_quantity_types"))


def _canon_result(I, v):
    from .values import SStr, SNum, SBool, SNone, SRef, HList, HDict, HSet, HObj, STuple

    if v is SNone:
        return None
    if isinstance(v, SStr):
        return v.py if v.py is not None else repr(v)
    if isinstance(v, (SNum, SBool)):
        return v.concrete()
    if isinstance(v, STuple):
        return tuple(_canon_result(I, x) for x in v.items)
    if isinstance(v, SRef):
        o = v.o
        if isinstance(o, HList):
            return [_canon_result(I, x) for x in o.items]
        if isinstance(o, HSet):
            return sorted(repr(_canon_result(I, x)) for x in o.items)
        if isinstance(o, HDict):
            return [(_canon_result(I, k), _canon_result(I, x)) for k, x in o.entries]
        if isinstance(o, HObj):
            return ("obj", getattr(o.cls, "name", "?"), o.oid)
    try:
        return [_canon_result(I, x) for x in I.iterate(v)]
    except Exception:
        return repr(type(v).__name__)


def _query_list(T):
    """(label, method, args) over names taken from the registry itself plus names it does not have"""
    qts = list(T.qts)
    cats = list(T.cats)
    q0 = "length" if "length" in T.qts else qts[0]
    q1 = "time" if "time" in T.qts else qts[-1]
    u0 = T.qts[q0][0].unit
    u1 = T.qts[q0][-1].unit
    w0 = T.qts[q1][0].unit
    c0 = next((c for c in cats if T.cats[c].qt == q0 and T.cats[c].valid_units), cats[0] if cats else q0)
    c1 = next((c for c in cats if T.cats[c].qt == q0 and not T.cats[c].valid_units), c0)
    out = [("GetUnits()", "GetUnits", []), ("GetInfos()", "GetInfos", []), ("GetQuantityTypes()", "GetQuantityTypes", []), ("IterCategories()", "IterCategories", [])]
    for q in (q0, q1, "no such type"):
        for m in ("GetUnits", "GetInfos", "GetUnitNames", "GetBaseUnit", "CheckQuantityType"):
            out.append(("%s(%r)" % (m, q), m, [q]))
    for c in dict.fromkeys((c0, c1, "no such category")):
        for m in ("GetCategoryInfo", "GetCategoryQuantityType", "IsValidCategory", "GetValidUnits", "GetDefaultValue", "GetDefaultUnit"):
            out.append(("%s(%r)" % (m, c), m, [c]))
    for u in (u0, u1, w0, "no such unit"):
        for m in ("GetQuantityType", "GetDefaultCategory", "FindUnitCase"):
            out.append(("%s(%r)" % (m, u), m, [u]))
    for q, u in ((q0, u0), (q0, u1), (q0, w0), (c0, u1), ("no such type", u0)):
        for m in ("GetInfo", "GetUnitName", "CheckQuantityTypeUnit", "CheckCategoryUnit"):
            out.append(("%s(%r, %r)" % (m, q, u), m, [q, u]))
    for a in ((q0, u0, u1, 2.5), (c0, u1, u0, 2.5), (q0, u0, w0, 1.0), (q0, [(u0, 2)], [(u1, 2)], 3.0)):
        out.append(("Convert%r" % (a,), "Convert", list(a)))
    return out


@task("table_c15_queries")
def t_table_c15_queries(tier, filler):
    from .table import get_table, explore_fn, _tables
    from .values import SStr, SNum, STuple, SRef, HList
    from .engine import OutOfSubset

    tr = TaskResult("table_c15_queries:%s" % filler)
    T = table_or_obligation(tr, filler, 0, ("C15",))
    if T is None:
        return tr
    PR = ("C15",)
    add = tr.obligations.append

    def sv(I, x):
        if isinstance(x, str):
            return SStr(x)
        if isinstance(x, (int, float)):
            return SNum(x)
        if isinstance(x, list):
            return SRef(I.P.alloc(HList([sv(I, y) for y in x])))
        if isinstance(x, tuple):
            return STuple([sv(I, y) for y in x])
        raise ValueError(x)

    rebuilt = 0
    skipped = []
    for label, meth, args in _query_list(T):
        base = _registry_snapshot(T.db)
        answers = []
        status = None
        for rep in range(2):
            def run(I, P):
                r = I.call(I.getattr(T.db, meth), [sv(I, a) for a in args], {})
                return _canon_result(I, r)

            try:
                res, _ = explore_fn(T, run)
            except OutOfSubset as e:
                status = "oos: %s" % e
                break
            if len(res) != 1 or res[0].outcome[0] == "oos":
                status = "oos: %s" % (res[0].outcome[1] if res else "no path")
                break
            oc = res[0].outcome
            answers.append(("raise", oc[1].o.clsname()) if oc[0] == "raise" else ("return", oc[1]))
        if status is not None:
            skipped.append("%s (%s)" % (label, status[:80]))
            # even when the call leaves the subset half-way, what it did to the registry so far is visible
        after = _registry_snapshot(T.db)
        same = after == base
        rp = {"probe": "pure_queries", "hint": {"filler": filler, "method": meth, "args": args}}
        add(_ground("queries[%s]/%s/registry-unchanged" % (filler, label), PR, same, "" if same else "the registry's units / categories differ after the call", rp))
        if len(answers) == 2:
            add(_ground("queries[%s]/%s/same-answer-when-repeated" % (filler, label), PR, answers[0] == answers[1], "" if answers[0] == answers[1] else "first %r, then %r" % (str(answers[0])[:200], str(answers[1])[:200]), rp))
        if not same:
            if rebuilt >= 2:
                tr.notes.append("stopped after %d queries that changed the registry" % (rebuilt + 1))
                break
            rebuilt += 1
            _tables.pop(filler, None)
            T = get_table(filler)
    if skipped:
        tr.notes.append("queries outside the interpreter's subset (not decided here): " + "; ".join(skipped))
    tr.functions.append({"function": "barril.units.unit_database:UnitDatabase (read-only queries, ground on the %s registry)" % filler, "level": "proof", "role": "real AST executed on the concrete registry the filler builds; %d queries" % len(_query_list(T))})
    return tr
