"""Standard task kinds: verify a function contract, table rows, spec-level lemmas."""
import time
import z3

from .tasks import task, TaskResult
from .engine import Obligation, app, FnS, RealS
from .extract import get_repo


def load_contracts():
    import contracts  # noqa

    contracts.load_all()


@task("verify")
def t_verify(tier, fq, replay=None):
    from .contract import verify, REGISTRY

    load_contracts()
    spec = REGISTRY[fq]
    r = verify(spec, tier)
    tr = TaskResult("verify:" + fq)
    for ob in r.obligations:
        d = ob.to_dict()
        rp = spec.replay_hint(ob) if hasattr(spec, "replay_hint") else None
        if rp and ob.status == "refuted":
            d["replay"] = rp
        tr.obligations.append(d)
    tr.functions.append(r.meta())
    # vacuity: every case of the contract must be reachable
    return tr


@task("table_c01")
def t_table_c01(tier, filler, chunk, nchunks):
    from .table import get_table, row_obligations_c01

    tr = TaskResult("table_c01:%s:%d/%d" % (filler, chunk, nchunks))
    T = get_table(filler)
    rows = list(T.units.values())
    part = rows[chunk::nchunks]
    for row in part:
        for ob in row_obligations_c01(T, row):
            d = ob.to_dict()
            if ob.status == "refuted":
                which = ob.name.rsplit("/", 1)[1]
                hint = {"filler": filler, "unit": row.unit, "which": which}
                if ob.model:
                    hint.update({k: v for k, v in ob.model.items() if k in ("x", "y")})
                d["replay"] = {"probe": "c01_row", "hint": hint}
            tr.obligations.append(d)
    if chunk == 0:
        tr.extra["table"] = {"filler": filler, "units": len(T.units), "quantity_types": len(T.qts), "categories": len(T.cats), "build_s": round(T.build_s, 2)}
        fns = sorted(T.calls)
        repo = get_repo()
        for fq in fns:
            try:
                fi = repo.func(fq)
            except Exception:
                continue
            tr.functions.append({"function": fq, "file": fi.module.path, "lines": list(fi.span()), "sha256": fi.sha256(), "level": "proof", "role": "real AST executed on the literal table (%d calls)" % T.calls[fq]})
    return tr


@task("lemma_c01_compose")
def t_lemma_c01(tier):
    """From Inv1/Inv2/Mono of each unit (the row obligations, ∀x∈ℝ) and Convert's float clause
    (result = app(fb_v, app(tb_u, x))): round trip, path independence, strict monotonicity of every
    conversion inside a quantity type.  Units are arbitrary (uninterpreted Fn constants)."""
    tr = TaskResult("lemma_c01_compose")
    x, y = z3.Reals("x y")
    fs = {}
    ax = []
    for u in "uvw":
        tb = z3.Const("tb_" + u, FnS)
        fb = z3.Const("fb_" + u, FnS)
        fs[u] = (tb, fb)
        ax.append(z3.ForAll([x], app(fb, app(tb, x)) == x))
        ax.append(z3.ForAll([x], app(tb, app(fb, x)) == x))
        ax.append(z3.ForAll([x, y], z3.Implies(x < y, app(tb, x) < app(tb, y))))
        ax.append(z3.ForAll([x, y], z3.Implies(x < y, app(fb, x) < app(fb, y))))

    def conv(a, b, t):
        return app(fs[b][1], app(fs[a][0], t))

    goals = {
        "round-trip": conv("v", "u", conv("u", "v", x)) == x,
        "path-independence": conv("v", "w", conv("u", "v", x)) == conv("u", "w", x),
        "monotone": z3.Implies(x < y, conv("u", "v", x) < conv("u", "v", y)),
        "never-reorders": z3.Implies(conv("u", "v", x) < conv("u", "v", y), x < y),
    }
    for name, g in goals.items():
        ob = Obligation("lemma[C01.compose/%s]" % name, ("C01", "C08"), "lemma")
        s = z3.Solver()
        s.set("timeout", 20000)
        s.add(*ax)
        s.add(z3.Not(g))
        t0 = time.time()
        r = s.check()
        ob.ms = (time.time() - t0) * 1000
        ob.smt_size = len(s.sexpr())
        ob.status = "discharged" if r == z3.unsat else ("refuted" if r == z3.sat else "unknown")
        tr.obligations.append(ob.to_dict())
    return tr
