"""Sequences of unknown length (list / tuple / numpy.ndarray / generator of floats):
(len : Int, elems : Int → Real).  Pure maps over them (comprehensions, generator expressions,
elementwise ndarray arithmetic, application of a conversion function) are exact for every length:
the body is evaluated once on the element at a generic index and abstracted with a lambda."""
import ast
import z3

from .engine import OutOfSubset, PyRaise, app, IntS, RealS, is_true, is_false
from .values import *
from .interp import SProto, Frame, to_z3b

_tok = [0]


class SymSeq(SProto):
    def __init__(self, kind, n, elems, region="fresh", extended=None):
        self.kind = kind  # list | tuple | numpy.ndarray | iterator
        self.n = n
        self.elems = elems
        _tok[0] += 1
        self.token = _tok[0]
        self.region = region
        self.pos = None  # for iterators: consumed prefix (not modelled)
        self.extended = extended  # optional (nan, pinf, ninf) arrays for C12

    def pytype(self):
        return self.kind

    def at(self, i):
        e = z3.Select(self.elems, i)
        if self.extended is not None:
            nan, pinf, ninf = self.extended
            return SNum(e, "float", z3.Select(nan, i), z3.Select(pinf, i), z3.Select(ninf, i))
        return SNum(e, "npfloat" if self.kind == "numpy.ndarray" else "float")

    def py_is(self, I, other):
        return isinstance(other, SymSeq) and other.token == self.token

    def same_as(self, I, other):
        return self.py_is(I, other)

    def py_len(self, I):
        if self.kind == "iterator":
            I.raise_("TypeError", "object of type 'generator' has no len()")
        return SNum(self.n, "int")

    def py_truth(self, I):
        if self.kind == "numpy.ndarray":
            raise OutOfSubset("truth value of an ndarray")
        if self.kind == "iterator":
            return True
        return self.n > 0

    def py_getitem(self, I, k):
        if self.kind == "iterator":
            I.raise_("TypeError", "'generator' object is not subscriptable")
        if isinstance(k, tuple):
            return self.slice(I, k[1], k[2])
        if not isinstance(k, SNum):
            I.raise_("TypeError", "indices must be integers")
        i = k.t
        if I.P.branch(z3.And(i >= 0, i < self.n)):
            return self.at(i)
        if I.P.branch(z3.And(i < 0, i >= -self.n)):
            return self.at(self.n + i)
        I.raise_("IndexError", "index out of range")

    def slice(self, I, lo, hi):
        """seq[lo:hi] (no step) with Python's clamping of the bounds: a new sequence of the same kind"""
        if self.extended is not None:
            raise OutOfSubset("slice of a sequence with non-finite elements")
        n = self.n

        def bound(b, default):
            if b is None or b is SNone:
                return default
            if isinstance(b, SBool):
                b = I.bool_to_num(b)
            if not (isinstance(b, SNum) and b.is_int):
                I.raise_("TypeError", "slice indices must be integers or None")
            t = b.t
            if isinstance(t, int):
                t = z3.IntVal(t)
            neg = z3.If(t + n < 0, z3.IntVal(0), t + n)
            return z3.If(t < 0, neg, z3.If(t > n, n, t))

        zero = z3.IntVal(0)
        a = bound(lo, zero)
        b = bound(hi, n if z3.is_expr(n) else z3.IntVal(n))
        ln = z3.If(b - a < 0, zero, b - a)
        j = z3.Int("j!slice%d" % (_tok[0] + 1))
        return SymSeq(self.kind, z3.simplify(ln), z3.Lambda([j], z3.Select(self.elems, j + a)))

    def concat(self, I, other, reflected):
        """self + other for lists / tuples (a new sequence); other: SymSeq of the same kind or a concrete
        tuple / list of numbers"""
        if isinstance(other, SymSeq):
            if other.kind != self.kind:
                I.raise_("TypeError", "can only concatenate %s to %s" % (self.kind, self.kind))
            on, oel = other.n, other.elems
            if other.extended is not None:
                raise OutOfSubset("concatenation of sequences with non-finite elements")
        else:
            if isinstance(other, STuple):
                okind, items = "tuple", other.items
            elif isinstance(other, SRef) and isinstance(other.o, HList):
                okind, items = "list", other.o.items
            else:
                return NotImplemented
            if okind != self.kind:
                I.raise_("TypeError", "can only concatenate %s to %s" % (self.kind, self.kind))
            if not all(isinstance(x, SNum) and not x.extended for x in items):
                raise OutOfSubset("concatenation of a symbolic sequence with non-numbers")
            on = z3.IntVal(len(items))
            oel = z3.K(IntS, z3.RealVal(0))
            for idx, x in enumerate(items):
                oel = z3.Store(oel, idx, x.real())
        if self.extended is not None:
            raise OutOfSubset("concatenation of sequences with non-finite elements")
        (an, ael), (bn, bel) = ((on, oel), (self.n, self.elems)) if reflected else ((self.n, self.elems), (on, oel))
        j = z3.Int("j!cat%d" % (_tok[0] + 1))
        return SymSeq(self.kind, z3.simplify(an + bn), z3.Lambda([j], z3.If(j < an, z3.Select(ael, j), z3.Select(bel, j - an))))

    def py_setitem(self, I, k, v):
        if self.kind == "tuple":
            I.raise_("TypeError", "'tuple' object does not support item assignment")
        I.P.log_write(self, ("item", "setitem"))
        if not (isinstance(k, SNum) and isinstance(v, SNum) and not v.extended):
            raise OutOfSubset("write of a non-number / with a non-integer index into a symbolic sequence")
        i = k.t
        if I.P.branch(z3.And(i >= 0, i < self.n)):
            self.elems = z3.Store(self.elems, i, v.real())
            return
        if I.P.branch(z3.And(i < 0, i >= -self.n)):
            self.elems = z3.Store(self.elems, self.n + i, v.real())
            return
        I.raise_("IndexError", "list assignment index out of range")

    def py_eq(self, I, other):
        if isinstance(other, SymSeq) and other.kind == self.kind and self.kind in ("list", "tuple"):
            j = I.P.fresh("j", IntS)
            # equality of sequences: same length and equal everywhere (quantified; used in specs only)
            return z3.And(
                self.n == other.n,
                z3.ForAll([j], z3.Implies(z3.And(j >= 0, j < self.n), z3.Select(self.elems, j) == z3.Select(other.elems, j))),
            )
        if isinstance(other, SymSeq) and self.kind != other.kind and self.kind in ("list", "tuple") and other.kind in ("list", "tuple"):
            return False
        return NotImplemented

    def map_term(self, I, fn, kind=None):
        """new sequence whose element i is fn(element i) (fn: z3 term -> z3 term)"""
        i = z3.Int("i!map%d" % (_tok[0] + 1))
        body = fn(z3.Select(self.elems, i))
        return SymSeq(kind or self.kind, self.n, z3.Lambda([i], body))

    def map_fn(self, I, f):
        """application of an abstract conversion function: elementwise on ndarrays (assumption A5);
        on lists/tuples Python would raise TypeError inside the arithmetic formula"""
        if self.kind == "numpy.ndarray":
            return self.map_term(I, lambda e: app(f.t, e))
        I.raise_("TypeError", "unsupported operand type(s) in conversion function")

    def py_binop(self, I, op, other, reflected):
        if self.kind != "numpy.ndarray":
            if self.kind in ("list", "tuple") and isinstance(op, ast.Add):
                return self.concat(I, other, reflected)
            return NotImplemented
        if isinstance(op, (ast.USub,)):
            return self.map_term(I, lambda e: -e)
        if isinstance(other, SBool):
            other = I.bool_to_num(other)
        if isinstance(other, SNum):
            if other.extended:
                raise OutOfSubset("ndarray op extended float")
            o = other.real()

            def f(e):
                a, b = (o, e) if reflected else (e, o)
                return _arith(op, a, b)

            if isinstance(op, (ast.Div, ast.FloorDiv, ast.Mod)):
                # numpy does not raise on division by zero (inf/nan); outside the real model
                if not reflected:
                    if I.P.branch(o == 0):
                        raise OutOfSubset("ndarray division by zero (numpy yields inf/nan)")
                else:
                    raise OutOfSubset("number / ndarray (zero elements yield inf)")
            return self.map_term(I, f)
        if isinstance(other, SymSeq) and other.kind == "numpy.ndarray":
            if isinstance(op, (ast.Div, ast.FloorDiv, ast.Mod)):
                raise OutOfSubset("ndarray / ndarray (zero elements yield inf)")
            # numpy broadcasting of 1-d operands: equal lengths, or one operand of length 1 (repeated);
            # anything else raises ValueError
            i = z3.Int("i!zip%d" % (_tok[0] + 1))
            if I.P.branch(self.n == other.n):
                a, b, n = z3.Select(self.elems, i), z3.Select(other.elems, i), self.n
            elif I.P.branch(other.n == 1):
                a, b, n = z3.Select(self.elems, i), z3.Select(other.elems, 0), self.n
            elif I.P.branch(self.n == 1):
                a, b, n = z3.Select(self.elems, 0), z3.Select(other.elems, i), other.n
            else:
                I.raise_("ValueError", "operands could not be broadcast together")
            if reflected:
                a, b = b, a
            return SymSeq("numpy.ndarray", n, z3.Lambda([i], _arith(op, a, b)))
        return NotImplemented

    def py_array_compare(self, I, op, other, reflected):
        """ndarray OP other for a comparison operator: a boolean ndarray (elements 1.0 / 0.0), numpy
        broadcasting of 1-d operands (equal lengths or length 1; anything else raises ValueError, numpy >= 1.25)"""
        if self.kind != "numpy.ndarray":
            return NotImplemented
        if self.extended is not None:
            raise OutOfSubset("comparison of an ndarray with non-finite elements")
        flip = {ast.Lt: ast.Gt, ast.Gt: ast.Lt, ast.LtE: ast.GtE, ast.GtE: ast.LtE}
        opt = type(op)
        if reflected and opt in flip:
            opt = flip[opt]

        def cmp(x, y):
            c = {ast.Eq: x == y, ast.NotEq: x != y, ast.Lt: x < y, ast.LtE: x <= y, ast.Gt: x > y, ast.GtE: x >= y}[opt]
            return z3.If(c, z3.RealVal(1), z3.RealVal(0))

        i = z3.Int("i!cmp%d" % (_tok[0] + 1))
        if isinstance(other, SBool):
            other = I.bool_to_num(other)
        if isinstance(other, SNum):
            if other.extended:
                raise OutOfSubset("ndarray compared with a non-finite number")
            return SymSeq("numpy.ndarray", self.n, z3.Lambda([i], cmp(z3.Select(self.elems, i), other.real())))
        if isinstance(other, SymSeq) and other.kind in ("numpy.ndarray", "list", "tuple"):
            if other.extended is not None:
                raise OutOfSubset("comparison of an ndarray with non-finite elements")
            if I.P.branch(self.n == other.n):
                a, b, n = z3.Select(self.elems, i), z3.Select(other.elems, i), self.n
            elif I.P.branch(other.n == 1):
                a, b, n = z3.Select(self.elems, i), z3.Select(other.elems, 0), self.n
            elif I.P.branch(self.n == 1):
                a, b, n = z3.Select(self.elems, 0), z3.Select(other.elems, i), other.n
            else:
                I.raise_("ValueError", "operands could not be broadcast together")
            return SymSeq("numpy.ndarray", n, z3.Lambda([i], cmp(a, b)))
        if other is SNone or isinstance(other, SStr):
            if opt in (ast.Eq, ast.NotEq):
                # numpy compares elementwise against the object: nothing equals None / a string
                val = z3.RealVal(0) if opt is ast.Eq else z3.RealVal(1)
                return SymSeq("numpy.ndarray", self.n, z3.K(IntS, val))
            I.raise_("TypeError", "'<' not supported between ndarray and this object")
        raise OutOfSubset("ndarray compared with %r" % (other,))

    def py_ibinop(self, I, op, other):
        """x OP= other: numpy arrays and lists are updated in place (the caller's object changes: a logged
        write); tuples are immutable and take the ordinary binary operation"""
        if self.kind == "numpy.ndarray":
            r = self.py_binop(I, op, other, False)
            if r is NotImplemented or not isinstance(r, SymSeq):
                return r
            I.P.log_write(self, ("item", "inplace-op"))
            self.elems, self.n = r.elems, r.n
            return self
        if self.kind == "list" and isinstance(op, ast.Add):
            r = self.concat(I, other, False)
            if r is NotImplemented:
                return r
            I.P.log_write(self, ("item", "inplace-extend"))
            self.elems, self.n = r.elems, r.n
            return self
        return NotImplemented

    def py_iter(self, I):
        raise OutOfSubset("iteration over a sequence of unknown length without a loop rule")

    def make_iter(self, I):
        return SymIter(self)

    def py_getattr(self, I, name):
        if name == "__class__":
            return SType(self.kind)
        if self.kind == "numpy.ndarray" and name in ("all", "any"):
            j = z3.Int("j!%s%d" % (name, _tok[0] + 1))
            inside = z3.And(j >= 0, j < self.n)
            nz = z3.Select(self.elems, j) != 0
            t = z3.ForAll([j], z3.Implies(inside, nz)) if name == "all" else z3.Exists([j], z3.And(inside, nz))
            return SBuiltin("ndarray." + name, lambda I_, a, k: SBool(t))
        raise OutOfSubset("%s.%s on a symbolic sequence" % (self.kind, name))

    def py_copy(self, I, deep):
        return SymSeq(self.kind, self.n, self.elems)

    def __repr__(self):
        return "SymSeq(%s#%d)" % (self.kind, self.token)


class SymIter(SProto):
    """iter(seq): an iterator over a sequence of unknown length with a symbolic position"""

    def __init__(self, seq):
        self.seq = seq
        self.pos = z3.IntVal(0)

    def pytype(self):
        return "iterator"

    def make_iter(self, I):
        return self

    def py_truth(self, I):
        return True

    def py_iter(self, I):
        raise OutOfSubset("iteration over an iterator of unknown length without a loop invariant")


def _arith(op, a, b):
    if isinstance(op, ast.Add):
        return a + b
    if isinstance(op, ast.Sub):
        return a - b
    if isinstance(op, ast.Mult):
        return a * b
    if isinstance(op, ast.Div):
        return a / b
    if isinstance(op, ast.FloorDiv):
        return z3.ToReal(z3.ToInt(a / b))
    raise OutOfSubset("ndarray operator %s" % type(op).__name__)


def fresh_seq(P, kind, base="vals"):
    n = P.fresh(base + "_len", IntS)
    P.assume(n >= 0, "len>=0")
    e = P.fresh(base, z3.ArraySort(IntS, RealS))
    return SymSeq(kind, n, e, region="param")


# ------------------------------------------------------------------------------------------------
# hooks


def comp_hook(I, n, frame):
    """[elt for x in S] / (elt for x in S) with S symbolic, one generator, no conditions"""
    if len(n.generators) != 1:
        return NotImplemented
    g = n.generators[0]
    it = I.eval(g.iter, frame)
    if hasattr(it, "comp_view"):
        return it.comp_view(I, n, frame)
    if not isinstance(it, SymSeq):
        # evaluate normally, but do not evaluate the iterable twice
        return _plain_comp(I, n, frame, it)
    if g.ifs or not isinstance(g.target, ast.Name):
        raise OutOfSubset("filtered comprehension over a symbolic sequence")
    cf = Frame(frame.module, outer=frame, fi=frame.fi, locals_set=frozenset())
    i = z3.Int("i!comp%d" % (_tok[0] + 1))
    cf.vars[g.target.id] = it.at(i)
    ndec = len(I.P.decisions)
    try:
        v = I.eval(n.elt, cf)
    except PyRaise:
        raise OutOfSubset("comprehension body raises on the generic element (line %d)" % n.lineno)
    if len(I.P.decisions) != ndec:
        raise OutOfSubset("comprehension body forks on the generic element (line %d)" % n.lineno)
    if not isinstance(v, SNum) or v.extended:
        raise OutOfSubset("comprehension over a symbolic sequence yields non-numbers")
    kind = "list" if isinstance(n, ast.ListComp) else "iterator"
    return SymSeq(kind, it.n, z3.Lambda([i], v.real()))


def _plain_comp(I, n, frame, first_iter):
    from .interp import Frame as Fr

    out = []
    cf = Fr(frame.module, outer=frame, fi=frame.fi, locals_set=frozenset())

    def rec(k):
        if k == len(n.generators):
            out.append(I.eval(n.elt, cf))
            return
        g = n.generators[k]
        it = first_iter if k == 0 else I.eval(g.iter, cf)
        for x in I.iterate_lazy(it):
            I.assign(g.target, x, cf)
            if all(I.is_truthy(I.eval(c, cf)) for c in g.ifs):
                rec(k + 1)

    rec(0)
    if isinstance(n, ast.ListComp):
        return SRef(I.P.alloc(HList(out)))
    return SRef(I.P.alloc(HIter(out)))


class SeqHandler:
    def convert(self, I, v, kind):
        if isinstance(v, SymSeq):
            if v.kind == "numpy.ndarray":
                # list(ndarray)/tuple(ndarray): elements become numpy scalars; values equal
                return SymSeq(kind, v.n, v.elems)
            if kind == "tuple" and v.kind == "tuple":
                return v
            return SymSeq(kind, v.n, v.elems)
        return NotImplemented

    def zip(self, I, a):
        from . import loops

        if any(loops.as_gen(I, x) is not None for x in a):
            return loops.zip_gen(I, a)
        return NotImplemented

    def repeat(self, I, seq, n):
        items = seq.items if isinstance(seq, STuple) else seq.o.items
        if len(items) == 1 and isinstance(items[0], SNum) and not items[0].extended:
            cnt = z3.If(n.t >= 0, n.t, z3.IntVal(0))
            return SymSeq("tuple" if isinstance(seq, STuple) else "list", cnt, z3.K(IntS, items[0].real()))
        return NotImplemented


def install(P):
    P.ghost["comp_hook"] = comp_hook
    P.ghost["symseq"] = SeqHandler()
