"""AST interpreter over symbolic values (one path per run; see engine.Path)."""
import ast
import z3
from fractions import Fraction as _F

from .engine import (
    PyRaise,
    OutOfSubset,
    Infeasible,
    NameS,
    FnS,
    RealS,
    IntS,
    app,
    fixf,
    upow,
    lit,
    is_true,
    is_false,
)
from .values import *
from .extract import FuncInfo, ClassInfo, ModuleInfo, stdlib_total_ordering_bodies


class _Return(Exception):
    def __init__(self, v):
        self.v = v


class _Break(Exception):
    pass


class _Continue(Exception):
    pass


class SProto(SVal):
    """Values with engine-defined behaviour (registry views, symbolic sequences, ndarrays...).
    Methods return NotImplemented (host) when they do not handle a request."""

    pytype_name = "object"

    def pytype(self):
        return self.pytype_name

    def py_getattr(self, I, name):
        return NotImplemented

    def py_setattr(self, I, name, v):
        return NotImplemented

    def py_getitem(self, I, k):
        return NotImplemented

    def py_setitem(self, I, k, v):
        return NotImplemented

    def py_delitem(self, I, k):
        return NotImplemented

    def py_contains(self, I, k):
        return NotImplemented

    def py_len(self, I):
        return NotImplemented

    def py_iter(self, I):
        return NotImplemented

    def py_call(self, I, args, kwargs):
        return NotImplemented

    def py_truth(self, I):
        return NotImplemented

    def py_eq(self, I, other):
        return NotImplemented

    def py_binop(self, I, op, other, reflected):
        return NotImplemented


class STypingForm(SProto):
    """typing.Optional / Dict / ... : only ever subscripted to build annotations or Generic parameters"""

    def pytype(self):
        return "typing"

    def py_getitem(self, I, k):
        return self


TYPING_FORM = STypingForm()


class Frame:
    __slots__ = ("vars", "module", "outer", "fi", "locals_set", "globals_decl", "cls")

    def __init__(self, module, outer=None, fi=None, locals_set=frozenset(), cls=None):
        self.vars = {}
        self.module = module
        self.outer = outer
        self.fi = fi
        self.locals_set = locals_set
        self.globals_decl = set()
        self.cls = cls


_locals_cache = {}


def function_locals(node):
    k = id(node)
    if k in _locals_cache:
        return _locals_cache[k]
    names = set()
    a = node.args
    for x in a.posonlyargs + a.args + a.kwonlyargs:
        names.add(x.arg)
    if a.vararg:
        names.add(a.vararg.arg)
    if a.kwarg:
        names.add(a.kwarg.arg)

    def targets(t):
        if isinstance(t, ast.Name):
            names.add(t.id)
        elif isinstance(t, (ast.Tuple, ast.List)):
            for e in t.elts:
                targets(e)
        elif isinstance(t, ast.Starred):
            targets(t.value)

    def walk(stmts):
        for st in stmts:
            if isinstance(st, (ast.FunctionDef, ast.ClassDef)):
                names.add(st.name)
                continue
            if isinstance(st, ast.Assign):
                for t in st.targets:
                    targets(t)
            elif isinstance(st, (ast.AugAssign, ast.AnnAssign)):
                if isinstance(st, ast.AnnAssign) and st.value is None:
                    pass
                else:
                    targets(st.target)
            elif isinstance(st, ast.For):
                targets(st.target)
            elif isinstance(st, (ast.Import, ast.ImportFrom)):
                for al in st.names:
                    names.add((al.asname or al.name).split(".")[0])
            elif isinstance(st, ast.With):
                for it in st.items:
                    if it.optional_vars is not None:
                        targets(it.optional_vars)
            elif isinstance(st, ast.Try):
                for h in st.handlers:
                    if h.name:
                        names.add(h.name)
            # named expressions are not used in barril
            for fld in ("body", "orelse", "finalbody"):
                sub = getattr(st, fld, None)
                if isinstance(sub, list) and sub and isinstance(sub[0], ast.stmt):
                    walk(sub)
            if isinstance(st, ast.Try):
                for h in st.handlers:
                    walk(h.body)

    body = node.body if isinstance(node.body, list) else []
    walk(body)
    gl = set()
    for st in ast.walk(node):
        if isinstance(st, ast.Global):
            gl.update(st.names)
    names -= gl
    _locals_cache[k] = frozenset(names)
    return _locals_cache[k]


_has_yield_cache = {}
_globals_cache = {}


def has_yield(node):
    k = id(node)
    if k not in _has_yield_cache:
        found = False
        stack = list(node.body)
        while stack:
            n = stack.pop()
            if isinstance(n, (ast.Yield, ast.YieldFrom)):
                found = True
                break
            if isinstance(n, (ast.FunctionDef, ast.Lambda, ast.ClassDef)):
                continue
            stack.extend(ast.iter_child_nodes(n))
        _has_yield_cache[k] = found
    return _has_yield_cache[k]


SEQ_TYPES = ("list", "tuple")


_assigned_cache = {}


def assigned_somewhere(ci, name):
    """does a constructor-time method of the class (or of a repository base class) assign self.<name>?
    (__init__, __new__ and the _InternalCreateWithQuantity family every construction route goes through;
    attributes that are only assigned lazily elsewhere are genuinely absent until then)"""
    key = (id(ci), name)
    if key in _assigned_cache:
        return _assigned_cache[key]
    found = False
    for c in ci.mro():
        if not isinstance(c, ClassInfo):
            continue
        for mname, fi in c.methods.items():
            if mname not in ("__init__", "__new__", "_InternalCreateWithQuantity", "__attrs_post_init__"):
                continue
            for n in ast.walk(fi.node):
                tgt = None
                if isinstance(n, ast.Assign):
                    tgt = n.targets
                elif isinstance(n, (ast.AnnAssign, ast.AugAssign)):
                    tgt = [n.target]
                for t in tgt or []:
                    for x in ast.walk(t):
                        if isinstance(x, ast.Attribute) and x.attr == name and isinstance(x.value, ast.Name) and x.value.id in ("self", "cls"):
                            found = True
    _assigned_cache[key] = found
    return found


def type_is_subtype(tn, target):
    """tn: pytype() result; target: builtin type name"""
    if isinstance(tn, ClassInfo):
        return tn.is_subclass_of(target)
    if isinstance(tn, SLocalClass):
        return target == "object"
    if tn == target or target == "object":
        return True
    chain = {
        "bool": ["int"],
        "numpy.float64": ["float", "numpy.number", "numpy.floating", "numpy.generic", "numpy.inexact"],
        "numpy.int64": ["numpy.number", "numpy.integer", "numpy.generic"],
        "numpy.float32": ["numpy.number", "numpy.floating", "numpy.generic", "numpy.inexact"],
        "OrderedDict": ["dict"],
    }
    if tn in chain and target in chain[tn]:
        return True
    if tn in BUILTIN_EXC and target in exc_ancestors(tn):
        return True
    return False


class Interp:
    MAX_DEPTH = 40

    def __init__(self, path, repo, summaries=None, inline_only=None):
        self.P = path
        self.repo = repo
        self.summaries = summaries or {}
        self.trace_calls = []
        self.called = {}  # fq -> count of inlined executions
        self.summarised = {}  # fq -> count of contract applications
        from . import builtins as B

        self.B = B
        self.builtins = B.BUILTINS
        self.ext = B.EXTERNALS

    # ------------------------------------------------------------------------------------------
    # raising
    def exc(self, clsname, *args):
        return SRef(self.P.alloc(HExc(clsname, list(args))))

    def raise_(self, clsname, *args):
        raise PyRaise(self.exc(clsname, *[a if isinstance(a, SVal) else SStr(str(a)) for a in args]))

    # ------------------------------------------------------------------------------------------
    # truth / equality
    def truth(self, v):
        """z3 Bool or python bool"""
        if isinstance(v, SBool):
            c = v.concrete()
            return v.t if c is None else c
        if v is SNone:
            return False
        if isinstance(v, SNum):
            if v.extended:
                return z3.Or(v.nan, v.pinf, v.ninf, v.t != 0)
            c = v.concrete()
            if c is not None:
                return c != 0
            return v.t != 0
        if isinstance(v, SStr):
            if v.py is not None:
                return len(v.py) > 0
            if v.opaque:
                raise OutOfSubset("truth of opaque string")
            if hasattr(v, "parts"):
                return self.P.ghost["strmodel"].truth(self, v)
            return v.name != lit("")
        if isinstance(v, STuple):
            return len(v.items) > 0
        if isinstance(v, SRef):
            o = v.o
            if isinstance(o, (HList, HSet)):
                return len(o.items) > 0
            if isinstance(o, HDict):
                return len(o.entries) > 0
            if isinstance(o, HObj) and isinstance(o.cls, ClassInfo):
                m = o.cls.find_method("__bool__")
                if m is not None:
                    return self.truth(self.call_function(SFunc(m), [v], {}))
                m = o.cls.find_method("__len__")
                if m is not None:
                    n = self.call_function(SFunc(m), [v], {})
                    return self.truth(n)
            return True
        if isinstance(v, SProto):
            r = v.py_truth(self)
            if r is NotImplemented:
                r2 = v.py_len(self)
                if r2 is NotImplemented:
                    return True
                return self.truth(r2)
            return r
        if isinstance(v, (SFunc, SBound, SBuiltin, SType, SClass, SFn, SModule, SLocalClass)):
            return True
        if v is SNotImplemented:
            return True
        raise OutOfSubset("truth of %r" % (v,))

    def is_truthy(self, v):
        return self.P.branch(self.truth(v))

    def identical(self, a, b):
        """`a is b` as z3 Bool / python bool"""
        if a is SNone or b is SNone:
            return a is b
        if isinstance(a, SRef) and isinstance(b, SRef):
            return a.o is b.o
        if isinstance(a, SProto) or isinstance(b, SProto):
            if isinstance(a, SProto):
                r = a.py_is(self, b) if hasattr(a, "py_is") else NotImplemented
            else:
                r = b.py_is(self, a) if hasattr(b, "py_is") else NotImplemented
            if r is NotImplemented:
                return a is b
            return r
        if isinstance(a, SType) and isinstance(b, SType):
            return a.name == b.name
        if isinstance(a, SClass) and isinstance(b, SClass):
            return a.ci is b.ci
        if isinstance(a, SBool) and isinstance(b, SBool):
            return a.t == b.t
        if isinstance(a, SFn) and isinstance(b, SFn):
            return a.t == b.t
        if isinstance(a, SFunc) and isinstance(b, SFunc):
            return a is b
        if isinstance(a, SStr) and isinstance(b, SStr):
            # identity of strings is not used meaningfully by barril; treat as equality of content
            return self.equal(a, b)
        if type(a) is not type(b):
            return False
        if isinstance(a, SNum):
            raise OutOfSubset("`is` between numbers")
        return a is b

    def equal(self, a, b, depth=0):
        """`a == b` as z3 Bool / python bool (Python semantics incl. __eq__ dispatch)"""
        if isinstance(a, SProto):
            r = a.py_eq(self, b)
            if r is not NotImplemented:
                return r
        if isinstance(b, SProto):
            r = b.py_eq(self, a)
            if r is not NotImplemented:
                return r
        if isinstance(a, SNum) and isinstance(b, SNum):
            return self.num_cmp(ast.Eq(), a, b)
        if isinstance(a, SNum) and isinstance(b, SBool):
            return self.num_cmp(ast.Eq(), a, self.bool_to_num(b))
        if isinstance(a, SBool) and isinstance(b, SNum):
            return self.num_cmp(ast.Eq(), self.bool_to_num(a), b)
        if isinstance(a, SBool) and isinstance(b, SBool):
            ca, cb = a.concrete(), b.concrete()
            if ca is not None and cb is not None:
                return ca == cb
            return a.t == b.t
        if isinstance(a, SStr) and isinstance(b, SStr):
            if a.py is not None and b.py is not None:
                return a.py == b.py
            if a.opaque or b.opaque:
                raise OutOfSubset("== on opaque string")
            if hasattr(a, "parts") or hasattr(b, "parts"):
                if a is b:
                    return True
                from .strparts import parts_of, parts_equal

                pa, pb = parts_of(a), parts_of(b)
                if len(pa) == len(pb) and all(x[0] == y[0] for x, y in zip(pa, pb)) and all(x[1] == y[1] for x, y in zip(pa, pb) if x[0] == "lit"):
                    # same token shape: equal iff the pieces are equal, given that symbols contain no
                    # separator characters (table obligation of C20)
                    return parts_equal(pa, pb)
                raise OutOfSubset("== between differently built strings")
            return a.name == b.name
        if a is SNone or b is SNone:
            if a is b:
                return True
            other = b if a is SNone else a
            if isinstance(other, SRef) and isinstance(other.o, HObj):
                return self.obj_eq(other, SNone if a is SNone else SNone, a is SNone)
            return False
        if isinstance(a, STuple) and isinstance(b, STuple):
            return self.seq_equal(a.items, b.items)
        if isinstance(a, SRef) and isinstance(b, SRef):
            oa, ob = a.o, b.o
            if isinstance(oa, HList) and isinstance(ob, HList):
                va, vb = getattr(oa, "view", None), getattr(ob, "view", None)
                if va or vb:
                    # dict views: items/keys views compare like sets (order ignored); a values view
                    # only equals itself; a view never equals a list
                    if oa is ob:
                        return True
                    if va in ("items", "keys") and vb in ("items", "keys"):
                        return self.set_equal(oa, ob)
                    return False
                return self.seq_equal(oa.items, ob.items)
            if isinstance(oa, HDict) and isinstance(ob, HDict):
                return self.dict_equal(oa, ob)
            if isinstance(oa, HSet) and isinstance(ob, HSet):
                return self.set_equal(oa, ob)
        if isinstance(a, SRef) and isinstance(a.o, (HObj,)) or isinstance(b, SRef) and isinstance(b.o, (HObj,)):
            return self.obj_eq(a, b, False)
        if isinstance(a, (SType, SClass, SFunc, SFn, SBuiltin, SLocalClass)) or isinstance(
            b, (SType, SClass, SFunc, SFn, SBuiltin, SLocalClass)
        ):
            return self.identical(a, b)
        if isinstance(a, SRef) and isinstance(b, SRef):
            return a.o is b.o
        # different builtin kinds (str vs int, tuple vs list ...)
        return False

    def obj_eq(self, a, b, swapped):
        """== with at least one repository object: Python's dispatch (subclass-first, NotImplemented)"""

        def eq_method(v):
            if isinstance(v, SRef) and isinstance(v.o, HObj) and isinstance(v.o.cls, ClassInfo):
                return v.o.cls.find_method("__eq__")
            return None

        ma, mb = eq_method(a), eq_method(b)
        order = [(a, b, ma), (b, a, mb)]
        # reflected first if type(b) is a proper subclass of type(a) and overrides __eq__
        if (
            ma is not None
            and mb is not None
            and isinstance(a, SRef)
            and isinstance(b, SRef)
            and a.o.cls is not b.o.cls
            and b.o.cls.is_subclass_of(a.o.cls.name)
            and mb is not ma
        ):
            order.reverse()
        for x, y, m in order:
            if m is None:
                continue
            r = self.call_function(SFunc(m), [x, y], {})
            if r is SNotImplemented:
                continue
            return self.truth(r)
        if isinstance(a, SRef) and isinstance(b, SRef):
            return a.o is b.o
        return False

    def seq_equal(self, xs, ys):
        if len(xs) != len(ys):
            return False
        conj = []
        for x, y in zip(xs, ys):
            e = self.equal(x, y)
            if is_false(e):
                return False
            if not is_true(e):
                conj.append(e)
        if not conj:
            return True
        return z3.And(*conj) if len(conj) > 1 else conj[0]

    def dict_equal(self, da, db):
        if len(da.entries) != len(db.entries):
            return False
        if da.ordered and db.ordered:
            return self.seq_equal(
                [STuple([k, v]) for k, v in da.entries], [STuple([k, v]) for k, v in db.entries]
            )
        # unordered: every key of a is in b with equal value
        conj = []
        for k, v in da.entries:
            alts = []
            for k2, v2 in db.entries:
                alts.append(z3.And(to_z3b(self.equal(k, k2)), to_z3b(self.equal(v, v2))))
            conj.append(z3.Or(*alts) if alts else z3.BoolVal(False))
        return z3.simplify(z3.And(*conj)) if conj else True

    def set_equal(self, sa, sb):
        conj = []
        for x in sa.items:
            conj.append(z3.Or(*[to_z3b(self.equal(x, y)) for y in sb.items]) if sb.items else z3.BoolVal(False))
        for y in sb.items:
            conj.append(z3.Or(*[to_z3b(self.equal(x, y)) for x in sa.items]) if sa.items else z3.BoolVal(False))
        return z3.simplify(z3.And(*conj)) if conj else True

    def bool_to_num(self, b):
        c = b.concrete()
        if c is not None:
            return SNum(1 if c else 0)
        return SNum(z3.If(b.t, 1, 0), "int")

    # ------------------------------------------------------------------------------------------
    # numbers
    def num_cmp(self, op, a, b):
        if a.extended or b.extended:
            return self.ext_cmp(op, a, b)
        x, y = a.t, b.t
        if x.sort() != y.sort():
            x, y = a.real(), b.real()
        if isinstance(op, ast.Eq):
            r = x == y
        elif isinstance(op, ast.NotEq):
            r = x != y
        elif isinstance(op, ast.Lt):
            r = x < y
        elif isinstance(op, ast.LtE):
            r = x <= y
        elif isinstance(op, ast.Gt):
            r = x > y
        elif isinstance(op, ast.GtE):
            r = x >= y
        else:
            raise OutOfSubset("cmp op")
        r = z3.simplify(r)
        if z3.is_true(r):
            return True
        if z3.is_false(r):
            return False
        return r

    def ext_cmp(self, op, a, b):
        """IEEE comparisons for extended floats (nan, +inf, -inf flags)"""
        F = z3.BoolVal(False)

        def fl(v):
            if v.extended:
                return v.nan, v.pinf, v.ninf, v.real()
            return F, F, F, v.real()

        an, ap, am, ax = fl(a)
        bn, bp, bm, bx = fl(b)
        afin = z3.Not(z3.Or(an, ap, am))
        bfin = z3.Not(z3.Or(bn, bp, bm))
        anynan = z3.Or(an, bn)
        lt = z3.And(
            z3.Not(anynan),
            z3.Or(
                z3.And(am, z3.Not(bm)),
                z3.And(bp, z3.Not(ap)),
                z3.And(afin, bfin, ax < bx),
            ),
        )
        gt = z3.And(
            z3.Not(anynan),
            z3.Or(
                z3.And(bm, z3.Not(am)),
                z3.And(ap, z3.Not(bp)),
                z3.And(afin, bfin, ax > bx),
            ),
        )
        eq = z3.And(z3.Not(anynan), z3.Or(z3.And(ap, bp), z3.And(am, bm), z3.And(afin, bfin, ax == bx)))
        if isinstance(op, ast.Eq):
            r = eq
        elif isinstance(op, ast.NotEq):
            r = z3.Not(eq)
        elif isinstance(op, ast.Lt):
            r = lt
        elif isinstance(op, ast.LtE):
            r = z3.Or(lt, eq)
        elif isinstance(op, ast.Gt):
            r = gt
        elif isinstance(op, ast.GtE):
            r = z3.Or(gt, eq)
        else:
            raise OutOfSubset("cmp op")
        return z3.simplify(r)

    def num_binop(self, op, a, b):
        if a.extended or b.extended:
            raise OutOfSubset("arithmetic on extended float")
        kind = "int" if (a.is_int and b.is_int) else "float"
        if a.kind.startswith("np") or b.kind.startswith("np"):
            kind = "npfloat32" if "npfloat" not in (a.kind, b.kind) and "float" not in (a.kind, b.kind) else "npfloat"
        if isinstance(op, ast.Add):
            return SNum(z3.simplify(a.t + b.t), kind)
        if isinstance(op, ast.Sub):
            return SNum(z3.simplify(a.t - b.t), kind)
        if isinstance(op, ast.Mult):
            return SNum(z3.simplify(a.t * b.t), kind)
        if isinstance(op, ast.Div):
            if self.P.branch(b.real() == 0):
                self.raise_("ZeroDivisionError", "division by zero")
            return SNum(z3.simplify(a.real() / b.real()), "float" if not kind.startswith("np") else kind)
        if isinstance(op, ast.FloorDiv):
            if self.P.branch(b.real() == 0):
                self.raise_("ZeroDivisionError", "division by zero")
            q = z3.ToInt(a.real() / b.real())
            if kind == "int":
                return SNum(z3.simplify(q), "int")
            return SNum(z3.simplify(z3.ToReal(q)), kind)
        if isinstance(op, ast.Mod):
            if self.P.branch(b.real() == 0):
                self.raise_("ZeroDivisionError", "modulo by zero")
            q = z3.ToInt(a.real() / b.real())
            if kind == "int":
                return SNum(z3.simplify(a.t - b.t * q), "int")
            return SNum(z3.simplify(a.real() - b.real() * z3.ToReal(q)), kind)
        if isinstance(op, ast.Pow):
            cb = b.concrete()
            if cb is not None and isinstance(cb, int) or (cb is not None and cb.denominator == 1):
                n = int(cb)
                if n >= 0:
                    r = z3.IntVal(1) if kind == "int" else z3.RealVal(1)
                    for _ in range(n):
                        r = r * a.t
                    return SNum(z3.simplify(r), kind)
                else:
                    if self.P.branch(a.real() == 0):
                        self.raise_("ZeroDivisionError", "0 to a negative power")
                    r = z3.RealVal(1)
                    for _ in range(-n):
                        r = r * a.real()
                    return SNum(z3.simplify(1 / r), "float")
            return SNum(upow(a.real(), b.real()), "float")
        if isinstance(op, (ast.BitAnd, ast.BitOr, ast.BitXor, ast.LShift, ast.RShift)):
            # bit operations: concrete integers only
            ca, cb = a.concrete(), b.concrete()
            if a.is_int and b.is_int and isinstance(ca, int) and isinstance(cb, int):
                if isinstance(op, (ast.LShift, ast.RShift)) and cb < 0:
                    self.raise_("ValueError", "negative shift count")
                fn = {ast.BitAnd: lambda x, y: x & y, ast.BitOr: lambda x, y: x | y, ast.BitXor: lambda x, y: x ^ y, ast.LShift: lambda x, y: x << y, ast.RShift: lambda x, y: x >> y}[type(op)]
                return SNum(fn(ca, cb))
            if not (a.is_int and b.is_int):
                self.raise_("TypeError", "unsupported operand type(s) for a bit operation")
            raise OutOfSubset("bit operation on symbolic integers")
        raise OutOfSubset("num binop %s" % type(op).__name__)

    # ------------------------------------------------------------------------------------------
    # attribute access
    def class_attr(self, ci, name, instance=None, static_cls=None):
        """look up a class-level attribute along the MRO; returns SVal or None if absent"""
        ov = self.P.ghost.get("classattrs", {})
        for c in ci.mro():
            if (c.name, name) in ov:
                return ov[(c.name, name)]
            if name in c.aliases:
                name = c.aliases[name]
            pr = c.properties.get(name)
            if pr is not None and instance is not None:
                g, s = pr
                if g is None:
                    raise OutOfSubset("property without getter")
                gf = c.find_method(g) or ci.find_method(g)
                return self.call_function(SFunc(gf), [instance], {})
            if name in c.methods:
                fi = c.methods[name]
                f = SFunc(fi)
                if fi.is_classmethod:
                    return SBound(SClass(static_cls or ci), f)
                if fi.is_staticmethod:
                    return f
                if instance is not None:
                    return SBound(instance, f)
                return f
            if name in c.attrs:
                fr = Frame(c.module, cls=c)
                val = self.eval(c.attrs[name], fr)
                if isinstance(val, SRef) and isinstance(val.o, (HList, HDict, HSet, HObj)):
                    # a mutable class-level object is ONE object shared by every access (aliasing and
                    # in-place changes must be visible): evaluated once per path, region 'class-state'
                    try:
                        val.o.region = "class-state"
                    except Exception:
                        pass
                    self.P.ghost.setdefault("classattrs", {})[(c.name, name)] = val
                return val
        # inherited from external bases
        for bn in ci.base_names():
            key = "%s.%s" % (bn, name)
            if key in self.ext:
                impl = self.ext[key]
                target = instance if instance is not None else SClass(static_cls or ci)
                return SBound(target, SBuiltin(key, impl))
        return None

    def getattr(self, v, name):
        P = self.P
        if isinstance(v, SProto):
            r = v.py_getattr(self, name)
            if r is not NotImplemented:
                return r
            raise OutOfSubset("attribute %s of %r" % (name, v))
        if isinstance(v, SRef):
            o = v.o
            if isinstance(o, HObj):
                if name == "__class__":
                    return SClass(o.cls) if isinstance(o.cls, ClassInfo) else o.cls
                if name == "__dict__":
                    raise OutOfSubset("__dict__")
                if name in o.fields:
                    return o.fields[name]
                if isinstance(o.cls, ClassInfo):
                    r = self.class_attr(o.cls, name, instance=v)
                    if r is not None:
                        return r
                    if not getattr(o, "really_constructed", False) and getattr(o, "region", "") != "fresh-self" and assigned_somewhere(o.cls, name):
                        # the class does assign self.<name> in one of its methods, but this object (built by a
                        # contract's input schema, or read before that assignment) has no such field: its
                        # contents depend on the object's history, which no contract describes -> undecided,
                        # never an AttributeError (a bare `except` would swallow it and take another path)
                        raise OutOfSubset("field %s.%s is not described by the contracts' object schemas (history-dependent state)" % (o.cls.name, name))
                self.raise_("AttributeError", name)
            if isinstance(o, HExc):
                if name in o.fields:
                    return o.fields[name]
                if getattr(o, "partial_init", False) and name != "args":
                    raise OutOfSubset("attribute %s of a partially initialised exception" % name)
                if name == "args":
                    return STuple(o.args)
                if name == "__class__":
                    return SClass(o.cls) if isinstance(o.cls, ClassInfo) else SType(o.cls)
                if isinstance(o.cls, ClassInfo):
                    r = self.class_attr(o.cls, name, instance=v)
                    if r is not None:
                        return r
                self.raise_("AttributeError", name)
            m = self.B.container_method(self, v, name)
            if m is not None:
                return m
            if name == "__class__":
                return SType(v.pytype())
            import collections as _c

            real = {"list": list, "dict": dict, "OrderedDict": _c.OrderedDict, "set": set, "frozenset": frozenset}.get(v.pytype() if isinstance(v.pytype(), str) else "")
            if real is not None and hasattr(real, name):
                # the real type has this attribute; the interpreter does not model it: undecided, never AttributeError
                raise OutOfSubset("%s.%s is not modelled" % (v.pytype(), name))
            self.raise_("AttributeError", name)
        if isinstance(v, SClass):
            if name == "__name__":
                return SStr(v.ci.name)
            r = self.class_attr(v.ci, name, instance=None, static_cls=v.ci)
            if r is not None:
                return r
            # exception classes inherit __init__ from builtins
            if name == "__init__" and any(b in BUILTIN_EXC for b in v.ci.base_names()):
                return SBuiltin("exc_init", self.B.exc_init_unbound)
            if name == "__new__":
                raise OutOfSubset("__new__ access")
            self.raise_("AttributeError", name)
        if isinstance(v, SModule):
            if v.mi is not None:
                r = self.resolve_module_name(v.mi, name)
                if r is not None:
                    return r
            key = "%s.%s" % (v.name, name)
            if key in self.ext:
                e = self.ext[key]
                return e if isinstance(e, SVal) else SBuiltin(key, e)
            raise OutOfSubset("module attribute %s" % key)
        if isinstance(v, (SFunc, SFn)):
            if name in v.attrs:
                return v.attrs[name]
            if isinstance(v, SFn) and name == "__has_conversion__":
                # abstract conversion functions of the registry always carry the flag (UnitInfo.__init__ sets it)
                return SBool(self.P.fresh("hasconv", z3.BoolSort()))
            self.raise_("AttributeError", name)
        if isinstance(v, SStr):
            if name == "__class__":
                return SType("str")
            m = self.B.str_method(self, v, name)
            if m is not None:
                return m
            if hasattr(str, name):
                raise OutOfSubset("str.%s is not modelled" % name)
            self.raise_("AttributeError", name)
        if isinstance(v, STuple):
            if name == "__class__":
                return SType("tuple")
            m = self.B.tuple_method(self, v, name)
            if m is not None:
                return m
            if hasattr(tuple, name):
                raise OutOfSubset("tuple.%s is not modelled" % name)
            self.raise_("AttributeError", name)
        if isinstance(v, SNum):
            if name == "__class__":
                return SType(v.pytype())
            if name in ("numerator", "denominator") and v.is_int:
                return v if name == "numerator" else SNum(1)
            if hasattr(float if not v.is_int else int, name):
                raise OutOfSubset("%s.%s is not modelled" % (v.pytype(), name))
            self.raise_("AttributeError", name)
        if v is SNone:
            if name == "__class__":
                return SType("NoneType")
            self.raise_("AttributeError", "'NoneType' object has no attribute %r" % name)
        if isinstance(v, SBool):
            if name == "__class__":
                return SType("bool")
            self.raise_("AttributeError", name)
        if isinstance(v, SType):
            key = "%s.%s" % (v.name, name)
            if key in self.ext:
                return SBuiltin(key, self.ext[key])
            if name == "__name__":
                return SStr(v.name.split(".")[-1])
            raise OutOfSubset("type attribute %s" % key)
        if isinstance(v, SLocalClass):
            self.raise_("AttributeError", name)
        raise OutOfSubset("getattr %s on %r" % (name, v))

    def setattr(self, v, name, val):
        if isinstance(v, SProto):
            r = v.py_setattr(self, name, val)
            if r is NotImplemented:
                raise OutOfSubset("setattr %s on %r" % (name, v))
            return
        if isinstance(v, SRef) and isinstance(v.o, HObj):
            o = v.o
            if name == "__class__":
                o.cls = val.ci if isinstance(val, SClass) else val
                return
            if isinstance(o.cls, ClassInfo):
                pr = o.cls.find_property(name)
                if pr is not None:
                    c, g, s = pr
                    if s is None:
                        self.raise_("AttributeError", "can't set attribute %s" % name)
                    sf = o.cls.find_method(s)
                    self.call_function(SFunc(sf), [v, val], {})
                    return
            self.P.log_write(o, ("attr", name))
            o.fields[name] = val
            return
        if isinstance(v, SRef) and isinstance(v.o, HExc):
            v.o.fields[name] = val
            return
        if isinstance(v, (SFunc, SFn)):
            v.attrs[name] = val
            return
        if isinstance(v, SClass):
            self.P.ghost.setdefault("classattrs", {})[(v.ci.name, name)] = val
            self.P.log_write(("class", v.ci.name), ("classattr", name))
            return
        raise OutOfSubset("setattr on %r" % (v,))

    # ------------------------------------------------------------------------------------------
    # names
    def resolve_module_name(self, mi, name):
        g = self.P.ghost.get("globals", {})
        if (mi.name, name) in g:
            return g[(mi.name, name)]
        r = self.repo.resolve_name(mi, name)
        if r is None:
            return None
        return self.wrap_resolved(r)

    def wrap_resolved(self, r):
        if isinstance(r, FuncInfo):
            return SFunc(r)
        if isinstance(r, ClassInfo):
            return SClass(r)
        if isinstance(r, tuple):
            if r[0] == "const":
                key = (getattr(r[1], "name", None), id(r[2]))
                cache = self.P.ghost.setdefault("module_consts", {})
                if key in cache:
                    return cache[key]
                val = self.eval(r[2], Frame(r[1]))
                if isinstance(val, SRef) and isinstance(val.o, (HList, HDict, HSet, HObj)):
                    # a mutable module-level object is one shared object
                    try:
                        val.o.region = "module-state"
                    except Exception:
                        pass
                    cache[key] = val
                return val
            if r[0] == "extmod":
                nm = r[1]
                if nm in self.repo.modules:
                    return SModule(nm, self.repo.modules[nm])
                return SModule(nm)
            if r[0] == "mod":
                return SModule(r[1].name, r[1])
            if r[0] == "ext":
                key = "%s.%s" % (r[1], r[2])
                if key in self.ext:
                    e = self.ext[key]
                    return e if isinstance(e, SVal) else SBuiltin(key, e)
                short = r[2]
                if short in self.ext:
                    e = self.ext[short]
                    return e if isinstance(e, SVal) else SBuiltin(short, e)
                if r[1] == "typing":
                    return TYPING_FORM
                raise OutOfSubset("external name %s" % key)
        raise OutOfSubset("resolve %r" % (r,))

    def load_name(self, name, frame):
        f = frame
        first = True
        while f is not None:
            if name in f.vars:
                return f.vars[name]
            if first and name in f.locals_set and name not in f.globals_decl:
                self.raise_("UnboundLocalError", name)
            if not first and name in f.locals_set:
                self.raise_("NameError", "free variable %s referenced before assignment" % name)
            first = False
            f = f.outer
        if frame.cls is not None:
            # class-body evaluation: names of the class namespace
            ci = frame.cls
            if name in ci.attrs:
                return self.eval(ci.attrs[name], Frame(ci.module, cls=None))
        r = self.resolve_module_name(frame.module, name)
        if r is not None:
            return r
        if name in self.builtins:
            e = self.builtins[name]
            return e if isinstance(e, SVal) else SBuiltin(name, e)
        raise OutOfSubset("unknown name %s" % name)

    def store_name(self, name, v, frame):
        if name in frame.globals_decl:
            self.P.ghost.setdefault("globals", {})[(frame.module.name, name)] = v
            return
        frame.vars[name] = v

    # ------------------------------------------------------------------------------------------
    # calls
    def call(self, f, args, kwargs=None):
        kwargs = kwargs or {}
        self.P.tick()
        if isinstance(f, SBound):
            return self.call(f.func, [f.self_] + list(args), kwargs)
        if isinstance(f, SFunc):
            return self.call_function(f, args, kwargs)
        if isinstance(f, SBuiltin):
            return f.impl(self, list(args), kwargs)
        if isinstance(f, SClass):
            return self.instantiate(f.ci, args, kwargs)
        if isinstance(f, SType):
            impl = self.B.TYPE_CALLS.get(f.name)
            if impl is None:
                raise OutOfSubset("call of type %s" % f.name)
            return impl(self, list(args), kwargs)
        if isinstance(f, SFn):
            return self.B.apply_fn(self, f, args)
        if isinstance(f, SLocalClass):
            return SRef(self.P.alloc(HObj(f)))
        if isinstance(f, SProto):
            r = f.py_call(self, list(args), kwargs)
            if r is not NotImplemented:
                return r
        if isinstance(f, SRef) and isinstance(f.o, HObj) and isinstance(f.o.cls, ClassInfo):
            m = f.o.cls.find_method("__call__")
            if m is not None:
                return self.call_function(SFunc(m), [f] + list(args), kwargs)
        self.raise_("TypeError", "object is not callable")

    def bind_args(self, node, f, args, kwargs, frame):
        a = node.args
        params = [x.arg for x in a.posonlyargs + a.args]
        defaults = a.defaults
        ndef = len(defaults)
        npos = len(params)
        args = list(args)
        kwargs = dict(kwargs)
        for i, pn in enumerate(params):
            if i < len(args):
                if pn in kwargs:
                    self.raise_("TypeError", "got multiple values for argument %s" % pn)
                frame.vars[pn] = args[i]
            elif pn in kwargs:
                frame.vars[pn] = kwargs.pop(pn)
            else:
                di = i - (npos - ndef)
                if di >= 0:
                    frame.vars[pn] = self.eval(defaults[di], Frame(frame.module, outer=f.closure))
                else:
                    self.raise_("TypeError", "missing required argument %s" % pn)
        extra = args[npos:]
        if a.vararg:
            frame.vars[a.vararg.arg] = STuple(extra)
        elif extra:
            self.raise_("TypeError", "too many positional arguments")
        for i, x in enumerate(a.kwonlyargs):
            if x.arg in kwargs:
                frame.vars[x.arg] = kwargs.pop(x.arg)
            elif a.kw_defaults[i] is not None:
                frame.vars[x.arg] = self.eval(a.kw_defaults[i], Frame(frame.module, outer=f.closure))
            else:
                self.raise_("TypeError", "missing keyword-only argument %s" % x.arg)
        if a.kwarg:
            d = HDict([(SStr(k), v) for k, v in kwargs.items()])
            frame.vars[a.kwarg.arg] = SRef(self.P.alloc(d))
        elif kwargs:
            self.raise_("TypeError", "unexpected keyword argument %s" % sorted(kwargs)[0])

    def call_function(self, f, args, kwargs, force_inline=False):
        fi = f.fi
        if fi is not None and not force_inline:
            s = self.summaries.get(fi.fq)
            if s is not None:
                self.summarised[fi.fq] = self.summarised.get(fi.fq, 0) + 1
                return s(self, f, list(args), dict(kwargs))
        if self.P.call_depth > self.MAX_DEPTH:
            raise OutOfSubset("call depth")
        node = f.node
        if fi is not None:
            self.called[fi.fq] = self.called.get(fi.fq, 0) + 1
        if isinstance(node, ast.Lambda):
            frame = Frame(f.module, outer=f.closure, locals_set=function_locals(node))
            self.bind_args(node, f, args, kwargs, frame)
            self.P.call_depth += 1
            try:
                return self.eval(node.body, frame)
            finally:
                self.P.call_depth -= 1
        frame = Frame(
            f.module, outer=f.closure, fi=fi, locals_set=function_locals(node), cls=None
        )
        gd = _globals_cache.get(id(node))
        if gd is None:
            gd = set()
            for st in ast.walk(node):
                if isinstance(st, ast.Global):
                    gd.update(st.names)
            _globals_cache[id(node)] = gd
        if gd:
            frame.globals_decl.update(gd)
        self.bind_args(node, f, args, kwargs, frame)
        self.P.call_depth += 1
        try:
            if has_yield(node):
                out = []
                frame.vars["$yield"] = out
                try:
                    self.exec_block(node.body, frame)
                except _Return:
                    pass
                from . import loops

                sg = loops.finish_generator(self, out)
                if sg is not None:
                    return sg
                return SRef(self.P.alloc(HIter(out)))
            try:
                self.exec_block(node.body, frame)
            except _Return as r:
                return r.v
            return SNone
        finally:
            self.P.call_depth -= 1

    def instantiate(self, ci, args, kwargs):
        P = self.P
        names = ci.base_names()
        if any(b in BUILTIN_EXC for b in names):
            e = P.alloc(HExc(ci, list(args)))
            ref = SRef(e)
            init = ci.find_method("__init__")
            if init is not None:
                try:
                    self.call_function(SFunc(init), [ref] + list(args), kwargs)
                except OutOfSubset:
                    e.partial_init = True  # message construction outside the subset
            return ref
        if "s" in ci.decorators or "attrs" in ci.decorators or "define" in ci.decorators:
            return self.B.attrs_init(self, ci, args, kwargs)
        o = P.alloc(HObj(ci))
        o.really_constructed = True  # its fields are exactly what the real constructor assigned (so far)
        ref = SRef(o)
        init = ci.find_method("__init__")
        if init is not None:
            self.call_function(SFunc(init), [ref] + list(args), kwargs)
        else:
            # external base __init__ (Singleton etc.) : no-op
            pass
        return ref

    # ------------------------------------------------------------------------------------------
    # statements
    def exec_block(self, stmts, frame):
        for st in stmts:
            self.exec_stmt(st, frame)

    def exec_stmt(self, st, frame):
        self.P.tick()
        m = getattr(self, "st_" + type(st).__name__, None)
        if m is None:
            raise OutOfSubset("statement %s at line %s" % (type(st).__name__, getattr(st, "lineno", "?")))
        return m(st, frame)

    def st_Expr(self, st, frame):
        if isinstance(st.value, ast.Constant) and isinstance(st.value.value, str):
            return  # docstring
        if isinstance(st.value, ast.Yield):
            v = self.eval(st.value.value, frame) if st.value.value is not None else SNone
            frame.vars["$yield"].append(v)
            return
        if isinstance(st.value, ast.YieldFrom):
            it = self.eval(st.value.value, frame)
            from . import loops

            sg = loops.as_gen(self, it)
            if sg is not None:
                frame.vars["$yield"].append(loops.SymChunk(sg.n, sg.elem))
                return
            for v in self.iterate(it):
                frame.vars["$yield"].append(v)
            return
        self.eval(st.value, frame)

    def st_Pass(self, st, frame):
        pass

    def st_Global(self, st, frame):
        pass

    def st_Import(self, st, frame):
        for al in st.names:
            nm = al.name
            local = al.asname or nm.split(".")[0]
            if nm in self.repo.modules:
                frame.vars[local] = SModule(nm, self.repo.modules[nm])
            else:
                frame.vars[local] = SModule(nm.split(".")[0] if not al.asname else nm)

    def st_ImportFrom(self, st, frame):
        mod = st.module or ""
        if st.level:
            pkg = frame.module.name.split(".")
            is_pkg = frame.module.path.endswith("__init__.py")
            base = pkg[: len(pkg) - st.level + (1 if is_pkg else 0)]
            mod = ".".join(base + ([mod] if mod else []))
        for al in st.names:
            local = al.asname or al.name
            if mod in self.repo.modules:
                r = self.resolve_module_name(self.repo.modules[mod], al.name)
                if r is None:
                    if mod + "." + al.name in self.repo.modules:
                        r = SModule(mod + "." + al.name, self.repo.modules[mod + "." + al.name])
                    else:
                        raise OutOfSubset("import %s from %s" % (al.name, mod))
                frame.vars[local] = r
            else:
                key = "%s.%s" % (mod, al.name)
                if key in self.ext:
                    e = self.ext[key]
                    frame.vars[local] = e if isinstance(e, SVal) else SBuiltin(key, e)
                else:
                    raise OutOfSubset("import %s" % key)

    def st_FunctionDef(self, st, frame):
        qn = (frame.fi.qualname + ".<locals>." if frame.fi else "") + st.name
        fi = FuncInfo(st, frame.module, qn, outer=frame.fi)
        frame.vars[st.name] = SFunc(fi, closure=frame)

    def st_ClassDef(self, st, frame):
        if all(isinstance(b, ast.Pass) or (isinstance(b, ast.Expr) and isinstance(b.value, ast.Constant)) for b in st.body):
            frame.vars[st.name] = SLocalClass(st.name)
            return
        raise OutOfSubset("local class with a body")

    def st_Return(self, st, frame):
        raise _Return(self.eval(st.value, frame) if st.value is not None else SNone)

    def st_Break(self, st, frame):
        raise _Break()

    def st_Continue(self, st, frame):
        raise _Continue()

    def st_Assign(self, st, frame):
        v = self.eval(st.value, frame)
        for t in st.targets:
            self.assign(t, v, frame)

    def st_AnnAssign(self, st, frame):
        if st.value is None:
            return
        self.assign(st.target, self.eval(st.value, frame), frame)

    def st_AugAssign(self, st, frame):
        t = st.target
        if isinstance(t, ast.Name):
            cur = self.load_name(t.id, frame)
            self.store_name(t.id, self.binop(st.op, cur, self.eval(st.value, frame), inplace=True), frame)
        elif isinstance(t, ast.Attribute):
            o = self.eval(t.value, frame)
            cur = self.getattr(o, t.attr)
            self.setattr(o, t.attr, self.binop(st.op, cur, self.eval(st.value, frame), inplace=True))
        elif isinstance(t, ast.Subscript):
            o = self.eval(t.value, frame)
            k = self.eval_index(t.slice, frame)
            cur = self.getitem(o, k)
            self.setitem(o, k, self.binop(st.op, cur, self.eval(st.value, frame), inplace=True))
        else:
            raise OutOfSubset("augassign target")

    def assign(self, t, v, frame):
        if isinstance(t, ast.Name):
            self.store_name(t.id, v, frame)
        elif isinstance(t, ast.Attribute):
            self.setattr(self.eval(t.value, frame), t.attr, v)
        elif isinstance(t, ast.Subscript):
            self.setitem(self.eval(t.value, frame), self.eval_index(t.slice, frame), v)
        elif isinstance(t, (ast.Tuple, ast.List)):
            items = self.iterate(v)
            if any(isinstance(e, ast.Starred) for e in t.elts):
                raise OutOfSubset("starred assignment")
            if len(items) != len(t.elts):
                self.raise_(
                    "ValueError",
                    "too many values to unpack" if len(items) > len(t.elts) else "not enough values to unpack",
                )
            for e, x in zip(t.elts, items):
                self.assign(e, x, frame)
        else:
            raise OutOfSubset("assign target %s" % type(t).__name__)

    def st_Delete(self, st, frame):
        for t in st.targets:
            if isinstance(t, ast.Subscript):
                self.delitem(self.eval(t.value, frame), self.eval_index(t.slice, frame))
            elif isinstance(t, ast.Name):
                if t.id in frame.vars:
                    del frame.vars[t.id]
                else:
                    self.raise_("UnboundLocalError", t.id)
            else:
                raise OutOfSubset("del target")

    def st_If(self, st, frame):
        if self.is_truthy(self.eval(st.test, frame)):
            self.exec_block(st.body, frame)
        else:
            self.exec_block(st.orelse, frame)

    def st_Assert(self, st, frame):
        if not self.is_truthy(self.eval(st.test, frame)):
            if st.msg is not None:
                try:
                    m = self.eval(st.msg, frame)
                except OutOfSubset:
                    m = OPAQUE
                self.raise_("AssertionError", m)
            self.raise_("AssertionError")

    def st_Raise(self, st, frame):
        if st.exc is None:
            cur = frame.vars.get("$exc")
            f = frame
            while cur is None and f is not None:
                cur = f.vars.get("$exc")
                f = f.outer
            if cur is None:
                self.raise_("RuntimeError", "No active exception to reraise")
            raise PyRaise(cur)
        e = self.eval(st.exc, frame)
        if isinstance(e, (SClass, SType)):
            e = self.call(e, [], {})
        if not (isinstance(e, SRef) and isinstance(e.o, HExc)):
            self.raise_("TypeError", "exceptions must derive from BaseException")
        raise PyRaise(e)

    def exc_matches(self, excref, handler_type, frame):
        if handler_type is None:
            return True
        t = self.eval(handler_type, frame)
        ts = t.items if isinstance(t, STuple) else [t]
        anc = exc_ancestors(excref.o.cls)
        for x in ts:
            if isinstance(x, SClass):
                if x.ci.name in anc:
                    return True
            elif isinstance(x, SType):
                if x.name in anc:
                    return True
            else:
                raise OutOfSubset("except clause type %r" % (x,))
        return False

    def st_Try(self, st, frame):
        try:
            try:
                self.exec_block(st.body, frame)
            except PyRaise as pr:
                for h in st.handlers:
                    if self.exc_matches(pr.exc, h.type, frame):
                        if h.name:
                            frame.vars[h.name] = pr.exc
                        saved = frame.vars.get("$exc")
                        frame.vars["$exc"] = pr.exc
                        try:
                            self.exec_block(h.body, frame)
                        finally:
                            if saved is None:
                                frame.vars.pop("$exc", None)
                            else:
                                frame.vars["$exc"] = saved
                            if h.name:
                                frame.vars.pop(h.name, None)
                        break
                else:
                    raise
            else:
                self.exec_block(st.orelse, frame)
        finally:
            if st.finalbody:
                self.exec_block(st.finalbody, frame)

    def st_While(self, st, frame):
        spec = self.loop_invariant_for(st, frame)
        if spec is not None:
            return self.while_with_invariant(st, frame, spec)
        n = 0
        broke = False
        while self.is_truthy(self.eval(st.test, frame)):
            n += 1
            if n > self.P.ghost.get("while_bound", 64):
                raise OutOfSubset("while loop bound at line %d" % st.lineno)
            try:
                self.exec_block(st.body, frame)
            except _Break:
                broke = True
                break
            except _Continue:
                continue
        if not broke:
            self.exec_block(st.orelse, frame)

    def for_invariant_for(self, st, frame):
        invs = self.P.ghost.get("loop_invariants")
        if not invs or frame.fi is None:
            return None
        fors = [n for n in ast.walk(frame.fi.node) if isinstance(n, ast.For)]
        fors.sort(key=lambda n: (n.lineno, n.col_offset))
        k = fors.index(st) if st in fors else None
        return invs.get((frame.fi.fq, "for", k))

    def for_with_invariant(self, st, frame, spec, it):
        """loop rule 4 for `for x in <iterator over a sequence of unknown length>`: the invariant (over
        the loop variables and the iterator position) holds on entry, is preserved by an arbitrary
        iteration that ends normally or with `continue`, and is assumed with position == length after
        exhaustion.  An iteration that leaves through break / return / raise is a real exit of the
        loop, reached from a state satisfying the invariant."""
        from .engine import Obligation, discharge, Infeasible, BoolS

        P = self.P
        name = "loop[%s@L%d]" % (frame.fi.fq.split(":")[1], st.lineno)
        entry = spec.enter(self, frame, it)
        ob = Obligation("inv_init[%s]" % name, spec.props, "loop")
        discharge(P, to_z3b(spec.inv(self, frame, it, entry)), ob)
        P.obligs.append(ob)
        step = P.fresh("in_arbitrary_iteration", BoolS)
        n = it.seq.n
        if P.branch(step):
            spec.havoc(self, frame, it)
            P.assume(to_z3b(spec.inv(self, frame, it, entry, assume=True)), "loop:invariant before an arbitrary iteration")
            P.assume(z3.And(it.pos >= 0, it.pos < n), "loop:an element is left")
            x = it.seq.at(it.pos)
            it.pos = it.pos + 1
            self.assign(st.target, x, frame)
            try:
                self.exec_block(st.body, frame)
            except _Continue:
                pass
            except _Break:
                return  # leaves the loop (no else clause); execution continues after it
            ob2 = Obligation("inv_step[%s]" % name, spec.props, "loop")
            discharge(P, to_z3b(spec.inv(self, frame, it, entry)), ob2)
            P.stats.setdefault("side_obligs", []).append(ob2)
            raise Infeasible()
        spec.havoc(self, frame, it)
        P.assume(to_z3b(spec.inv(self, frame, it, entry, assume=True)), "loop:invariant at exhaustion")
        P.assume(it.pos == n, "loop:iterator exhausted")
        self.exec_block(st.orelse, frame)

    def loop_invariant_for(self, st, frame):
        """sidecar loop invariant keyed by (function, ordinal of the while loop inside it)"""
        invs = self.P.ghost.get("loop_invariants")
        if not invs or frame.fi is None:
            return None
        whiles = [n for n in ast.walk(frame.fi.node) if isinstance(n, ast.While)]
        whiles.sort(key=lambda n: (n.lineno, n.col_offset))
        k = whiles.index(st) if st in whiles else None
        return invs.get((frame.fi.fq, k))

    def while_with_invariant(self, st, frame, spec):
        """loop rule 4: invariant holds on entry (obligation), is preserved by one arbitrary iteration
        (obligation, checked on a path of its own that ends there) and is assumed, together with the
        negated condition, after the loop.  Variables written by the body are havocked."""
        from .engine import Obligation, discharge, Infeasible, BoolS

        P = self.P
        name = "loop[%s@L%d]" % (frame.fi.fq.split(":")[1], st.lineno)
        entry = spec.enter(self, frame)  # ghost values at loop entry
        ob = Obligation("inv_init[%s]" % name, spec.props, "loop")
        discharge(P, to_z3b(spec.inv(self, frame, entry)), ob)
        P.obligs.append(ob)
        step = P.fresh("in_arbitrary_iteration", BoolS)
        if P.branch(step):
            spec.havoc(self, frame)
            P.assume(to_z3b(spec.inv(self, frame, entry)), "loop:invariant before an arbitrary iteration")
            if not self.is_truthy(self.eval(st.test, frame)):
                raise Infeasible()
            try:
                self.exec_block(st.body, frame)
            except (_Break, _Continue, _Return):
                raise OutOfSubset("break/continue/return inside a loop with an invariant (line %d)" % st.lineno)
            ob2 = Obligation("inv_step[%s]" % name, spec.props, "loop")
            discharge(P, to_z3b(spec.inv(self, frame, entry)), ob2)
            P.stats.setdefault("side_obligs", []).append(ob2)
            raise Infeasible()  # this path only served the preservation obligation
        spec.havoc(self, frame)
        P.assume(to_z3b(spec.inv(self, frame, entry)), "loop:invariant at exit")
        if self.is_truthy(self.eval(st.test, frame)):
            raise Infeasible()
        self.exec_block(st.orelse, frame)

    def st_For(self, st, frame):
        it = self.eval(st.iter, frame)
        spec = self.for_invariant_for(st, frame)
        if spec is not None:
            from .symseq import SymSeq, SymIter

            if isinstance(it, SymSeq):
                it = SymIter(it)
            if isinstance(it, SymIter):
                return self.for_with_invariant(st, frame, spec, it)
        hook = self.P.ghost.get("for_hook")
        if hook is not None:
            r = hook(self, st, it, frame)
            if r is not NotImplemented:
                return
        broke = False
        for x in self.iterate_lazy(it):
            self.assign(st.target, x, frame)
            try:
                self.exec_block(st.body, frame)
            except _Break:
                broke = True
                break
            except _Continue:
                continue
        if not broke:
            self.exec_block(st.orelse, frame)

    # ------------------------------------------------------------------------------------------
    # iteration
    def iterate_lazy(self, v):
        """host generator over the elements (live for lists and iterators)"""
        if isinstance(v, SRef):
            o = v.o
            if isinstance(o, HList):
                i = 0
                while i < len(o.items):
                    yield o.items[i]
                    i += 1
                return
            if isinstance(o, HIter):
                while o.pos < len(o.items):
                    x = o.items[o.pos]
                    o.pos += 1
                    yield x
                return
            if isinstance(o, HDict):
                for k, _ in list(o.entries):
                    yield k
                return
            if isinstance(o, HSet):
                for k in list(o.items):
                    yield k
                return
            if isinstance(o, HObj) and isinstance(o.cls, ClassInfo):
                m = o.cls.find_method("__iter__")
                if m is not None:
                    it = self.call_function(SFunc(m), [v], {})
                    for x in self.iterate_lazy(it):
                        yield x
                    return
                self.raise_("TypeError", "object is not iterable")
        if isinstance(v, STuple):
            for x in v.items:
                yield x
            return
        if isinstance(v, SStr) and v.py is not None:
            for ch in v.py:
                yield SStr(ch)
            return
        if isinstance(v, SProto):
            r = v.py_iter(self)
            if r is not NotImplemented:
                for x in r:
                    yield x
                return
        if isinstance(v, (SNum, SBool)) or v is SNone:
            self.raise_("TypeError", "object is not iterable")
        raise OutOfSubset("iteration over %r" % (v,))

    def iterate(self, v):
        return list(self.iterate_lazy(v))

    # ------------------------------------------------------------------------------------------
    # subscripts
    def eval_index(self, node, frame):
        if isinstance(node, ast.Slice):
            lo = self.eval(node.lower, frame) if node.lower is not None else None
            hi = self.eval(node.upper, frame) if node.upper is not None else None
            if node.step is not None:
                raise OutOfSubset("slice step")
            return ("slice", lo, hi)
        return self.eval(node, frame)

    def concrete_index(self, k, n):
        """python int index into a concrete-length sequence, or raise IndexError"""
        if isinstance(k, SBool):
            k = self.bool_to_num(k)
        if not isinstance(k, SNum):
            self.raise_("TypeError", "indices must be integers")
        c = k.concrete()
        if c is None:
            # symbolic index into a concrete sequence: fork over the positions
            for i in range(n):
                if self.P.branch(k.t == i):
                    return i
            for i in range(1, n + 1):
                if self.P.branch(k.t == -i):
                    return n - i
            self.raise_("IndexError", "index out of range")
        c = int(c)
        if c < 0:
            c += n
        if c < 0 or c >= n:
            self.raise_("IndexError", "index out of range")
        return c

    def slice_bounds(self, k, n):
        _, lo, hi = k

        def cv(x, d):
            if x is None or x is SNone:
                return d
            c = x.concrete() if isinstance(x, SNum) else None
            if c is None:
                raise OutOfSubset("symbolic slice bound")
            c = int(c)
            if c < 0:
                c = max(0, c + n)
            return min(c, n)

        return cv(lo, 0), cv(hi, n)

    def getitem(self, o, k):
        if isinstance(o, SProto):
            r = o.py_getitem(self, k)
            if r is not NotImplemented:
                return r
            raise OutOfSubset("getitem on %r" % (o,))
        if isinstance(o, STuple):
            if isinstance(k, tuple):
                a, b = self.slice_bounds(k, len(o.items))
                return STuple(o.items[a:b])
            return o.items[self.concrete_index(k, len(o.items))]
        if isinstance(o, SStr):
            if o.py is None:
                raise OutOfSubset("index into symbolic string")
            if isinstance(k, tuple):
                a, b = self.slice_bounds(k, len(o.py))
                return SStr(o.py[a:b])
            return SStr(o.py[self.concrete_index(k, len(o.py))])
        if isinstance(o, SRef):
            h = o.o
            if isinstance(h, HList):
                if isinstance(k, tuple):
                    a, b = self.slice_bounds(k, len(h.items))
                    return SRef(self.P.alloc(HList(h.items[a:b])))
                return h.items[self.concrete_index(k, len(h.items))]
            if isinstance(h, HDict):
                return self.dict_get(h, k, missing="raise")
            if isinstance(h, HObj) and isinstance(h.cls, ClassInfo):
                m = h.cls.find_method("__getitem__")
                if m is not None:
                    if isinstance(k, tuple):
                        raise OutOfSubset("slice passed to __getitem__")
                    return self.call_function(SFunc(m), [o, k], {})
            self.raise_("TypeError", "object is not subscriptable")
        if o is SNone or isinstance(o, (SNum, SBool)):
            self.raise_("TypeError", "object is not subscriptable")
        if isinstance(o, SType):
            return o  # typing generics such as OrderedDict[Any, Any]
        raise OutOfSubset("getitem on %r" % (o,))

    def dict_lookup(self, h, k):
        """index of the entry whose key equals k, or None (forks on symbolic equality)"""
        if isinstance(k, SStr) and k.py is not None:
            kp = k.py
            for i, (kk, vv) in enumerate(h.entries):
                if isinstance(kk, SStr) and kk.py is not None:
                    if kk.py == kp:
                        return i
                elif self.P.branch(to_z3b(self.equal(kk, k))):
                    return i
            return None
        for i, (kk, vv) in enumerate(h.entries):
            if self.P.branch(to_z3b(self.equal(kk, k))):
                return i
        return None

    def dict_get(self, h, k, missing="raise", default=None):
        self.check_hashable(k)
        i = self.dict_lookup(h, k)
        if i is None:
            if missing == "raise":
                raise PyRaise(self.exc("KeyError", k))
            return default
        return h.entries[i][1]

    def check_hashable(self, k):
        if isinstance(k, SRef) and isinstance(k.o, (HList, HDict, HSet)):
            self.raise_("TypeError", "unhashable type")
        if isinstance(k, STuple):
            for x in k.items:
                self.check_hashable(x)

    def setitem(self, o, k, v):
        if isinstance(o, SProto):
            r = o.py_setitem(self, k, v)
            if r is not NotImplemented:
                return
            raise OutOfSubset("setitem on %r" % (o,))
        if isinstance(o, SRef):
            h = o.o
            if isinstance(h, HList):
                if isinstance(k, tuple):
                    raise OutOfSubset("slice assignment")
                i = self.concrete_index(k, len(h.items))
                self.P.log_write(h, ("item", i))
                h.items[i] = v
                return
            if isinstance(h, HDict):
                self.check_hashable(k)
                i = self.dict_lookup(h, k)
                self.P.log_write(h, ("key", k))
                if i is None:
                    h.entries.append((k, v))
                else:
                    h.entries[i] = (h.entries[i][0], v)
                return
            if isinstance(h, HObj) and isinstance(h.cls, ClassInfo):
                m = h.cls.find_method("__setitem__")
                if m is not None:
                    self.call_function(SFunc(m), [o, k, v], {})
                    return
        if isinstance(o, STuple):
            self.raise_("TypeError", "'tuple' object does not support item assignment")
        if isinstance(o, SStr):
            self.raise_("TypeError", "'str' object does not support item assignment")
        raise OutOfSubset("setitem on %r" % (o,))

    def delitem(self, o, k):
        if isinstance(o, SProto):
            r = o.py_delitem(self, k)
            if r is not NotImplemented:
                return
        if isinstance(o, SRef):
            h = o.o
            if isinstance(h, HList):
                i = self.concrete_index(k, len(h.items))
                self.P.log_write(h, ("del", i))
                del h.items[i]
                return
            if isinstance(h, HDict):
                i = self.dict_lookup(h, k)
                if i is None:
                    raise PyRaise(self.exc("KeyError", k))
                self.P.log_write(h, ("delkey", k))
                del h.entries[i]
                return
        raise OutOfSubset("delitem on %r" % (o,))

    def contains(self, container, x):
        """`x in container` → z3 Bool / bool"""
        if isinstance(container, SProto):
            r = container.py_contains(self, x)
            if r is not NotImplemented:
                return r
            raise OutOfSubset("contains on %r" % (container,))
        items = None
        if isinstance(container, STuple):
            items = container.items
        elif isinstance(container, SRef):
            h = container.o
            if isinstance(h, (HList, HSet)):
                items = h.items
            elif isinstance(h, HDict):
                self.check_hashable(x)
                items = [k for k, _ in h.entries]
            elif isinstance(h, HIter):
                items = h.items[h.pos :]
            elif isinstance(h, HObj) and isinstance(h.cls, ClassInfo):
                m = h.cls.find_method("__contains__")
                if m is not None:
                    return self.truth(self.call_function(SFunc(m), [container, x], {}))
                items = self.iterate(container)
        elif isinstance(container, SStr):
            if container.py is not None and isinstance(x, SStr) and x.py is not None:
                return x.py in container.py
            raise OutOfSubset("substring test on symbolic string")
        if items is None:
            self.raise_("TypeError", "argument is not iterable")
        alts = []
        if isinstance(x, SStr) and x.py is not None:
            xp = x.py
            rest = []
            for y in items:
                if isinstance(y, SStr) and y.py is not None:
                    if y.py == xp:
                        return True
                else:
                    rest.append(y)
            items = rest
        for y in items:
            e = self.equal(y, x)
            if is_true(e):
                return True
            if not is_false(e):
                alts.append(e)
        if not alts:
            return False
        return z3.Or(*alts) if len(alts) > 1 else alts[0]

    def length(self, v):
        if isinstance(v, STuple):
            return SNum(len(v.items))
        if isinstance(v, SStr):
            if v.py is None:
                raise OutOfSubset("len of symbolic string")
            return SNum(len(v.py))
        if isinstance(v, SRef):
            h = v.o
            if isinstance(h, (HList, HSet)):
                return SNum(len(h.items))
            if isinstance(h, HDict):
                return SNum(len(h.entries))
            if isinstance(h, HObj) and isinstance(h.cls, ClassInfo):
                m = h.cls.find_method("__len__")
                if m is not None:
                    return self.call_function(SFunc(m), [v], {})
            self.raise_("TypeError", "object has no len()")
        if isinstance(v, SProto):
            r = v.py_len(self)
            if r is not NotImplemented:
                return r
        self.raise_("TypeError", "object of type %s has no len()" % (v.pytype(),))

    # ------------------------------------------------------------------------------------------
    # operators
    BINOP_METHODS = {
        ast.Add: ("__add__", "__radd__"),
        ast.Sub: ("__sub__", "__rsub__"),
        ast.Mult: ("__mul__", "__rmul__"),
        ast.Div: ("__truediv__", "__rtruediv__"),
        ast.FloorDiv: ("__floordiv__", "__rfloordiv__"),
        ast.Mod: ("__mod__", "__rmod__"),
        ast.Pow: ("__pow__", "__rpow__"),
    }

    def obj_method(self, v, name):
        if isinstance(v, SRef) and isinstance(v.o, HObj) and isinstance(v.o.cls, ClassInfo):
            return v.o.cls.find_method(name)
        return None

    def binop(self, op, a, b, inplace=False):
        if isinstance(a, SBool) and isinstance(b, (SNum, SBool)):
            a = self.bool_to_num(a)
        if isinstance(b, SBool) and isinstance(a, SNum):
            b = self.bool_to_num(b)
        if isinstance(a, SNum) and isinstance(b, SNum):
            return self.num_binop(op, a, b)
        if inplace and isinstance(a, SProto) and hasattr(a, "py_ibinop"):
            # augmented assignment on a mutable container (ndarray *= k, list += other): the object itself changes
            r = a.py_ibinop(self, op, b)
            if r is not NotImplemented:
                return r
        if isinstance(a, SProto):
            r = a.py_binop(self, op, b, False)
            if r is not NotImplemented:
                return r
        if isinstance(b, SProto):
            r = b.py_binop(self, op, a, True)
            if r is not NotImplemented:
                return r
        # repository objects
        names = self.BINOP_METHODS.get(type(op))
        ma = self.obj_method(a, names[0]) if names else None
        mb = self.obj_method(b, names[1]) if names else None
        if ma is not None or mb is not None:
            order = []
            if ma is not None:
                order.append((ma, a, b))
            if mb is not None and not (
                isinstance(a, SRef) and isinstance(b, SRef) and isinstance(a.o, HObj) and isinstance(b.o, HObj) and a.o.cls is b.o.cls
            ):
                # reflected first when type(b) is a proper subclass of type(a)
                if (
                    ma is not None
                    and isinstance(b.o.cls, ClassInfo)
                    and isinstance(a, SRef)
                    and isinstance(a.o, HObj)
                    and isinstance(a.o.cls, ClassInfo)
                    and b.o.cls.is_subclass_of(a.o.cls.name)
                    and mb is not self.obj_method(a, names[1])
                ):
                    order.insert(0, (mb, b, a))
                else:
                    order.append((mb, b, a))
            for m, x, y in order:
                r = self.call_function(SFunc(m), [x, y], {})
                if r is not SNotImplemented:
                    return r
            self.raise_("TypeError", "unsupported operand type(s)")
        if isinstance(a, SStr) and isinstance(b, SStr) and isinstance(op, ast.Add):
            if a.py is not None and b.py is not None:
                return SStr(a.py + b.py)
            return self.B.str_concat(self, a, b)
        if isinstance(a, SStr) and isinstance(op, ast.Mod):
            return self.B.str_percent(self, a, b)
        if isinstance(op, ast.Add):
            if isinstance(a, STuple) and isinstance(b, STuple):
                return STuple(a.items + b.items)
            if (
                isinstance(a, SRef)
                and isinstance(b, SRef)
                and isinstance(a.o, HList)
                and isinstance(b.o, HList)
            ):
                if inplace:
                    self.P.log_write(a.o, ("extend",))
                    a.o.items.extend(b.o.items)
                    return a
                return SRef(self.P.alloc(HList(a.o.items + b.o.items)))
        if isinstance(op, ast.Mult):
            seq, n = (a, b) if isinstance(b, SNum) else (b, a)
            if isinstance(n, SNum) and (isinstance(seq, STuple) or (isinstance(seq, SRef) and isinstance(seq.o, HList))):
                c = n.concrete()
                if c is None:
                    r = self.B.symbolic_repeat(self, seq, n)
                    if r is not NotImplemented:
                        return r
                    raise OutOfSubset("sequence repeat with symbolic count")
                c = max(0, int(c))
                if isinstance(seq, STuple):
                    return STuple(seq.items * c)
                return SRef(self.P.alloc(HList(seq.o.items * c)))
            if isinstance(seq, SStr) and isinstance(n, SNum) and seq.py is not None and n.concrete() is not None:
                return SStr(seq.py * int(n.concrete()))
        self.raise_("TypeError", "unsupported operand type(s) for %s" % type(op).__name__)

    CMP_METHODS = {
        ast.Lt: ("__lt__", "__gt__"),
        ast.LtE: ("__le__", "__ge__"),
        ast.Gt: ("__gt__", "__lt__"),
        ast.GtE: ("__ge__", "__le__"),
    }

    def find_ordering_method(self, v, name):
        """__lt__ etc. incl. the ones functools.total_ordering installs"""
        if not (isinstance(v, SRef) and isinstance(v.o, HObj) and isinstance(v.o.cls, ClassInfo)):
            return None
        ci = v.o.cls
        m = ci.find_method(name)
        if m is not None:
            return SFunc(m)
        for c in ci.mro():
            if "total_ordering" in c.decorators:
                if c.find_method("__lt__") is not None and name in ("__gt__", "__le__", "__ge__"):
                    bodies = stdlib_total_ordering_bodies()
                    fi = bodies["_%s_from_lt" % name.strip("_")]
                    return SFunc(fi)
                raise OutOfSubset("total_ordering root other than __lt__")
        return None

    def compare(self, op, a, b):
        """returns SVal (usually SBool)"""
        if isinstance(op, ast.Is):
            return mkbool(self.identical(a, b))
        if isinstance(op, ast.IsNot):
            return mkbool(neg(self.identical(a, b)))
        if isinstance(op, ast.In):
            return mkbool(self.contains(b, a))
        if isinstance(op, ast.NotIn):
            return mkbool(neg(self.contains(b, a)))
        if isinstance(op, (ast.Eq, ast.NotEq, ast.Lt, ast.LtE, ast.Gt, ast.GtE)):
            # numpy arrays compare elementwise (a boolean array), with broadcasting
            for x, y, refl in ((a, b, False), (b, a, True)):
                if isinstance(x, SProto) and hasattr(x, "py_array_compare"):
                    r = x.py_array_compare(self, op, y, refl)
                    if r is not NotImplemented:
                        return r
        if isinstance(op, ast.Eq):
            return mkbool(self.equal(a, b))
        if isinstance(op, ast.NotEq):
            # classes defining __ne__ explicitly
            m = self.obj_method(a, "__ne__")
            if m is not None:
                r = self.call_function(SFunc(m), [a, b], {})
                if r is not SNotImplemented:
                    return r
            return mkbool(neg(self.equal(a, b)))
        if isinstance(a, SBool):
            a = self.bool_to_num(a)
        if isinstance(b, SBool):
            b = self.bool_to_num(b)
        if isinstance(a, SNum) and isinstance(b, SNum):
            return mkbool(self.num_cmp(op, a, b))
        if isinstance(a, SProto):
            r = a.py_binop(self, op, b, False)
            if r is not NotImplemented:
                return r
        if isinstance(b, SProto):
            r = b.py_binop(self, op, a, True)
            if r is not NotImplemented:
                return r
        n1, n2 = self.CMP_METHODS[type(op)]
        m = self.find_ordering_method(a, n1)
        if m is not None:
            r = self.call_function(m, [a, b], {})
            if r is not SNotImplemented:
                return r
        m = self.find_ordering_method(b, n2)
        if m is not None:
            r = self.call_function(m, [b, a], {})
            if r is not SNotImplemented:
                return r
        if isinstance(a, SStr) and isinstance(b, SStr) and a.py is not None and b.py is not None:
            return mkbool(
                {ast.Lt: a.py < b.py, ast.LtE: a.py <= b.py, ast.Gt: a.py > b.py, ast.GtE: a.py >= b.py}[type(op)]
            )
        self.raise_("TypeError", "'%s' not supported between these instances" % type(op).__name__)

    # ------------------------------------------------------------------------------------------
    # expressions
    def eval(self, node, frame):
        m = getattr(self, "ex_" + type(node).__name__, None)
        if m is None:
            raise OutOfSubset("expression %s at line %s" % (type(node).__name__, getattr(node, "lineno", "?")))
        return m(node, frame)

    def ex_Constant(self, n, frame):
        v = n.value
        if v is None:
            return SNone
        if isinstance(v, bool):
            return SBool(v)
        if isinstance(v, int):
            return SNum(v)
        if isinstance(v, float):
            return SNum(v)
        if isinstance(v, str):
            return SStr(v)
        if v is Ellipsis:
            return SNone
        raise OutOfSubset("constant %r" % (v,))

    def ex_Name(self, n, frame):
        return self.load_name(n.id, frame)

    def ex_Attribute(self, n, frame):
        return self.getattr(self.eval(n.value, frame), n.attr)

    def ex_Subscript(self, n, frame):
        return self.getitem(self.eval(n.value, frame), self.eval_index(n.slice, frame))

    def ex_Tuple(self, n, frame):
        out = []
        for e in n.elts:
            if isinstance(e, ast.Starred):
                out.extend(self.iterate(self.eval(e.value, frame)))
            else:
                out.append(self.eval(e, frame))
        return STuple(out)

    def ex_List(self, n, frame):
        out = []
        for e in n.elts:
            if isinstance(e, ast.Starred):
                out.extend(self.iterate(self.eval(e.value, frame)))
            else:
                out.append(self.eval(e, frame))
        return SRef(self.P.alloc(HList(out)))

    def ex_Set(self, n, frame):
        return self.B.make_set(self, [self.eval(e, frame) for e in n.elts])

    def ex_Dict(self, n, frame):
        d = self.P.alloc(HDict())
        ref = SRef(d)
        for k, v in zip(n.keys, n.values):
            if k is None:
                raise OutOfSubset("dict unpacking")
            kk = self.eval(k, frame)
            vv = self.eval(v, frame)
            i = self.dict_lookup(d, kk)
            if i is None:
                d.entries.append((kk, vv))
            else:
                d.entries[i] = (d.entries[i][0], vv)
        return ref

    def ex_BoolOp(self, n, frame):
        v = None
        for i, e in enumerate(n.values):
            v = self.eval(e, frame)
            if i == len(n.values) - 1:
                return v
            t = self.is_truthy(v)
            if isinstance(n.op, ast.And) and not t:
                return v
            if isinstance(n.op, ast.Or) and t:
                return v
        return v

    def ex_UnaryOp(self, n, frame):
        v = self.eval(n.operand, frame)
        if isinstance(n.op, ast.Not):
            return mkbool(neg(self.truth(v)))
        if isinstance(n.op, ast.USub):
            if isinstance(v, SNum):
                if v.extended:
                    return SNum(-v.t, v.kind, v.nan, v.ninf, v.pinf)
                return SNum(z3.simplify(-v.t), v.kind)
            m = self.obj_method(v, "__neg__")
            if m is not None:
                return self.call_function(SFunc(m), [v], {})
            if isinstance(v, SProto):
                r = v.py_binop(self, n.op, None, False)
                if r is not NotImplemented:
                    return r
        if isinstance(n.op, ast.UAdd) and isinstance(v, SNum):
            return v
        raise OutOfSubset("unary op")

    def ex_BinOp(self, n, frame):
        a = self.eval(n.left, frame)
        b = self.eval(n.right, frame)
        return self.binop(n.op, a, b)

    def ex_Compare(self, n, frame):
        left = self.eval(n.left, frame)
        if len(n.ops) == 1:
            return self.compare(n.ops[0], left, self.eval(n.comparators[0], frame))
        res = None
        for op, c in zip(n.ops, n.comparators):
            right = self.eval(c, frame)
            res = self.compare(op, left, right)
            if not self.is_truthy(res):
                return res
            left = right
        return res

    def ex_IfExp(self, n, frame):
        if self.is_truthy(self.eval(n.test, frame)):
            return self.eval(n.body, frame)
        return self.eval(n.orelse, frame)

    def ex_Lambda(self, n, frame):
        return SFunc(None, closure=frame, node=n, module=frame.module)

    def ex_Call(self, n, frame):
        # cast(T, e) -> e
        if isinstance(n.func, ast.Name) and n.func.id == "cast" and len(n.args) == 2:
            return self.eval(n.args[1], frame)
        if isinstance(n.func, ast.Name) and n.func.id == "super" and not n.args:
            return self.B.make_super(self, frame)
        f = self.eval(n.func, frame)
        is_exc_ctor = (isinstance(f, SType) and f.name in BUILTIN_EXC) or (
            isinstance(f, SClass) and any(b in BUILTIN_EXC for b in f.ci.base_names())
        )
        args = []
        for a in n.args:
            if isinstance(a, ast.Starred):
                args.extend(self.iterate(self.eval(a.value, frame)))
            elif is_exc_ctor:
                # message arguments: anything the engine cannot model becomes an opaque string
                try:
                    args.append(self.eval(a, frame))
                except OutOfSubset:
                    args.append(OPAQUE)
            else:
                args.append(self.eval(a, frame))
        kwargs = {}
        for kw in n.keywords:
            if kw.arg is None:
                d = self.eval(kw.value, frame)
                if isinstance(d, SRef) and isinstance(d.o, HDict):
                    for k, v in d.o.entries:
                        if not (isinstance(k, SStr) and k.py is not None):
                            raise OutOfSubset("**kwargs with symbolic key")
                        kwargs[k.py] = v
                else:
                    raise OutOfSubset("** of non-dict")
            elif is_exc_ctor:
                try:
                    kwargs[kw.arg] = self.eval(kw.value, frame)
                except OutOfSubset:
                    kwargs[kw.arg] = OPAQUE
            else:
                kwargs[kw.arg] = self.eval(kw.value, frame)
        return self.call(f, args, kwargs)

    def ex_JoinedStr(self, n, frame):
        parts = []
        for v in n.values:
            if isinstance(v, ast.Constant):
                parts.append(SStr(v.value))
            else:
                x = self.eval(v.value, frame)
                conv = {115: "s", 114: "r", 97: "a", -1: None}[v.conversion]
                spec = None
                if v.format_spec is not None:
                    fs = self.ex_JoinedStr(v.format_spec, frame)
                    spec = fs.py
                parts.append(self.B.format_value(self, x, conv, spec))
        return self.B.str_join_parts(self, parts)

    def comprehension(self, n, frame, elt_fn):
        """run nested generators eagerly; elt_fn(frame) is called for every element"""
        cf = Frame(frame.module, outer=frame, fi=frame.fi, locals_set=frozenset())

        def rec(i):
            if i == len(n.generators):
                elt_fn(cf)
                return
            g = n.generators[i]
            it = self.eval(g.iter, cf if i else frame)
            hook = self.P.ghost.get("comp_hook")
            for x in self.iterate_lazy(it):
                self.assign(g.target, x, cf)
                if all(self.is_truthy(self.eval(c, cf)) for c in g.ifs):
                    rec(i + 1)

        rec(0)

    def ex_ListComp(self, n, frame):
        hook = self.P.ghost.get("comp_hook")
        if hook is not None:
            r = hook(self, n, frame)
            if r is not NotImplemented:
                return r
        out = []
        self.comprehension(n, frame, lambda cf: out.append(self.eval(n.elt, cf)))
        return SRef(self.P.alloc(HList(out)))

    def ex_GeneratorExp(self, n, frame):
        hook = self.P.ghost.get("comp_hook")
        if hook is not None:
            r = hook(self, n, frame)
            if r is not NotImplemented:
                return r
        out = []
        self.comprehension(n, frame, lambda cf: out.append(self.eval(n.elt, cf)))
        return SRef(self.P.alloc(HIter(out)))

    def ex_SetComp(self, n, frame):
        out = []
        self.comprehension(n, frame, lambda cf: out.append(self.eval(n.elt, cf)))
        return self.B.make_set(self, out)

    def ex_DictComp(self, n, frame):
        d = self.P.alloc(HDict())

        def add(cf):
            k = self.eval(n.key, cf)
            v = self.eval(n.value, cf)
            i = self.dict_lookup(d, k)
            if i is None:
                d.entries.append((k, v))
            else:
                d.entries[i] = (d.entries[i][0], v)

        self.comprehension(n, frame, add)
        return SRef(d)

    def ex_Starred(self, n, frame):
        raise OutOfSubset("starred expression")


def to_z3b(x):
    if isinstance(x, bool):
        return z3.BoolVal(x)
    return x


def neg(x):
    if isinstance(x, bool):
        return not x
    return z3.Not(x)


def mkbool(x):
    if isinstance(x, SVal):
        return x
    return SBool(x)
