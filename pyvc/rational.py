"""Assumed contract of fractions.Fraction (A11): an exact rational number.  An SRat carries its value
as a z3 Real; numerator / denominator are integers n, d with d > 0 and n = value * d (lowest terms are
not needed for any value-level statement and are not modelled).  Arithmetic and comparisons are those
of the rationals."""
import ast
import z3

from .engine import OutOfSubset, IntS, RealS
from .values import *
from .interp import SProto, to_z3b


class SRat(SProto):
    def __init__(self, P, value):
        self.P = P
        self.value = value
        self._nd = None

    def pytype(self):
        return "fractions.Fraction"

    def nd(self):
        if self._nd is None:
            n, d = self.P.fresh("num", IntS), self.P.fresh("den", IntS)
            self.P.assume(z3.And(d > 0, z3.ToReal(n) == self.value * z3.ToReal(d)), "A11:numerator/denominator of an exact rational")
            self._nd = (n, d)
        return self._nd

    def py_getattr(self, I, name):
        if name == "numerator":
            return SNum(self.nd()[0], "int")
        if name == "denominator":
            return SNum(self.nd()[1], "int")
        raise OutOfSubset("fractions.Fraction.%s" % name)

    def py_truth(self, I):
        return self.value != 0

    def py_eq(self, I, other):
        v = rat_value(other)
        if v is None:
            return NotImplemented
        return self.value == v

    def py_binop(self, I, op, other, reflected):
        if isinstance(op, ast.USub):
            return SRat(self.P, -self.value)
        v = rat_value(other)
        if v is None:
            return NotImplemented
        a, b = (v, self.value) if reflected else (self.value, v)
        if isinstance(op, ast.Add):
            return SRat(self.P, a + b)
        if isinstance(op, ast.Sub):
            return SRat(self.P, a - b)
        if isinstance(op, ast.Mult):
            return SRat(self.P, a * b)
        if isinstance(op, ast.Div):
            if I.P.branch(b == 0):
                I.raise_("ZeroDivisionError", "Fraction division by zero")
            return SRat(self.P, a / b)
        if isinstance(op, (ast.Lt, ast.LtE, ast.Gt, ast.GtE)):
            from .interp import mkbool

            return mkbool({ast.Lt: a < b, ast.LtE: a <= b, ast.Gt: a > b, ast.GtE: a >= b}[type(op)])
        if isinstance(op, ast.Mod):
            if I.P.branch(b == 0):
                I.raise_("ZeroDivisionError", "Fraction modulo by zero")
            q = z3.ToReal(z3.ToInt(a / b))
            return SRat(self.P, a - b * q)
        return NotImplemented

    def py_float(self, I):
        return SNum(self.value, "float")

    def __repr__(self):
        return "SRat(%s)" % self.value


def rat_value(v):
    if isinstance(v, SRat):
        return v.value
    if isinstance(v, SNum) and not v.extended:
        return v.real()
    return None


def make_fraction(I, a, k):
    """fractions.Fraction(n) / Fraction(n, d)"""
    P = I.P
    if len(a) == 1:
        v = rat_value(a[0])
        if v is None:
            raise OutOfSubset("fractions.Fraction(%r)" % (a[0],))
        return SRat(P, v)
    n, d = rat_value(a[0]), rat_value(a[1])
    if n is None or d is None:
        raise OutOfSubset("fractions.Fraction(%r, %r)" % (a[0], a[1]))
    if P.branch(d == 0):
        I.raise_("ZeroDivisionError", "Fraction(%s, 0)")
    return SRat(P, n / d)


def install(I):
    I.ext = dict(I.ext)
    I.ext["fractions.Fraction"] = SBuiltin("fractions.Fraction", make_fraction)
