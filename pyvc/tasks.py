"""Work units of a property check, run on a fork pool."""
import os
import time
import traceback
import multiprocessing as mp


class TaskResult:
    def __init__(self, name):
        self.name = name
        self.obligations = []  # list of dict (Obligation.to_dict() + optional 'replay')
        self.functions = []  # meta dicts of functions under contract
        self.bounded = []  # bounded stand-in reports
        self.notes = []
        self.error = None
        self.wall_s = 0.0
        self.extra = {}

    def to_dict(self):
        return self.__dict__


TASKS = {}  # name -> callable(tier, **kw) -> TaskResult


def task(name):
    def deco(fn):
        TASKS[name] = fn
        return fn

    return deco


def _run_one(args):
    name, kw, tier = args
    t0 = time.time()
    try:
        r = TASKS[name](tier=tier, **kw)
    except Exception:
        r = TaskResult(name)
        r.error = traceback.format_exc()
    r.wall_s = time.time() - t0
    return r.to_dict()


def run_tasks(tasklist, tier, procs=None):
    """tasklist: [(task name, kwargs)] ; returns list of TaskResult dicts in order"""
    procs = procs or min(16, os.cpu_count() or 1, max(1, len(tasklist)))
    jobs = [(n, kw, tier) for n, kw in tasklist]
    if procs == 1 or len(jobs) == 1 or os.environ.get("PYVC_SERIAL"):
        return [_run_one(j) for j in jobs]
    ctx = mp.get_context("fork")
    with ctx.Pool(procs) as pool:
        return pool.map(_run_one, jobs, chunksize=1)
