"""Path exploration by re-execution with a decision log, solver plumbing, obligations.

One *path* is one complete run of a (symbolic) function.  Every data-dependent choice goes through
``Path.branch``; the explorer re-runs the function once per feasible decision vector.  Because a run
follows exactly one path, object-level exceptions can be host exceptions (``PyRaise``) without
losing sibling paths.
"""
import time
import z3

# ------------------------------------------------------------------------------------------------
# sorts and global symbols
NameS = z3.DeclareSort("Name")
FnS = z3.DeclareSort("Fn")
RealS = z3.RealSort()
IntS = z3.IntSort()
BoolS = z3.BoolSort()
app = z3.Function("app", FnS, RealS, RealS)  # application of an abstract conversion function
fixf = z3.Function("fix", NameS, NameS)  # FixUnitIfIsLegacy's rewriting, abstract
code = z3.Function("code", NameS, IntS)  # injective numbering of literal names (keeps them distinct)
upow = z3.Function("upow", RealS, RealS, RealS)  # math.pow, uninterpreted

_lits = {}


def lit_index(s):
    if s not in _lits:
        _lits[s] = len(_lits)
    return _lits[s]


def lit(s):
    lit_index(s)
    return z3.Const("lit!%s" % s, NameS)


def lit_axioms(terms):
    """code(lit_s) = index for every literal constant occurring in terms."""
    seen = set()
    out = []

    def walk(t):
        if t.get_id() in seen:
            return
        seen.add(t.get_id())
        if z3.is_const(t) and t.decl().kind() == z3.Z3_OP_UNINTERPRETED:
            n = t.decl().name()
            if n.startswith("lit!"):
                out.append(code(t) == lit_index(n[4:]))
        for c in t.children():
            walk(c)

    for t in terms:
        walk(t)
    return out


class Infeasible(Exception):
    pass


class OutOfSubset(Exception):
    """The code uses something the interpreter does not model: the obligation is undecided."""


class Budget(Exception):
    pass


class PyRaise(Exception):
    """Object-level exception propagating through the interpreted program."""

    def __init__(self, exc):
        Exception.__init__(self, repr(exc))
        self.exc = exc


def to_bool(t):
    if isinstance(t, bool):
        return z3.BoolVal(t)
    return t


def is_true(t):
    return isinstance(t, bool) and t or (z3.is_expr(t) and z3.is_true(t))


def is_false(t):
    return (isinstance(t, bool) and not t) or (z3.is_expr(t) and z3.is_false(t))


SOLVER_TIMEOUT_MS = 10000


class Path:
    def __init__(self, prefix, stats):
        self.prefix = list(prefix)
        self.pos = 0
        self.decisions = []
        self.alternatives = []
        self.pc = []  # list of z3 BoolRef (assumptions + branch conditions)
        self.assumed = []  # (tag, formula) : requires / invariant instances / callee posts
        self.solver = z3.Solver()
        self.solver.set("timeout", SOLVER_TIMEOUT_MS)
        self.fresh_counter = 0
        self.heap = {}
        self.next_oid = 1
        self.writes = []  # (oid, region, what)
        self.notes = []
        self.stats = stats
        self.lits_done = set()
        self.ghost = {}  # free-form per-path ghost state (registry arrays, db object, singletons ...)
        self.call_depth = 0
        self.steps = 0
        self.obligs = []  # obligations produced while running (callee preconditions, safety)

    # -- symbols ---------------------------------------------------------------------------------
    def fresh(self, base, sort):
        self.fresh_counter += 1
        return z3.Const("%s!%d" % (base, self.fresh_counter), sort)

    def _add(self, f):
        f = to_bool(f)
        for ax in lit_axioms([f]):
            k = ax.get_id()
            if k not in self.lits_done:
                self.lits_done.add(k)
                self.solver.add(ax)
                self.pc.append(ax)
        self.solver.add(f)
        self.pc.append(f)

    def assume(self, f, tag="assume"):
        if is_true(f):
            return
        self.assumed.append((tag, f))
        self._add(f)

    def check(self, *extra):
        """sat / unsat / unknown of pc ∧ extra"""
        t0 = time.time()
        self.solver.push()
        try:
            for e in extra:
                e = to_bool(e)
                for ax in lit_axioms([e]):
                    self.solver.add(ax)
                self.solver.add(e)
            r = self.solver.check()
        finally:
            self.solver.pop()
        self.stats["solver_calls"] = self.stats.get("solver_calls", 0) + 1
        self.stats["solver_s"] = self.stats.get("solver_s", 0.0) + (time.time() - t0)
        return r

    def feasible(self, f):
        return self.check(f) != z3.unsat

    def valid(self, f):
        """pc ⇒ f is proved"""
        return self.check(z3.Not(to_bool(f))) == z3.unsat

    # -- choices ---------------------------------------------------------------------------------
    def branch(self, cond, generic=True):
        """Python-level bool for a symbolic condition; forks the exploration."""
        if isinstance(cond, bool):
            return cond
        cond = z3.simplify(cond)
        if z3.is_true(cond):
            return True
        if z3.is_false(cond):
            return False
        gen = None
        gh = self.ghost.get("generic_branch_hook")
        if gh is not None and generic:
            gen = gh(self, cond)
        if self.pos < len(self.prefix):
            d = self.prefix[self.pos]
        else:
            can_t = self.feasible(cond)
            can_f = self.feasible(z3.Not(cond))
            if can_t and can_f:
                self.alternatives.append(self.decisions + [False])
                d = True
            elif can_t:
                d = True
            elif can_f:
                d = False
            else:
                raise Infeasible()
        self.pos += 1
        self.decisions.append(d)
        self._add(cond if d else z3.Not(cond))
        if gen is not None:
            # element-dependent branch inside a generic loop iteration (pyvc/loops.py)
            if d:
                gen.exists = True
            else:
                gen.forall.append(z3.Not(cond))
        return d

    def choose(self, conds):
        """index of the first condition taken (n-way fork); conds should be exhaustive."""
        for i, c in enumerate(conds[:-1]):
            if self.branch(c):
                return i
        last = conds[-1]
        if not is_true(last):
            # the last guard is the complement of the others (cases are exhaustive): no new reading
            if not self.branch(last, generic=False):
                raise Infeasible()
        return len(conds) - 1

    # -- heap ------------------------------------------------------------------------------------
    def alloc(self, obj):
        oid = self.next_oid
        self.next_oid += 1
        obj.oid = oid
        self.heap[oid] = obj
        return obj

    def log_write(self, obj, what):
        self.writes.append((obj, what))

    def tick(self):
        self.steps += 1
        if self.steps > 400000:
            raise Budget("step budget exceeded")


class PathResult:
    def __init__(self, path, outcome, info=None):
        self.path = path
        self.outcome = outcome  # ("return", value) | ("raise", SExc) | ("oos", msg)
        self.info = info


class Explorer:
    def __init__(self, max_paths=8000):
        self.max_paths = max_paths
        self.stats = {}

    def run(self, fn):
        """fn(path) -> outcome ; returns list[PathResult]"""
        work = [[]]
        results = []
        while work:
            prefix = work.pop()
            path = Path(prefix, self.stats)
            try:
                out = fn(path)
            except Infeasible:
                self.stats["infeasible"] = self.stats.get("infeasible", 0) + 1
                work.extend(path.alternatives)
                continue
            except OutOfSubset as e:
                out = ("oos", str(e))
            except Budget as e:
                out = ("oos", "budget: %s" % e)
            except RecursionError:
                out = ("oos", "host recursion limit")
            results.append(PathResult(path, out))
            work.extend(path.alternatives)
            if len(results) > self.max_paths:
                results.append(PathResult(path, ("oos", "path budget %d exceeded" % self.max_paths)))
                break
        return results


# ------------------------------------------------------------------------------------------------
# obligations


class Obligation:
    __slots__ = ("name", "props", "status", "ms", "model", "detail", "kind", "smt_size", "line", "backend")

    def __init__(self, name, props=(), kind="post"):
        self.name = name
        self.props = tuple(props)
        self.status = None  # discharged | refuted | unknown | oos
        self.ms = 0.0
        self.model = None
        self.detail = ""
        self.kind = kind
        self.smt_size = 0
        self.line = None
        self.backend = "z3"

    def to_dict(self):
        return {
            "name": self.name,
            "props": list(self.props),
            "status": self.status,
            "ms": round(self.ms, 3),
            "model": self.model,
            "detail": self.detail,
            "kind": self.kind,
            "smt_size": self.smt_size,
            "backend": self.backend,
        }


def model_to_dict(m, limit=60):
    out = {}
    try:
        for d in m.decls()[:limit]:
            v = m[d]
            s = str(v)
            if len(s) > 200:
                s = s[:200] + "..."
            out[d.name()] = s
    except Exception as e:  # pragma: no cover
        out["<error>"] = str(e)
    return out


USE_CVC5_FALLBACK = True


def discharge(path, goal, ob, timeout_ms=None, want_smt=False):
    """Decide pc ⇒ goal.  Sets ob.status / ob.model."""
    t0 = time.time()
    goal = to_bool(goal)
    if is_true(goal):
        ob.status = "discharged"
        ob.detail = "trivial"
        return ob
    s = path.solver
    s.push()
    try:
        if timeout_ms:
            s.set("timeout", timeout_ms)
        neg = z3.Not(goal)
        for ax in lit_axioms([neg]):
            s.add(ax)
        s.add(neg)
        r = s.check()
        try:
            ob.smt_size = len(s.sexpr())
        except Exception:
            pass
        if r == z3.unsat:
            ob.status = "discharged"
        elif r == z3.sat:
            ob.status = "refuted"
            ob.model = model_to_dict(s.model())
        else:
            ob.status = "unknown"
            ob.detail = "z3: %s" % s.reason_unknown()
            # unknown is usually a nonlinear / quantified query that is sensitive to the seed and to
            # load: retry on fresh solvers with other seeds and a longer budget before giving up
            asserts = list(s.assertions())
            for k, tmo in ((11, 20000), (23, 40000)):
                s2 = z3.Solver()
                s2.set("timeout", tmo)
                s2.set("random_seed", k)
                s2.add(*asserts)
                r2 = s2.check()
                if r2 == z3.unsat:
                    ob.status = "discharged"
                    ob.detail = "z3 (retry with seed %d)" % k
                    break
                if r2 == z3.sat:
                    ob.status = "refuted"
                    ob.model = model_to_dict(s2.model())
                    ob.detail = "z3 (retry with seed %d)" % k
                    break
            if ob.status == "unknown" and USE_CVC5_FALLBACK:
                r2 = cvc5_check(s.sexpr())
                if r2 == "unsat":
                    ob.status = "discharged"
                    ob.backend = "cvc5"
                elif r2 == "sat":
                    ob.status = "refuted"
                    ob.backend = "cvc5"
                    ob.detail += "; cvc5: sat"
    finally:
        s.pop()
        if timeout_ms:
            s.set("timeout", SOLVER_TIMEOUT_MS)
    ob.ms = (time.time() - t0) * 1000.0
    return ob


def cvc5_check(smt2_text, timeout_s=60):
    """Independent back end: feed the SMT-LIB text z3 printed to /usr/bin/cvc5."""
    import subprocess, tempfile, os

    text = "(set-logic ALL)\n" + smt2_text + "\n(check-sat)\n"
    with tempfile.NamedTemporaryFile("w", suffix=".smt2", delete=False) as f:
        f.write(text)
        fn = f.name
    try:
        p = subprocess.run(
            ["/usr/bin/cvc5", "--tlimit=%d" % (timeout_s * 1000), fn],
            capture_output=True,
            text=True,
            timeout=timeout_s + 5,
        )
        out = p.stdout.strip().split("\n")[0] if p.stdout.strip() else ""
        if out in ("sat", "unsat"):
            return out
        return "unknown"
    except Exception:
        return "unknown"
    finally:
        os.unlink(fn)
