"""Symbolic model of the unit registry: the three dictionaries of UnitDatabase (plus the memo) as
views over z3 arrays keyed by Name.  Reading an entry instantiates the registry invariant WF for
that key (quantifier-free, "invariants at the point of use"); the instantiated facts are tagged in
Path.assumed so that a report can list which parts of WF a proof used."""
import ast
import z3

from .engine import NameS, FnS, RealS, IntS, BoolS, app, fixf, lit, PyRaise, OutOfSubset, is_true, is_false
from .values import *
from .interp import SProto, Frame, to_z3b, _Return, _Break

A = z3.ArraySort

ident = z3.Const("ident", FnS)  # identity conversion (AddUnitBase); axiom: app(ident, x) = x

UNKNOWN_QT = "Unknown"
UNKNOWN_UNIT = "<unknown>"


def ident_axiom():
    x = z3.Real("x!id")
    return z3.ForAll([x], app(ident, x) == x)


FIELDS = [
    # units
    ("U_dom", A(NameS, BoolS)),
    ("U_qt", A(NameS, NameS)),
    ("U_nm", A(NameS, NameS)),
    ("U_tb", A(NameS, FnS)),
    ("U_fb", A(NameS, FnS)),
    ("U_dc_none", A(NameS, BoolS)),
    ("U_dc", A(NameS, NameS)),
    ("U_pos", A(NameS, IntS)),  # ghost: position of the unit inside its quantity type's list
    # quantity types
    ("Q_dom", A(NameS, BoolS)),
    ("Q_len", A(NameS, IntS)),
    ("Q_at", A(NameS, A(IntS, NameS))),
    ("Q_mem", A(NameS, A(NameS, BoolS))),  # ghost: membership view of the list (n ∈ quantity_types[q])
    # categories
    ("C_dom", A(NameS, BoolS)),
    ("C_qt", A(NameS, NameS)),
    ("C_du", A(NameS, NameS)),
    ("C_vu_none", A(NameS, BoolS)),
    ("C_vu_len", A(NameS, IntS)),
    ("C_vu_at", A(NameS, A(IntS, NameS))),
    ("C_vu_mem", A(NameS, A(NameS, BoolS))),  # membership view of valid_units (== valid_units_set)
    ("C_dv", A(NameS, RealS)),
    ("C_min_none", A(NameS, BoolS)),
    ("C_min", A(NameS, RealS)),
    ("C_max_none", A(NameS, BoolS)),
    ("C_max", A(NameS, RealS)),
    ("C_minex", A(NameS, BoolS)),
    ("C_maxex", A(NameS, BoolS)),
    ("C_cap", A(NameS, NameS)),
    # memo of CheckCategoryUnit
    ("M_dom", A(NameS, A(NameS, BoolS))),
    ("M_val", A(NameS, A(NameS, BoolS))),
]


class Reg:
    """registry state of one path (array terms are replaced on writes)"""

    def __init__(self, P, tag="R", inv=("W1", "W2", "W3", "CC", "F1")):
        self.P = P
        self.tag = tag
        self.inv = set(inv)
        for n, s in FIELDS:
            setattr(self, n, z3.Const("%s!%s" % (tag, n), s))
        self.writes = []  # (field group, key, description)
        self.instantiated = set()
        # the invariants are facts about the state the function is *entered* with (they need not
        # hold between two writes of a mutator): instances are always taken on this snapshot
        self.pre = {n: getattr(self, n) for n, _ in FIELDS}

    def snapshot(self):
        return {n: getattr(self, n) for n, _ in FIELDS}

    # -- spec-level predicates -------------------------------------------------------------------
    def hit(self, q, u, st=None):
        st = st or self.snapshot()
        return z3.And(z3.Select(st["U_dom"], u), z3.Select(st["U_qt"], u) == q)

    def qt_of(self, n, st=None):
        st = st or self.snapshot()
        return z3.If(z3.Select(st["C_dom"], n), z3.Select(st["C_qt"], n), n)

    # -- invariant instances ---------------------------------------------------------------------
    def inst(self, name, *keys):
        k = (name,) + tuple(x.get_id() if z3.is_expr(x) else x for x in keys)
        if k in self.instantiated:
            return
        self.instantiated.add(k)
        f = getattr(self, "inv_" + name)(*keys, st=self.pre)
        if f is not None:
            self.P.assume(f, "inv:%s" % name)

    def inv_W1a(self, u, st=None):
        """a registered unit is listed, at its ghost position, in its quantity type"""
        if "W1" not in self.inv:
            return None
        st = st or self.snapshot()
        q = z3.Select(st["U_qt"], u)
        p = z3.Select(st["U_pos"], u)
        return z3.Implies(
            z3.Select(st["U_dom"], u),
            z3.And(
                z3.Select(st["Q_dom"], q),
                p >= 0,
                p < z3.Select(st["Q_len"], q),
                z3.Select(z3.Select(st["Q_at"], q), p) == u,
            ),
        )

    def inv_W1b(self, q, i, st=None):
        """a listed unit is registered under that quantity type at that position"""
        if "W1" not in self.inv:
            return None
        st = st or self.snapshot()
        u = z3.Select(z3.Select(st["Q_at"], q), i)
        return z3.Implies(
            z3.And(z3.Select(st["Q_dom"], q), i >= 0, i < z3.Select(st["Q_len"], q)),
            z3.And(z3.Select(st["U_dom"], u), z3.Select(st["U_qt"], u) == q, z3.Select(st["U_pos"], u) == i),
        )

    def inv_W1c(self, q, n, st=None):
        """membership view: n is listed under q  ⇔  n is registered with quantity type q"""
        if "W1" not in self.inv:
            return None
        st = st or self.snapshot()
        return z3.Select(z3.Select(st["Q_mem"], q), n) == z3.And(z3.Select(st["Q_dom"], q), z3.Select(st["U_dom"], n), z3.Select(st["U_qt"], n) == q)

    def inv_W2(self, q, st=None):
        """a quantity type has a first-listed unit whose conversions are identities"""
        if "W2" not in self.inv:
            return z3.Implies(z3.Select((st or self.snapshot())["Q_dom"], q), z3.Select((st or self.snapshot())["Q_len"], q) >= 0)
        st = st or self.snapshot()
        b = z3.Select(z3.Select(st["Q_at"], q), 0)
        return z3.Implies(
            z3.Select(st["Q_dom"], q),
            z3.And(
                z3.Select(st["Q_len"], q) >= 1,
                z3.Select(st["U_tb"], b) == ident,
                z3.Select(st["U_fb"], b) == ident,
            ),
        )

    def inv_Qlen(self, q, st=None):
        st = st or self.snapshot()
        return z3.Select(st["Q_len"], q) >= 0

    def inv_W3(self, c, st=None):
        """a category refers to an existing quantity type, its default unit belongs to it, its
        limits are ordered and its default value is inside them"""
        if "W3" not in self.inv:
            return None
        st = st or self.snapshot()
        q = z3.Select(st["C_qt"], c)
        du = z3.Select(st["C_du"], c)
        mn, mx = z3.Select(st["C_min"], c), z3.Select(st["C_max"], c)
        mnn, mxn = z3.Select(st["C_min_none"], c), z3.Select(st["C_max_none"], c)
        dv = z3.Select(st["C_dv"], c)
        lim = z3.And(
            z3.Implies(z3.And(z3.Not(mnn), z3.Not(mxn)), mn <= mx),
            z3.Implies(z3.Not(mnn), z3.If(z3.Select(st["C_minex"], c), dv > mn, dv >= mn)),
            z3.Implies(z3.Not(mxn), z3.If(z3.Select(st["C_maxex"], c), dv < mx, dv <= mx)),
        )
        return z3.Implies(
            z3.Select(st["C_dom"], c),
            z3.And(
                z3.Select(st["Q_dom"], q),
                z3.Select(st["U_dom"], du),
                z3.Select(st["U_qt"], du) == q,
                z3.Select(st["C_vu_len"], c) >= 0,
                lim,
            ),
        )

    def inv_W3vu(self, c, i, st=None):
        """every listed valid unit belongs to the category's quantity type and is in the set view"""
        if "W3" not in self.inv:
            return None
        st = st or self.snapshot()
        u = z3.Select(z3.Select(st["C_vu_at"], c), i)
        return z3.Implies(
            z3.And(z3.Select(st["C_dom"], c), z3.Not(z3.Select(st["C_vu_none"], c)), i >= 0, i < z3.Select(st["C_vu_len"], c)),
            z3.And(
                z3.Select(st["U_dom"], u),
                z3.Select(st["U_qt"], u) == z3.Select(st["C_qt"], c),
                z3.Select(z3.Select(st["C_vu_mem"], c), u),
            ),
        )

    def inv_F1(self, u, st=None):
        """registered unit symbols are fix-points of the legacy rewriting"""
        if "F1" not in self.inv:
            return None
        st = st or self.snapshot()
        return z3.Implies(z3.Select(st["U_dom"], u), fixf(u) == u)

    def valid(self, c, u, st=None):
        """spec: CheckCategoryUnit accepts (c,u)  (GetInfo with fix_unknown=False, fix_legacy=False)"""
        st = st or self.snapshot()
        q = z3.Select(st["C_qt"], c)
        q2 = self.qt_of(q, st)
        return z3.And(
            z3.Select(st["C_dom"], c),
            z3.Or(self.hit(q, u, st), z3.And(z3.Select(st["Q_dom"], q2), self.hit(q2, u, st))),
        )

    def inv_CC(self, c, u, st=None):
        if "CC" not in self.inv:
            return None
        st = st or self.snapshot()
        return z3.Implies(
            z3.Select(z3.Select(st["M_dom"], c), u),
            z3.Select(z3.Select(st["M_val"], c), u) == self.valid(c, u, st),
        )

    def on_unit(self, u):
        self.inst("W1a", u)
        self.inst("F1", u)
        q = z3.Select(self.U_qt, u)
        self.inst("Qlen", q)
        self.inst("W1c", q, u)

    def on_qt(self, q):
        self.inst("W2", q)
        self.inst("Qlen", q)
        self.inst("W1b", q, z3.IntVal(0))
        b = z3.Select(z3.Select(self.Q_at, q), 0)
        self.inst("F1", b)

    def on_cat(self, c):
        self.inst("W3", c)
        du = z3.Select(self.C_du, c)
        self.inst("W1a", du)
        self.inst("F1", du)
        q = z3.Select(self.C_qt, c)
        self.inst("W2", q)
        self.inst("Qlen", q)

    def touch(self, *names):
        """instantiate the invariants for names that enter a function as arguments (a name may be a
        unit, a category or a quantity type)"""
        for n in names:
            self.inst("W1a", n)
            self.inst("F1", n)
            self.inst("F1", fixf(n))
            self.inst("W1a", fixf(n))
            self.inst("W3", n)
            self.inst("W2", n)
            self.inst("Qlen", n)

    def set(self, field, value, what):
        setattr(self, field, value)
        self.writes.append((field, what))


def name_of(I, v, what="key"):
    if isinstance(v, SStr):
        return v.name
    return None


# ------------------------------------------------------------------------------------------------
# views


class RegView(SProto):
    region = "db.registry"

    def __init__(self, reg):
        self.reg = reg

    def py_is(self, I, other):
        return self is other

    def py_eq(self, I, other):
        return NotImplemented


class RegInfo(RegView):
    """a UnitInfo stored in the registry; identity = its key"""

    pytype_name = "UnitInfo"

    def __init__(self, reg, key):
        RegView.__init__(self, reg)
        self.key = key

    def pytype(self):
        from .extract import get_repo

        return get_repo().cls("barril.units.unit_database:UnitInfo")

    def py_getattr(self, I, name):
        R, k = self.reg, self.key
        if name == "unit":
            return sname(k)
        if name == "quantity_type":
            return sname(z3.Select(R.U_qt, k))
        if name == "name":
            return sname(z3.Select(R.U_nm, k))
        if name == "tobase":
            return SFn(z3.Select(R.U_tb, k))
        if name == "frombase":
            return SFn(z3.Select(R.U_fb, k))
        if name == "default_category":
            if I.P.branch(z3.Select(R.U_dc_none, k)):
                return SNone
            return sname(z3.Select(R.U_dc, k))
        if name == "__class__":
            return SClass(self.pytype())
        ci = self.pytype()
        r = I.class_attr(ci, name, instance=self)
        if r is not None:
            return r
        I.raise_("AttributeError", name)

    def py_setattr(self, I, name, v):
        self.reg.writes.append(("U", "setattr %s" % name))
        raise OutOfSubset("write to a registered UnitInfo (%s)" % name)

    def py_is(self, I, other):
        if isinstance(other, RegInfo):
            return self.key == other.key
        return False

    def py_eq(self, I, other):
        # UnitInfo.__eq__ compares .unit
        if isinstance(other, RegInfo):
            return self.key == other.key
        return NotImplemented


class RegU(RegView):
    """unit_to_unit_info"""

    pytype_name = "dict"

    def py_getitem(self, I, k):
        n = name_of(I, k)
        if n is None:
            raise PyRaise(I.exc("KeyError", k))
        R = self.reg
        if I.P.branch(z3.Select(R.U_dom, n)):
            R.on_unit(n)
            return RegInfo(R, n)
        raise PyRaise(I.exc("KeyError", k))

    def py_contains(self, I, k):
        n = name_of(I, k)
        if n is None:
            I.check_hashable(k)
            return False
        return z3.Select(self.reg.U_dom, n)

    def py_setitem(self, I, k, v):
        n = name_of(I, k)
        if n is None:
            raise OutOfSubset("non-string unit key")
        R = self.reg
        if not (isinstance(v, SRef) and isinstance(v.o, HObj) and v.o.cls.name == "UnitInfo"):
            raise OutOfSubset("unit_to_unit_info[...] = non-UnitInfo")
        f = v.o.fields
        store_info(I, R, n, f)
        R.writes.append(("U", n))
        v.o.registered_as = n

    def py_getattr(self, I, name):
        R = self.reg
        if name == "clear":
            def clear(I, a, k):
                R.set("U_dom", z3.K(NameS, z3.BoolVal(False)), "clear")
                return SNone

            return SBuiltin("RegU.clear", clear)
        if name == "keys":
            return SBuiltin("RegU.keys", lambda I, a, k: OpaqueSeq("unit keys"))
        if name == "get":
            def get(I, a, k):
                try:
                    return self.py_getitem(I, a[0])
                except PyRaise as e:
                    if e.exc.o.clsname() == "KeyError":
                        return a[1] if len(a) > 1 else SNone
                    raise

            return SBuiltin("RegU.get", get)
        raise OutOfSubset("unit_to_unit_info.%s" % name)


def fn_term(I, v):
    """Fn term for a conversion function value being stored in the registry"""
    if isinstance(v, SFn):
        return v.t
    if isinstance(v, SFunc):
        t = I.P.fresh("fn", FnS)
        I.P.ghost.setdefault("fn_defs", {})[t.get_id()] = (t, v)
        return t
    raise OutOfSubset("conversion function of kind %r" % (v,))


def store_info(I, R, n, f):
    def nm(x, what):
        if isinstance(x, SStr):
            return x.name
        raise OutOfSubset("UnitInfo.%s is not a string" % what)

    R.U_dom = z3.Store(R.U_dom, n, z3.BoolVal(True))
    R.U_qt = z3.Store(R.U_qt, n, nm(f["quantity_type"], "quantity_type"))
    R.U_nm = z3.Store(R.U_nm, n, nm(f["name"], "name"))
    R.U_tb = z3.Store(R.U_tb, n, fn_term(I, f["tobase"]))
    R.U_fb = z3.Store(R.U_fb, n, fn_term(I, f["frombase"]))
    dc = f["default_category"]
    R.U_dc_none = z3.Store(R.U_dc_none, n, z3.BoolVal(dc is SNone))
    if dc is not SNone:
        R.U_dc = z3.Store(R.U_dc, n, nm(dc, "default_category"))
    # the object's own .unit field must be the key for W1 (checked by the contract of AddUnit)
    R.last_stored_unit_field = f["unit"]


class OpaqueSeq(SProto):
    """a collection whose content only flows into messages (sorted(...keys()))"""

    pytype_name = "list"
    opaque_seq = True

    def __init__(self, what):
        self.what = what

    def py_iter(self, I):
        raise OutOfSubset("iteration over %s" % self.what)

    def comp_view(self, I, n, frame):
        """a comprehension / generator expression over such a collection whose element expression and
        conditions are pure (no calls): again a collection whose content only flows into messages"""
        for g in n.generators:
            for e in [n.elt] + list(g.ifs):
                for x in ast.walk(e):
                    if isinstance(x, (ast.Call, ast.Yield, ast.YieldFrom, ast.Await, ast.Lambda, ast.NamedExpr)):
                        raise OutOfSubset("comprehension over %s with calls in it (line %d)" % (self.what, n.lineno))
        if len(n.generators) != 1:
            raise OutOfSubset("nested comprehension over %s" % self.what)
        return OpaqueSeq("text built from " + self.what)

    def py_getattr(self, I, name):
        raise OutOfSubset("%s.%s" % (self.what, name))


class RegQ(RegView):
    """quantity_types"""

    pytype_name = "dict"

    def py_getitem(self, I, k):
        n = name_of(I, k)
        if n is None:
            I.check_hashable(k)
            raise PyRaise(I.exc("KeyError", k))
        R = self.reg
        if I.P.branch(z3.Select(R.Q_dom, n)):
            R.on_qt(n)
            return RegQList(R, n)
        raise PyRaise(I.exc("KeyError", k))

    def py_contains(self, I, k):
        n = name_of(I, k)
        if n is None:
            I.check_hashable(k)
            return False
        return z3.Select(self.reg.Q_dom, n)

    def py_iter(self, I):
        raise OutOfSubset("iteration over quantity_types")

    def py_getattr(self, I, name):
        R = self.reg
        if name == "keys":
            return SBuiltin("RegQ.keys", lambda I, a, k: OpaqueSeq("quantity type keys"))
        if name == "values":
            return SBuiltin("RegQ.values", lambda I, a, k: OpaqueSeq("quantity type lists"))
        if name == "setdefault":
            def setdefault(I, a, k):
                n = name_of(I, a[0])
                if n is None:
                    raise OutOfSubset("non-string quantity type key")
                if I.P.branch(z3.Select(R.Q_dom, n)):
                    R.on_qt(n)
                    return RegQList(R, n)
                d = a[1]
                if not (isinstance(d, SRef) and isinstance(d.o, HList) and not d.o.items):
                    raise OutOfSubset("setdefault default is not an empty list")
                R.Q_dom = z3.Store(R.Q_dom, n, z3.BoolVal(True))
                R.Q_len = z3.Store(R.Q_len, n, z3.IntVal(0))
                R.Q_mem = z3.Store(R.Q_mem, n, z3.K(NameS, z3.BoolVal(False)))
                R.writes.append(("Q", n))
                return RegQList(R, n)

            return SBuiltin("RegQ.setdefault", setdefault)
        if name == "clear":
            def clear(I, a, k):
                R.set("Q_dom", z3.K(NameS, z3.BoolVal(False)), "clear")
                return SNone

            return SBuiltin("RegQ.clear", clear)
        raise OutOfSubset("quantity_types.%s" % name)


def for_linear_search(I, st, frame, generic, member, pick):
    """Linear-search rule for ``for x in L: if P(x): <exit>`` with P(x) ⇔ key(x) == t.

    generic(k): element view for key k;  member(t): formula 't is the key of an element of L';
    Returns True if handled."""
    if not (len(st.body) == 1 and isinstance(st.body[0], ast.If) and not st.body[0].orelse):
        return False
    ifst = st.body[0]
    if not ifst.body or not isinstance(ifst.body[-1], (ast.Return, ast.Break)):
        return False
    if not isinstance(st.target, ast.Name):
        return False
    kstar = I.P.fresh("k*", NameS)
    saved = dict(frame.vars)
    frame.vars[st.target.id] = generic(kstar)
    ndec = len(I.P.decisions)
    try:
        tv = I.eval(ifst.test, frame)
    finally:
        frame.vars.clear()
        frame.vars.update(saved)
    if len(I.P.decisions) != ndec:
        raise OutOfSubset("search predicate forks (line %d)" % st.lineno)
    cond = I.truth(tv)
    if isinstance(cond, bool):
        raise OutOfSubset("search predicate is constant (line %d)" % st.lineno)
    cond = z3.simplify(cond)
    t = None
    if z3.is_eq(cond):
        a, b = cond.children()
        if a.eq(kstar) and not _occurs(kstar, b):
            t = b
        elif b.eq(kstar) and not _occurs(kstar, a):
            t = a
    if t is None:
        raise OutOfSubset("search predicate at line %d is not 'key == term': %s" % (st.lineno, cond))
    if I.P.branch(member(t)):
        frame.vars[st.target.id] = pick(t)
        try:
            I.exec_block(st.body, frame)
        except _Break:
            return True
        raise OutOfSubset("search body did not leave the loop (line %d)" % st.lineno)
    else:
        I.exec_block(st.orelse, frame)
    return True


def _occurs(k, t):
    if t.eq(k):
        return True
    return any(_occurs(k, c) for c in t.children())


class RegQList(RegView):
    """quantity_types[qt] : list of UnitInfo"""

    pytype_name = "list"

    def __init__(self, reg, qt):
        RegView.__init__(self, reg)
        self.qt = qt

    def py_is(self, I, other):
        if isinstance(other, RegQList):
            return self.qt == other.qt
        return False

    def py_len(self, I):
        return SNum(z3.Select(self.reg.Q_len, self.qt), "int")

    def elem(self, I, i):
        R = self.reg
        R.inst("W1b", self.qt, i)
        u = z3.Select(z3.Select(R.Q_at, self.qt), i)
        R.on_unit(u)
        return RegInfo(R, u)

    def py_getitem(self, I, k):
        if isinstance(k, tuple):
            raise OutOfSubset("slice of a registry list")
        if not isinstance(k, SNum):
            I.raise_("TypeError", "list indices must be integers")
        R = self.reg
        n = z3.Select(R.Q_len, self.qt)
        i = k.t
        if I.P.branch(z3.And(i >= 0, i < n)):
            return self.elem(I, i)
        if I.P.branch(z3.And(i < 0, i >= -n)):
            return self.elem(I, n + i)
        I.raise_("IndexError", "list index out of range")

    def py_delitem(self, I, k):
        R = self.reg
        n = z3.Select(R.Q_len, self.qt)
        if not isinstance(k, SNum):
            raise OutOfSubset("del with non-int index")
        c = k.concrete()
        if c != -1:
            raise OutOfSubset("del registry list at index other than -1")
        if I.P.branch(n >= 1):
            last = z3.Select(z3.Select(R.Q_at, self.qt), n - 1)
            R.Q_len = z3.Store(R.Q_len, self.qt, n - 1)
            # no duplicates (W1): removing the last element removes its symbol from the membership view
            R.Q_mem = z3.Store(R.Q_mem, self.qt, z3.Store(z3.Select(R.Q_mem, self.qt), last, z3.BoolVal(False)))
            R.writes.append(("Q", self.qt))
            return
        I.raise_("IndexError", "list assignment index out of range")

    def member(self, t):
        R = self.reg
        return z3.And(z3.Select(R.U_dom, t), z3.Select(R.U_qt, t) == self.qt)

    def for_hook(self, I, st, frame):
        R = self.reg

        def pick(t):
            R.on_unit(t)
            return RegInfo(R, t)

        ok = for_linear_search(I, st, frame, lambda k: RegInfo(R, k), self.member, pick)
        if not ok:
            raise OutOfSubset("loop over a registry list at line %d has no applicable rule" % st.lineno)
        return True

    def comp_view(self, I, n, frame):
        """[x.unit for x in quantity_types[qt]] : the (fresh) list of the type's unit symbols"""
        g = n.generators[0]
        if len(n.generators) == 1 and not g.ifs and isinstance(g.target, ast.Name) and isinstance(n.elt, ast.Attribute) and isinstance(n.elt.value, ast.Name) and n.elt.value.id == g.target.id and n.elt.attr in ("unit", "name"):
            if n.elt.attr == "unit":
                return RegUnitList(self.reg, self.qt)
            return OpaqueSeq("unit names of a quantity type")
        raise OutOfSubset("comprehension over a registry list (line %d)" % n.lineno)

    def py_iter(self, I):
        raise OutOfSubset("iteration over a registry list without a loop rule")

    def py_getattr(self, I, name):
        R = self.reg
        qt = self.qt
        if name == "append":
            def append(I, a, k):
                v = a[0]
                key = None
                if isinstance(v, RegInfo):
                    key = v.key
                elif isinstance(v, SRef) and isinstance(v.o, HObj) and getattr(v.o, "registered_as", None) is not None:
                    key = v.o.registered_as
                if key is None:
                    raise OutOfSubset("appending an unregistered UnitInfo to a quantity type list")
                n = z3.Select(R.Q_len, qt)
                R.Q_at = z3.Store(R.Q_at, qt, z3.Store(z3.Select(R.Q_at, qt), n, key))
                R.Q_len = z3.Store(R.Q_len, qt, n + 1)
                R.Q_mem = z3.Store(R.Q_mem, qt, z3.Store(z3.Select(R.Q_mem, qt), key, z3.BoolVal(True)))
                R.U_pos = z3.Store(R.U_pos, key, n)
                R.writes.append(("Q", qt))
                return SNone

            return SBuiltin("RegQList.append", append)
        if name == "insert":
            def insert(I, a, k):
                idx, v = a
                if not (isinstance(idx, SNum) and idx.concrete() == 0):
                    raise OutOfSubset("insert into registry list at index other than 0")
                key = v.key if isinstance(v, RegInfo) else getattr(getattr(v, "o", None), "registered_as", None)
                if key is None:
                    raise OutOfSubset("inserting an unregistered UnitInfo")
                n = z3.Select(R.Q_len, qt)
                old = z3.Select(R.Q_at, qt)
                j = z3.Int("j!ins")
                new = z3.Lambda([j], z3.If(j == 0, key, z3.Select(old, j - 1)))
                R.Q_at = z3.Store(R.Q_at, qt, new)
                R.Q_len = z3.Store(R.Q_len, qt, n + 1)
                R.Q_mem = z3.Store(R.Q_mem, qt, z3.Store(z3.Select(R.Q_mem, qt), key, z3.BoolVal(True)))
                # ghost positions: everything of this quantity type shifts by one
                u = z3.Const("u!ins", NameS)
                oldpos = R.U_pos
                R.U_pos = z3.Lambda(
                    [u],
                    z3.If(
                        u == key,
                        z3.IntVal(0),
                        z3.If(
                            z3.And(z3.Select(R.U_dom, u), z3.Select(R.U_qt, u) == qt),
                            z3.Select(oldpos, u) + 1,
                            z3.Select(oldpos, u),
                        ),
                    ),
                )
                R.writes.append(("Q", qt))
                return SNone

            return SBuiltin("RegQList.insert", insert)
        if name == "pop":
            def pop(I, a, k):
                # list.pop() / pop(-1): the last element, removed (same effect as `x = l[-1]; del l[-1]`)
                if a and not (isinstance(a[0], SNum) and a[0].concrete() == -1):
                    raise OutOfSubset("registry list .pop at an index other than -1")
                v = self.py_getitem(I, SNum(-1))
                self.py_delitem(I, SNum(-1))
                return v

            return SBuiltin("RegQList.pop", pop)
        raise OutOfSubset("registry list .%s" % name)


class RegUnitList(SProto):
    """the list [info.unit for info in quantity_types[qt]] as built at one moment (a fresh list):
    membership = 'registered with this quantity type' (W1), element 0 = the base unit; appended
    items are remembered (the list belongs to the caller)"""

    pytype_name = "list"
    region = "fresh"

    def __init__(self, reg, qt, extras=None, st=None, kind="list"):
        self.reg = reg
        self.qt = qt
        self.extras = list(extras or [])
        self.st = st or reg.snapshot()
        self.kind = kind

    def pytype(self):
        return self.kind

    def py_is(self, I, other):
        return other is self

    def py_len(self, I):
        return SNum(z3.Select(self.st["Q_len"], self.qt) + len(self.extras), "int")

    def py_truth(self, I):
        return z3.Select(self.st["Q_len"], self.qt) + len(self.extras) > 0

    def member(self, n):
        st = self.st
        alts = [z3.Select(z3.Select(st["Q_mem"], self.qt), n)] + [n == e for e in self.extras]
        return z3.Or(*alts)

    def py_contains(self, I, x):
        n = name_of(I, x)
        if n is None:
            return False
        self.reg.inst("W1a", n)
        self.reg.inst("W1c", self.qt, n)
        return self.member(n)

    def py_getitem(self, I, k):
        if not isinstance(k, SNum):
            raise OutOfSubset("slice of a unit list")
        c = k.concrete()
        st = self.st
        n = z3.Select(st["Q_len"], self.qt)
        if c == 0:
            if I.P.branch(n > 0):
                self.reg.inst("W1b", self.qt, z3.IntVal(0))
                return sname(z3.Select(z3.Select(st["Q_at"], self.qt), 0))
            if self.extras:
                return sname(self.extras[0])
            I.raise_("IndexError", "list index out of range")
        raise OutOfSubset("unit list index other than 0")

    def to_set(self, I):
        return RegUnitList(self.reg, self.qt, self.extras, self.st, kind="set")

    def py_copy(self, I, deep):
        return RegUnitList(self.reg, self.qt, self.extras, self.st, kind=self.kind)

    def py_iter(self, I):
        raise OutOfSubset("iteration over the units of a quantity type")

    def py_getattr(self, I, name):
        if name == "append" and self.kind == "list":
            def append(I, a, k):
                x = name_of(I, a[0])
                if x is None:
                    raise OutOfSubset("append non-string to a unit list")
                self.extras.append(x)
                return SNone

            return SBuiltin("RegUnitList.append", append)
        raise OutOfSubset("unit list .%s" % name)

    opaque_sorted = True


class RegCat(RegView):
    """a CategoryInfo stored in the registry"""

    pytype_name = "CategoryInfo"

    def __init__(self, reg, key):
        RegView.__init__(self, reg)
        self.key = key

    def pytype(self):
        from .extract import get_repo

        return get_repo().cls("barril.units.unit_database:CategoryInfo")

    def py_is(self, I, other):
        if isinstance(other, RegCat):
            return self.key == other.key
        return False

    def py_truth(self, I):
        return True

    def py_getattr(self, I, name):
        R, c = self.reg, self.key
        P = I.P
        if name == "category":
            return sname(c)
        if name == "quantity_type":
            return sname(z3.Select(R.C_qt, c))
        if name == "default_unit":
            return sname(z3.Select(R.C_du, c))
        if name == "default_value":
            return SNum(z3.Select(R.C_dv, c), "float")
        if name == "min_value":
            if P.branch(z3.Select(R.C_min_none, c)):
                return SNone
            return SNum(z3.Select(R.C_min, c), "float")
        if name == "max_value":
            if P.branch(z3.Select(R.C_max_none, c)):
                return SNone
            return SNum(z3.Select(R.C_max, c), "float")
        if name == "is_min_exclusive":
            return SBool(z3.Select(R.C_minex, c))
        if name == "is_max_exclusive":
            return SBool(z3.Select(R.C_maxex, c))
        if name == "caption":
            return sname(z3.Select(R.C_cap, c))
        if name == "valid_units":
            if P.branch(z3.Select(R.C_vu_none, c)):
                return SNone
            return RegVU(R, c)
        if name == "valid_units_set":
            return RegVUSet(R, c)
        I.raise_("AttributeError", name)

    def py_setattr(self, I, name, v):
        self.reg.writes.append(("C", "setattr %s" % name))
        raise OutOfSubset("write to a registered CategoryInfo (%s)" % name)


class RegVU(RegView):
    """valid_units list of a registered category"""

    pytype_name = "list"

    def __init__(self, reg, cat):
        RegView.__init__(self, reg)
        self.cat = cat

    def py_is(self, I, other):
        return isinstance(other, RegVU) and self.cat == other.cat

    def py_len(self, I):
        return SNum(z3.Select(self.reg.C_vu_len, self.cat), "int")

    def py_truth(self, I):
        return z3.Select(self.reg.C_vu_len, self.cat) > 0

    def py_contains(self, I, x):
        n = name_of(I, x)
        if n is None:
            return False
        return z3.Select(z3.Select(self.reg.C_vu_mem, self.cat), n)

    def py_getitem(self, I, k):
        R = self.reg
        if isinstance(k, tuple):
            raise OutOfSubset("slice of valid_units")
        n = z3.Select(R.C_vu_len, self.cat)
        i = k.t
        if I.P.branch(z3.And(i >= 0, i < n)):
            R.inst("W3vu", self.cat, i)
            return sname(z3.Select(z3.Select(R.C_vu_at, self.cat), i))
        if I.P.branch(z3.And(i < 0, i >= -n)):
            R.inst("W3vu", self.cat, n + i)
            return sname(z3.Select(z3.Select(R.C_vu_at, self.cat), n + i))
        I.raise_("IndexError", "list index out of range")

    def py_getattr(self, I, name):
        R, c = self.reg, self.cat
        if name == "append":
            def append(I, a, k):
                x = name_of(I, a[0])
                if x is None:
                    raise OutOfSubset("append non-string to valid_units")
                n = z3.Select(R.C_vu_len, c)
                R.C_vu_at = z3.Store(R.C_vu_at, c, z3.Store(z3.Select(R.C_vu_at, c), n, x))
                R.C_vu_len = z3.Store(R.C_vu_len, c, n + 1)
                R.C_vu_mem = z3.Store(R.C_vu_mem, c, z3.Store(z3.Select(R.C_vu_mem, c), x, z3.BoolVal(True)))
                R.writes.append(("C", "valid_units.append"))
                return SNone

            return SBuiltin("RegVU.append", append)
        raise OutOfSubset("valid_units.%s" % name)

    def py_copy(self, I, deep):
        return RegVUCopy(self.reg, self.cat)

    def to_set(self, I):
        return RegVUSet(self.reg, self.cat)

    def as_symgen(self, I):
        """the stored units, element by element (each satisfies W3vu / F1 by the registry invariant)"""
        from .loops import SymGen

        R, c = self.reg, self.cat

        def elem(i):
            R.inst("W3vu", c, i)
            u = z3.Select(z3.Select(R.pre["C_vu_at"], c), i)
            R.inst("F1", u)
            R.inst("W1c", z3.Select(R.pre["C_qt"], c), u)
            return sname(z3.Select(z3.Select(R.C_vu_at, c), i))

        return SymGen(z3.Select(R.C_vu_len, c), elem)

    def py_setitem(self, I, k, v):
        self.reg.writes.append(("C", "valid_units[i]="))
        raise OutOfSubset("write into a registered valid_units list")

    def py_iter(self, I):
        raise OutOfSubset("iteration over a registered valid_units list")


class RegVUCopy(SProto):
    """list(valid_units): a fresh list with the same members (plus what the owner appends)"""

    pytype_name = "list"
    region = "fresh"

    def __init__(self, reg, cat, st=None, extras=None):
        self.reg = reg
        self.cat = cat
        self.st = st or reg.snapshot()
        self.extras = list(extras or [])

    def pytype(self):
        return "list"

    def py_is(self, I, other):
        return other is self

    def py_len(self, I):
        return SNum(z3.Select(self.st["C_vu_len"], self.cat) + len(self.extras), "int")

    def py_truth(self, I):
        return z3.Select(self.st["C_vu_len"], self.cat) + len(self.extras) > 0

    def py_contains(self, I, x):
        n = name_of(I, x)
        if n is None:
            return False
        return z3.Or(z3.Select(z3.Select(self.st["C_vu_mem"], self.cat), n), *[n == e for e in self.extras])

    def py_copy(self, I, deep):
        return RegVUCopy(self.reg, self.cat, self.st, self.extras)

    def py_iter(self, I):
        raise OutOfSubset("iteration over a copy of valid_units")

    def py_getattr(self, I, name):
        if name == "append":
            def append(I, a, k):
                x = name_of(I, a[0])
                if x is None:
                    raise OutOfSubset("append non-string")
                self.extras.append(x)
                return SNone

            return SBuiltin("RegVUCopy.append", append)
        raise OutOfSubset("valid_units copy .%s" % name)


class RegVUSet(RegView):
    pytype_name = "set"

    def __init__(self, reg, cat):
        RegView.__init__(self, reg)
        self.cat = cat

    def py_contains(self, I, x):
        n = name_of(I, x)
        if n is None:
            return False
        R = self.reg
        return z3.And(z3.Not(z3.Select(R.C_vu_none, self.cat)), z3.Select(z3.Select(R.C_vu_mem, self.cat), n))


class RegC(RegView):
    """categories_to_quantity_types"""

    pytype_name = "dict"

    def py_getitem(self, I, k):
        n = name_of(I, k)
        if n is None:
            I.check_hashable(k)
            raise PyRaise(I.exc("KeyError", k))
        R = self.reg
        if I.P.branch(z3.Select(R.C_dom, n)):
            R.on_cat(n)
            return RegCat(R, n)
        raise PyRaise(I.exc("KeyError", k))

    def py_contains(self, I, k):
        n = name_of(I, k)
        if n is None:
            I.check_hashable(k)
            return False
        return z3.Select(self.reg.C_dom, n)

    def py_setitem(self, I, k, v):
        n = name_of(I, k)
        if n is None:
            raise OutOfSubset("non-string category key")
        store_cat(I, self.reg, n, v)

    def py_getattr(self, I, name):
        R = self.reg
        if name == "keys":
            return SBuiltin("RegC.keys", lambda I, a, k: OpaqueSeq("category keys"))
        if name == "clear":
            def clear(I, a, k):
                R.set("C_dom", z3.K(NameS, z3.BoolVal(False)), "clear")
                return SNone

            return SBuiltin("RegC.clear", clear)
        raise OutOfSubset("categories_to_quantity_types.%s" % name)


def store_cat(I, R, n, v):
    if not (isinstance(v, SRef) and isinstance(v.o, HObj) and v.o.cls.name == "CategoryInfo"):
        raise OutOfSubset("categories[...] = non-CategoryInfo")
    f = v.o.fields

    def nm(x, what):
        if isinstance(x, SStr):
            return x.name
        raise OutOfSubset("CategoryInfo.%s is not a string: %r" % (what, x))

    def optnum(x, none_f, val_f):
        if x is SNone:
            setattr(R, none_f, z3.Store(getattr(R, none_f), n, z3.BoolVal(True)))
        elif isinstance(x, SNum) and not x.extended:
            setattr(R, none_f, z3.Store(getattr(R, none_f), n, z3.BoolVal(False)))
            setattr(R, val_f, z3.Store(getattr(R, val_f), n, x.real()))
        else:
            raise OutOfSubset("CategoryInfo limit is not a finite number or None")

    R.C_dom = z3.Store(R.C_dom, n, z3.BoolVal(True))
    R.C_qt = z3.Store(R.C_qt, n, nm(f["quantity_type"], "quantity_type"))
    R.C_du = z3.Store(R.C_du, n, nm(f["default_unit"], "default_unit"))
    dv = f["default_value"]
    if not (isinstance(dv, SNum) and not dv.extended):
        raise OutOfSubset("default_value is not a finite number")
    R.C_dv = z3.Store(R.C_dv, n, dv.real())
    optnum(f["min_value"], "C_min_none", "C_min")
    optnum(f["max_value"], "C_max_none", "C_max")
    R.C_minex = z3.Store(R.C_minex, n, to_z3b(I.truth(f["is_min_exclusive"])))
    R.C_maxex = z3.Store(R.C_maxex, n, to_z3b(I.truth(f["is_max_exclusive"])))
    cap = f["caption"]
    if isinstance(cap, SStr) and not cap.opaque:
        R.C_cap = z3.Store(R.C_cap, n, cap.name)
    else:
        R.C_cap = z3.Store(R.C_cap, n, I.P.fresh("caption", NameS))
    vu = f["valid_units"]
    R.stored_category_field = f["category"]
    R.stored_vu = vu
    R.stored_vus = f["valid_units_set"]
    if vu is SNone:
        R.C_vu_none = z3.Store(R.C_vu_none, n, z3.BoolVal(True))
        R.C_vu_len = z3.Store(R.C_vu_len, n, z3.IntVal(0))  # ghost: no list, length 0
    else:
        R.C_vu_none = z3.Store(R.C_vu_none, n, z3.BoolVal(False))
        if isinstance(vu, RegVU):
            # from_category: the new category shares the source category's list object
            src = vu.cat
            R.C_vu_len = z3.Store(R.C_vu_len, n, z3.Select(R.C_vu_len, src))
            R.C_vu_at = z3.Store(R.C_vu_at, n, z3.Select(R.C_vu_at, src))
            R.C_vu_mem = z3.Store(R.C_vu_mem, n, z3.Select(R.C_vu_mem, src))
            R.shared_vu = (n, src)
        elif isinstance(vu, SRef) and isinstance(vu.o, HList):
            items = vu.o.items
            arr = z3.Select(R.C_vu_at, n)
            mem = z3.K(NameS, z3.BoolVal(False))
            for i, x in enumerate(items):
                arr = z3.Store(arr, i, nm(x, "valid_units[%d]" % i))
                mem = z3.Store(mem, nm(x, "valid_units"), z3.BoolVal(True))
            R.C_vu_len = z3.Store(R.C_vu_len, n, z3.IntVal(len(items)))
            R.C_vu_at = z3.Store(R.C_vu_at, n, arr)
            R.C_vu_mem = z3.Store(R.C_vu_mem, n, mem)
            vu.o.region = "db.registry"
        else:
            raise OutOfSubset("valid_units of kind %r" % (vu,))
    R.writes.append(("C", n))


class RegM(RegView):
    """_category_unit_valid : (category, unit) -> bool"""

    pytype_name = "dict"

    def keyparts(self, I, k):
        if isinstance(k, STuple) and len(k.items) == 2:
            a, b = k.items
            if isinstance(a, SStr) and isinstance(b, SStr):
                return a.name, b.name
        return None

    def py_getitem(self, I, k):
        kp = self.keyparts(I, k)
        if kp is None:
            I.check_hashable(k)
            raise PyRaise(I.exc("KeyError", k))
        c, u = kp
        R = self.reg
        if I.P.branch(z3.Select(z3.Select(R.M_dom, c), u)):
            R.inst("CC", c, u)
            return SBool(z3.Select(z3.Select(R.M_val, c), u))
        raise PyRaise(I.exc("KeyError", k))

    def py_setitem(self, I, k, v):
        kp = self.keyparts(I, k)
        if kp is None:
            raise OutOfSubset("memo key")
        c, u = kp
        R = self.reg
        R.M_dom = z3.Store(R.M_dom, c, z3.Store(z3.Select(R.M_dom, c), u, z3.BoolVal(True)))
        R.M_val = z3.Store(R.M_val, c, z3.Store(z3.Select(R.M_val, c), u, to_z3b(I.truth(v))))
        R.writes.append(("M", (c, u)))

    def py_contains(self, I, k):
        kp = self.keyparts(I, k)
        if kp is None:
            return False
        return z3.Select(z3.Select(self.reg.M_dom, kp[0]), kp[1])

    def py_getattr(self, I, name):
        R = self.reg
        if name == "clear":
            def clear(I, a, k):
                R.set("M_dom", z3.K(NameS, z3.K(NameS, z3.BoolVal(False))), "clear")
                return SNone

            return SBuiltin("RegM.clear", clear)
        raise OutOfSubset("_category_unit_valid.%s" % name)


def _message_loop(st):
    """a loop that only accumulates text in local variables (no calls, no stores through references,
    no exits): its effect on an opaque collection is 'the assigned names hold opaque text'"""
    names = set()

    def expr_ok(e):
        for n in ast.walk(e):
            if isinstance(n, (ast.Call, ast.Yield, ast.YieldFrom, ast.Await, ast.Lambda)):
                return False
        return True

    def walk(stmts):
        for x in stmts:
            if isinstance(x, ast.Assign):
                if not all(isinstance(t, ast.Name) for t in x.targets) or not expr_ok(x.value):
                    return False
                names.update(t.id for t in x.targets)
            elif isinstance(x, ast.AugAssign):
                if not isinstance(x.target, ast.Name) or not expr_ok(x.value):
                    return False
                names.add(x.target.id)
            elif isinstance(x, ast.If):
                if not expr_ok(x.test) or not walk(x.body) or not walk(x.orelse):
                    return False
            elif isinstance(x, ast.Pass):
                pass
            else:
                return False
        return True

    if st.orelse or not isinstance(st.target, ast.Name):
        return None
    if not walk(st.body):
        return None
    names.add(st.target.id)
    return names


def for_hook(I, st, it, frame):
    if isinstance(it, RegQList):
        return it.for_hook(I, st, frame)
    if isinstance(it, OpaqueSeq):
        names = _message_loop(st)
        if names is None:
            raise OutOfSubset("loop over %s at line %d is not a pure text accumulation" % (it.what, st.lineno))
        for n in names:
            frame.vars[n] = OPAQUE
        return True
    return NotImplemented


def make_db(I, reg=None, tag="R", inv=("W1", "W2", "W3", "CC", "F1")):
    """a UnitDatabase object whose dictionaries are registry views"""
    P = I.P
    reg = reg or Reg(P, tag, inv)
    ci = I.repo.cls("barril.units.unit_database:UnitDatabase")
    o = P.alloc(HObj(ci, region="db"))
    o.fields["unit_to_unit_info"] = RegU(reg)
    o.fields["quantity_types"] = RegQ(reg)
    o.fields["categories_to_quantity_types"] = RegC(reg)
    o.fields["_category_unit_valid"] = RegM(reg)
    o.frozen = True
    db = SRef(o)
    P.ghost["reg"] = reg
    P.ghost["db"] = db
    P.ghost.setdefault("singletons", {})["UnitDatabase"] = db
    P.ghost["for_hook"] = chain_for_hook(P.ghost.get("for_hook"), for_hook)
    return db, reg


def chain_for_hook(old, new):
    if old is None:
        return new

    def h(I, st, it, frame):
        r = new(I, st, it, frame)
        if r is NotImplemented:
            return old(I, st, it, frame)
        return r

    return h
