"""Models of the Python builtins / stdlib / third-party entry points barril's code under contract uses."""
import ast
import z3
from fractions import Fraction as _F

from .engine import PyRaise, OutOfSubset, app, fixf, upow, lit, is_true, is_false, NameS, RealS, IntS
from .values import *
from .extract import ClassInfo


def _I():
    from . import interp

    return interp


# ------------------------------------------------------------------------------------------------
# helpers


def conc_num(v):
    if isinstance(v, SNum):
        return v.concrete()
    return None


def pynum(v):
    """concrete SNum -> python int/float for formatting"""
    c = v.concrete()
    if c is None:
        return None
    if v.is_int:
        return int(c)
    return float(c)


def mk(v):
    """python value -> SVal (for concrete evaluation results)"""
    if isinstance(v, SVal):
        return v
    if v is None:
        return SNone
    if isinstance(v, bool):
        return SBool(v)
    if isinstance(v, (int, float)):
        return SNum(v)
    if isinstance(v, str):
        return SStr(v)
    if isinstance(v, tuple):
        return STuple([mk(x) for x in v])
    raise OutOfSubset("mk %r" % (v,))


def to_py(v):
    """concrete SVal -> python value or raise OutOfSubset"""
    if v is SNone:
        return None
    if isinstance(v, SBool):
        c = v.concrete()
        if c is None:
            raise OutOfSubset("symbolic bool in concrete context")
        return c
    if isinstance(v, SNum):
        c = pynum(v)
        if c is None:
            raise OutOfSubset("symbolic number in concrete context")
        return c
    if isinstance(v, SStr):
        if v.py is None:
            raise OutOfSubset("symbolic string in concrete context")
        return v.py
    if isinstance(v, STuple):
        return tuple(to_py(x) for x in v.items)
    if isinstance(v, SRef) and isinstance(v.o, HList):
        return [to_py(x) for x in v.o.items]
    raise OutOfSubset("to_py %r" % (v,))


# ------------------------------------------------------------------------------------------------
# strings


def str_concat(I, a, b):
    if a.opaque or b.opaque:
        return OPAQUE
    return I.P.ghost["strmodel"].concat(I, a, b) if "strmodel" in I.P.ghost else OPAQUE


def str_join_parts(I, parts):
    if all(p.py is not None for p in parts):
        return SStr("".join(p.py for p in parts))
    sm = I.P.ghost.get("strmodel")
    if sm is not None and not any(p.opaque for p in parts):
        r = parts[0]
        for p in parts[1:]:
            r = sm.concat(I, r, p)
        return r
    return OPAQUE


def format_value(I, x, conv, spec):
    """str()/repr()/format() of a value inside an f-string or .format"""
    try:
        pv = to_py(x)
    except (OutOfSubset, PyRaise):
        sm = I.P.ghost.get("strmodel")
        if sm is not None:
            r = sm.format_value(I, x, conv, spec)
            if r is not NotImplemented:
                return r
        return OPAQUE
    if conv == "r":
        s = repr(pv)
    elif conv == "s":
        s = str(pv)
    else:
        s = pv
    try:
        if spec:
            return SStr(format(s, spec))
        return SStr(format(s, "")) if not isinstance(s, str) else SStr(s)
    except Exception:
        raise OutOfSubset("format spec")


def str_percent(I, fmt, arg):
    if fmt.py is None:
        return OPAQUE
    try:
        pa = to_py(arg)
    except (OutOfSubset, PyRaise):
        sm = I.P.ghost.get("strmodel")
        if sm is not None:
            r = sm.percent(I, fmt, arg)
            if r is not NotImplemented:
                return r
        # is the format at least well-formed for the arity?  (TypeError detection for the cases barril relies on)
        n = count_format_fields(fmt.py)
        k = len(arg.items) if isinstance(arg, STuple) else 1
        if n != k and not (n == 0 and k == 1 and False):
            I.raise_("TypeError", "not all arguments converted during string formatting")
        return OPAQUE
    try:
        return SStr(fmt.py % pa)
    except TypeError as e:
        I.raise_("TypeError", str(e))
    except ValueError as e:
        I.raise_("ValueError", str(e))


def count_format_fields(s):
    n = 0
    i = 0
    while i < len(s):
        if s[i] == "%":
            if i + 1 < len(s) and s[i + 1] == "%":
                i += 2
                continue
            n += 1
        i += 1
    return n


def str_method(I, s, name):
    def m_replace(I, args, kw):
        if s.py is not None and all(isinstance(a, SStr) and a.py is not None for a in args):
            return SStr(s.py.replace(*[a.py for a in args]))
        if s.opaque:
            return OPAQUE
        if I.P.ghost.get("abstract_text"):
            # some text derived from s: an unconstrained symbol (only used for captions)
            from .engine import NameS

            return SStr(name=I.P.fresh("text", NameS))
        raise OutOfSubset("str.replace on symbolic string")

    def m_format(I, args, kw):
        if s.py is None:
            return OPAQUE
        try:
            return SStr(s.py.format(*[to_py(a) for a in args], **{k: to_py(v) for k, v in kw.items()}))
        except (OutOfSubset, PyRaise):
            sm = I.P.ghost.get("strmodel")
            if sm is not None:
                r = sm.format(I, s, args, kw)
                if r is not NotImplemented:
                    return r
            return OPAQUE

    def simple(fn):
        def impl(I, args, kw):
            if s.py is None:
                if s.opaque:
                    return OPAQUE
                if I.P.ghost.get("abstract_text") and name in ("title", "lower", "upper", "strip"):
                    from .engine import NameS

                    return SStr(name=I.P.fresh("text", NameS))
                raise OutOfSubset("str.%s on symbolic string" % name)
            try:
                return mk(fn(s.py, *[to_py(a) for a in args]))
            except OutOfSubset:
                raise
            except Exception as e:
                I.raise_(type(e).__name__, str(e))

        return impl

    def m_join(I, args, kw):
        if isinstance(args[0], SStr) and args[0].py is None:
            return OPAQUE
        if isinstance(args[0], _I().SProto) and getattr(args[0], "opaque_seq", False):
            return OPAQUE
        parts = I.iterate(args[0])
        if s.py is not None and all(isinstance(p, SStr) and p.py is not None for p in parts):
            return SStr(s.py.join(p.py for p in parts))
        if not all(isinstance(p, SStr) for p in parts):
            I.raise_("TypeError", "sequence item: expected str instance")
        out = []
        for i, p in enumerate(parts):
            if i:
                out.append(s)
            out.append(p)
        if not out:
            return SStr("")
        return str_join_parts(I, out)

    def m_split(I, args, kw):
        if s.py is None:
            raise OutOfSubset("split symbolic")
        res = s.py.split(*[to_py(a) for a in args])
        return SRef(I.P.alloc(HList([SStr(x) for x in res])))

    table = {
        "replace": m_replace,
        "format": m_format,
        "join": m_join,
        "split": m_split,
        "lower": simple(str.lower),
        "upper": simple(str.upper),
        "title": simple(str.title),
        "strip": simple(str.strip),
        "startswith": simple(str.startswith),
        "endswith": simple(str.endswith),
        "find": simple(str.find),
        "isdigit": simple(str.isdigit),
    }
    if name in table:
        return SBuiltin("str." + name, table[name])
    if name in ("partition", "rpartition", "rstrip", "lstrip", "rfind", "count", "index", "rindex", "splitlines", "rsplit", "isalpha", "isalnum", "isspace", "islower", "isupper", "capitalize", "swapcase", "casefold", "center", "ljust", "rjust", "zfill", "removeprefix", "removesuffix", "encode", "expandtabs", "istitle", "isnumeric", "isdecimal", "isidentifier", "isascii", "isprintable"):
        # pure str methods on literal text: the real method (symbolic text: out of subset)
        def impl(I, args, kw, fn=getattr(str, name)):
            if s.py is None:
                if s.opaque:
                    return OPAQUE
                raise OutOfSubset("str.%s on symbolic string" % name)
            try:
                r = fn(s.py, *[to_py(a) for a in args], **{k: to_py(v) for k, v in kw.items()})
            except OutOfSubset:
                raise
            except Exception as e:
                I.raise_(type(e).__name__, str(e))
            if isinstance(r, list):
                return SRef(I.P.alloc(HList([mk(x) for x in r])))
            if isinstance(r, bytes):
                raise OutOfSubset("bytes")
            return mk(r)

        return SBuiltin("str." + name, impl)
    return None


def tuple_method(I, t, name):
    if name == "index":
        def impl(I, args, kw):
            for i, x in enumerate(t.items):
                if I.P.branch(_I().to_z3b(I.equal(x, args[0]))):
                    return SNum(i)
            I.raise_("ValueError", "tuple.index(x): x not in tuple")

        return SBuiltin("tuple.index", impl)
    if name == "count":
        raise OutOfSubset("tuple.count")
    return None


# ------------------------------------------------------------------------------------------------
# containers


def container_method(I, ref, name):
    h = ref.o
    P = I.P
    if isinstance(h, HList):
        def append(I, a, k):
            P.log_write(h, ("append",))
            h.items.append(a[0])
            return SNone

        def extend(I, a, k):
            P.log_write(h, ("extend",))
            h.items.extend(I.iterate(a[0]))
            return SNone

        def insert(I, a, k):
            P.log_write(h, ("insert",))
            n = len(h.items)
            c = conc_num(a[0])
            if c is None:
                raise OutOfSubset("insert at symbolic index")
            c = int(c)
            if c < 0:
                c = max(0, n + c)
            h.items.insert(min(c, n), a[1])
            return SNone

        def pop(I, a, k):
            if not h.items:
                I.raise_("IndexError", "pop from empty list")
            i = I.concrete_index(a[0], len(h.items)) if a else len(h.items) - 1
            P.log_write(h, ("pop", i))
            return h.items.pop(i)

        def index(I, a, k):
            for i, x in enumerate(h.items):
                if I.P.branch(_I().to_z3b(I.equal(x, a[0]))):
                    return SNum(i)
            I.raise_("ValueError", "x not in list")

        def clear(I, a, k):
            P.log_write(h, ("clear",))
            del h.items[:]
            return SNone

        def copy(I, a, k):
            return SRef(P.alloc(HList(h.items)))

        def sort(I, a, k):
            res = b_sorted(I, [ref], k)
            P.log_write(h, ("sort",))
            h.items[:] = res.o.items
            return SNone

        t = {"append": append, "extend": extend, "insert": insert, "pop": pop, "index": index, "clear": clear, "copy": copy, "sort": sort}
        if name in t:
            return SBuiltin("list." + name, t[name])
        return None
    if isinstance(h, HDict):
        # dict views: iteration as a list snapshot, but `==` follows the view semantics (set-like
        # for items/keys views, identity for values views) -- see Interp.equal
        def _view(kind, xs):
            v = HList(xs)
            v.view = kind
            return SRef(P.alloc(v))

        def items(I, a, k):
            return _view("items", [STuple([kk, vv]) for kk, vv in h.entries])

        def keys(I, a, k):
            return _view("keys", [kk for kk, vv in h.entries])

        def values(I, a, k):
            return _view("values", [vv for kk, vv in h.entries])

        def get(I, a, k):
            d = a[1] if len(a) > 1 else k.get("default", SNone)
            return I.dict_get(h, a[0], missing="default", default=d)

        def setdefault(I, a, k):
            I.check_hashable(a[0])
            i = I.dict_lookup(h, a[0])
            if i is None:
                P.log_write(h, ("key", a[0]))
                d = a[1] if len(a) > 1 else SNone
                h.entries.append((a[0], d))
                return d
            return h.entries[i][1]

        def clear(I, a, k):
            P.log_write(h, ("clear",))
            del h.entries[:]
            return SNone

        def pop(I, a, k):
            i = I.dict_lookup(h, a[0])
            if i is None:
                if len(a) > 1:
                    return a[1]
                raise PyRaise(I.exc("KeyError", a[0]))
            P.log_write(h, ("delkey", a[0]))
            return h.entries.pop(i)[1]

        def copy(I, a, k):
            return SRef(P.alloc(HDict(h.entries, ordered=h.ordered)))

        def update(I, a, k):
            src = a[0]
            if isinstance(src, SRef) and isinstance(src.o, HDict):
                for kk, vv in list(src.o.entries):
                    I.setitem(ref, kk, vv)
                return SNone
            raise OutOfSubset("dict.update arg")

        t = {"items": items, "keys": keys, "values": values, "get": get, "setdefault": setdefault, "clear": clear, "pop": pop, "copy": copy, "update": update}
        if name in t:
            return SBuiltin("dict." + name, t[name])
        return None
    if isinstance(h, HSet):
        def add(I, a, k):
            if is_true(I.contains(ref, a[0])):
                return SNone
            c = I.contains(ref, a[0])
            if not is_false(c) and I.P.branch(c):
                return SNone
            P.log_write(h, ("add",))
            h.items.append(a[0])
            return SNone

        def issuperset(I, a, k):
            other = I.iterate(a[0])
            conj = [_I().to_z3b(I.contains(ref, x)) for x in other]
            return SBool(z3.simplify(z3.And(*conj)) if conj else True)

        def issubset(I, a, k):
            conj = [_I().to_z3b(I.contains(a[0], x)) for x in h.items]
            return SBool(z3.simplify(z3.And(*conj)) if conj else True)

        def remove(I, a, k):
            for i, x in enumerate(h.items):
                if I.P.branch(_I().to_z3b(I.equal(x, a[0]))):
                    P.log_write(h, ("remove",))
                    del h.items[i]
                    return SNone
            raise PyRaise(I.exc("KeyError", a[0]))

        t = {"add": add, "issuperset": issuperset, "issubset": issubset, "remove": remove}
        if name in t:
            return SBuiltin("set." + name, t[name])
        return None
    if isinstance(h, HIter):
        if name == "__next__":
            return SBuiltin("iter.__next__", lambda I, a, k: b_next(I, [ref], {}))
    return None


def make_set(I, items):
    """set construction: duplicates are merged (forks on symbolic equality)"""
    out = []
    seen_py = set()
    for x in items:
        if isinstance(x, SStr) and x.py is not None and all(isinstance(y, SStr) and y.py is not None for y in out[:1]) and len(seen_py) == len(out):
            if x.py not in seen_py:
                seen_py.add(x.py)
                out.append(x)
            continue
        I.check_hashable(x)
        dup = False
        for y in out:
            e = I.equal(y, x)
            if is_true(e):
                dup = True
                break
            if not is_false(e) and I.P.branch(e):
                dup = True
                break
        if not dup:
            out.append(x)
    return SRef(I.P.alloc(HSet(out)))


def symbolic_repeat(I, seq, n):
    h = I.P.ghost.get("symseq")
    if h is not None:
        return h.repeat(I, seq, n)
    return NotImplemented


# ------------------------------------------------------------------------------------------------
# builtin functions


def b_isinstance(I, a, k):
    v, t = a
    ts = t.items if isinstance(t, STuple) else [t]
    tn = v.pytype()
    for x in ts:
        if isinstance(x, SType):
            if _I().type_is_subtype(tn, x.name):
                return SBool(True)
            # value-level special cases
            if x.name == "float" and isinstance(v, SNum) and v.kind in ("float", "npfloat"):
                return SBool(True)
            if x.name == "int" and (isinstance(v, SBool) or (isinstance(v, SNum) and v.kind == "int")):
                return SBool(True)
        elif isinstance(x, SClass):
            if isinstance(tn, ClassInfo) and (tn is x.ci or tn.is_subclass_of(x.ci.name)):
                return SBool(True)
        elif isinstance(x, SLocalClass):
            if tn is x:
                return SBool(True)
        elif isinstance(x, STuple):
            if b_isinstance(I, [v, x], {}).concrete():
                return SBool(True)
        else:
            raise OutOfSubset("isinstance against %r" % (x,))
    return SBool(False)


def b_issubclass(I, a, k):
    raise OutOfSubset("issubclass")


def b_hasattr(I, a, k):
    o, n = a
    if not (isinstance(n, SStr) and n.py is not None):
        raise OutOfSubset("hasattr with symbolic name")
    try:
        I.getattr(o, n.py)
        return SBool(True)
    except PyRaise as e:
        if "AttributeError" in exc_ancestors(e.exc.o.cls):
            return SBool(False)
        raise


def b_getattr(I, a, k):
    o, n = a[0], a[1]
    if not (isinstance(n, SStr) and n.py is not None):
        raise OutOfSubset("getattr with symbolic name")
    if len(a) > 2:
        try:
            return I.getattr(o, n.py)
        except PyRaise as e:
            if "AttributeError" in exc_ancestors(e.exc.o.cls):
                return a[2]
            raise
    return I.getattr(o, n.py)


def b_setattr(I, a, k):
    o, n, v = a
    if not (isinstance(n, SStr) and n.py is not None):
        raise OutOfSubset("setattr with symbolic name")
    I.setattr(o, n.py, v)
    return SNone


def b_len(I, a, k):
    return I.length(a[0])


def b_tuple(I, a, k):
    if not a:
        return STuple([])
    h = I.P.ghost.get("symseq")
    if h is not None:
        r = h.convert(I, a[0], "tuple")
        if r is not NotImplemented:
            return r
    if isinstance(a[0], STuple):
        return a[0]
    return STuple(I.iterate(a[0]))


def b_list(I, a, k):
    if not a:
        return SRef(I.P.alloc(HList([])))
    h = I.P.ghost.get("symseq")
    if h is not None:
        r = h.convert(I, a[0], "list")
        if r is not NotImplemented:
            return r
    if isinstance(a[0], _I().SProto) and hasattr(a[0], "py_copy") and a[0].pytype() == "list":
        return a[0].py_copy(I, False)
    return SRef(I.P.alloc(HList(I.iterate(a[0]))))


def b_set(I, a, k):
    if not a:
        return SRef(I.P.alloc(HSet([])))
    if isinstance(a[0], _I().SProto) and hasattr(a[0], "to_set"):
        return a[0].to_set(I)
    return make_set(I, I.iterate(a[0]))


def b_dict(I, a, k, ordered=False):
    d = I.P.alloc(HDict(ordered=ordered))
    ref = SRef(d)
    if a:
        src = a[0]
        if isinstance(src, SRef) and isinstance(src.o, HDict):
            d.entries = list(src.o.entries)
        else:
            for pair in I.iterate(src):
                kv = I.iterate(pair)
                if len(kv) != 2:
                    I.raise_("ValueError", "dictionary update sequence element has wrong length")
                I.check_hashable(kv[0])
                i = I.dict_lookup(d, kv[0])
                if i is None:
                    d.entries.append((kv[0], kv[1]))
                else:
                    d.entries[i] = (d.entries[i][0], kv[1])
    for kk, vv in k.items():
        I.setitem(ref, SStr(kk), vv)
    I.P.writes[:] = [w for w in I.P.writes if w[0] is not d]
    return ref


def b_ordereddict(I, a, k):
    return b_dict(I, a, k, ordered=True)


def b_iter(I, a, k):
    v = a[0]
    if isinstance(v, SRef) and isinstance(v.o, HIter):
        return v
    if isinstance(v, _I().SProto) and hasattr(v, "make_iter"):
        return v.make_iter(I)
    return SRef(I.P.alloc(HIter(I.iterate(v))))


def b_next(I, a, k):
    it = a[0]
    if isinstance(it, _I().SProto) and hasattr(it, "py_next"):
        return it.py_next(I, a[1] if len(a) > 1 else None)
    if not (isinstance(it, SRef) and isinstance(it.o, HIter)):
        I.raise_("TypeError", "object is not an iterator")
    h = it.o
    if h.pos < len(h.items):
        x = h.items[h.pos]
        h.pos += 1
        return x
    if len(a) > 1:
        return a[1]
    I.raise_("StopIteration")


def b_zip(I, a, k):
    h = I.P.ghost.get("symseq")
    if h is not None:
        r = h.zip(I, a)
        if r is not NotImplemented:
            return r
    seqs = [I.iterate(x) for x in a]
    n = min(len(s) for s in seqs) if seqs else 0
    return SRef(I.P.alloc(HIter([STuple([s[i] for s in seqs]) for i in range(n)])))


def b_enumerate(I, a, k):
    if I.P.ghost.get("generic_branch_hook") is not None:
        from . import loops

        sg = loops.enumerate_gen(I, a[0])
        if sg is not None:
            return sg
    items = I.iterate(a[0])
    return SRef(I.P.alloc(HIter([STuple([SNum(i), x]) for i, x in enumerate(items)])))


def b_range(I, a, k):
    cs = [conc_num(x) for x in a]
    if any(c is None for c in cs):
        h = I.P.ghost.get("range_hook")
        if h is not None:
            return h(I, a)
        raise OutOfSubset("range with symbolic bound")
    return SRef(I.P.alloc(HIter([SNum(i) for i in range(*[int(c) for c in cs])])))


def b_float(I, a, k):
    if not a:
        return SNum(0.0)
    v = a[0]
    if isinstance(v, SNum):
        if v.extended:
            return v
        return SNum(v.real(), "float") if v.kind != "float" else v
    if isinstance(v, SBool):
        return SNum(z3.If(v.t, z3.RealVal(1), z3.RealVal(0)), "float")
    if isinstance(v, SStr):
        if v.py is not None:
            try:
                return SNum(float(v.py))
            except ValueError as e:
                I.raise_("ValueError", str(e))
        raise OutOfSubset("float(symbolic str)")
    m = I.obj_method(v, "__float__")
    if m is not None:
        return I.call_function(SFunc(m), [v], {})
    if isinstance(v, _I().SProto):
        r = v.py_float(I) if hasattr(v, "py_float") else NotImplemented
        if r is not NotImplemented:
            return r
    I.raise_("TypeError", "float() argument must be a string or a real number")


def b_int(I, a, k):
    if not a:
        return SNum(0)
    v = a[0]
    if isinstance(v, SNum):
        if v.is_int:
            return v
        # truncation toward zero
        t = v.t
        return SNum(z3.simplify(z3.If(t >= 0, z3.ToInt(t), -z3.ToInt(-t))), "int")
    if isinstance(v, SBool):
        return I.bool_to_num(v)
    if isinstance(v, SStr) and v.py is not None:
        try:
            return SNum(int(v.py))
        except ValueError as e:
            I.raise_("ValueError", str(e))
    raise OutOfSubset("int(%r)" % (v,))


def b_str(I, a, k):
    if not a:
        return SStr("")
    v = a[0]
    if isinstance(v, SStr):
        return v
    if isinstance(v, SRef) and isinstance(v.o, HObj) and isinstance(v.o.cls, ClassInfo):
        m = v.o.cls.find_method("__str__") or v.o.cls.find_method("__repr__")
        if m is not None:
            return I.call_function(SFunc(m), [v], {})
    if isinstance(v, (SType, SClass)):
        return SStr("<class '%s'>" % (v.name if isinstance(v, SType) else v.ci.name))
    return format_value(I, v, "s", None)


def b_repr(I, a, k):
    v = a[0]
    if isinstance(v, SRef) and isinstance(v.o, HObj) and isinstance(v.o.cls, ClassInfo):
        m = v.o.cls.find_method("__repr__")
        if m is not None:
            return I.call_function(SFunc(m), [v], {})
    return format_value(I, v, "r", None)


def b_abs(I, a, k):
    v = a[0]
    if isinstance(v, SNum):
        if v.extended:
            raise OutOfSubset("abs of extended float")
        return SNum(z3.simplify(z3.If(v.t >= 0, v.t, -v.t)), v.kind)
    m = I.obj_method(v, "__abs__")
    if m is not None:
        return I.call_function(SFunc(m), [v], {})
    raise OutOfSubset("abs")


def b_round(I, a, k):
    v = a[0]
    if len(a) > 1:
        nd = conc_num(a[1])
        c = pynum(v) if isinstance(v, SNum) else None
        if c is not None and nd is not None:
            return SNum(round(c, int(nd)))
        raise OutOfSubset("round(x, n) symbolic")
    if isinstance(v, SNum):
        if v.is_int:
            return v
        c = v.concrete()
        if c is not None:
            return SNum(round(float(c)) if False else int(round(c)))
        # round-half-even on reals: floor(x+1/2), corrected on exact halves
        t = v.t
        f = z3.ToInt(t + z3.RealVal("1/2"))
        half = z3.ToReal(f) == t + z3.RealVal("1/2")
        r = z3.If(z3.And(half, f % 2 != 0), f - 1, f)
        return SNum(z3.simplify(r), "int")
    raise OutOfSubset("round")


def b_hash(I, a, k):
    hm = I.P.ghost.get("hashmodel")
    if hm is not None:
        return hm(I, a[0])
    raise OutOfSubset("hash()")


def b_type(I, a, k):
    v = a[0]
    t = v.pytype()
    if isinstance(t, ClassInfo):
        return SClass(t)
    if isinstance(t, SLocalClass):
        return t
    return SType(t)


def b_id(I, a, k):
    raise OutOfSubset("id()")


def _minmax(I, a, k, want_max):
    items = I.iterate(a[0]) if len(a) == 1 else list(a)
    if not items:
        I.raise_("ValueError", "arg is an empty sequence")
    best = items[0]
    for x in items[1:]:
        c = I.compare(ast.Gt() if want_max else ast.Lt(), x, best)
        if I.is_truthy(c):
            best = x
    return best


def b_min(I, a, k):
    return _minmax(I, a, k, False)


def b_max(I, a, k):
    return _minmax(I, a, k, True)


def b_sum(I, a, k):
    acc = a[1] if len(a) > 1 else SNum(0)
    for x in I.iterate(a[0]):
        acc = I.binop(ast.Add(), acc, x)
    return acc


def b_all(I, a, k):
    for x in I.iterate(a[0]):
        if not I.is_truthy(x):
            return SBool(False)
    return SBool(True)


def b_any(I, a, k):
    for x in I.iterate(a[0]):
        if I.is_truthy(x):
            return SBool(True)
    return SBool(False)


def b_sorted(I, a, k):
    if isinstance(a[0], _I().SProto) and getattr(a[0], "opaque_seq", False):
        return a[0]
    if isinstance(a[0], _I().SProto) and getattr(a[0], "opaque_sorted", False):
        from .registry import OpaqueSeq

        return OpaqueSeq("sorted units")
    items = I.iterate(a[0])
    # concrete strings / numbers only; symbolic content → the order is abstract
    try:
        pv = [to_py(x) for x in items]
        order = sorted(range(len(pv)), key=lambda i: pv[i])
        return SRef(I.P.alloc(HList([items[i] for i in order])))
    except (OutOfSubset, TypeError):
        # insertion sort with symbolic comparisons for short lists of names is not meaningful: the
        # result only flows into messages in the code under contract
        o = I.P.alloc(HList(items))
        o.unordered = True
        return SRef(o)


def b_print(I, a, k):
    return SNone


def b_callable(I, a, k):
    return SBool(isinstance(a[0], (SFunc, SBound, SBuiltin, SClass, SType, SFn)))


def b_bool(I, a, k):
    if not a:
        return SBool(False)
    return SBool(I.truth(a[0]))


def b_object(I, a, k):
    return SRef(I.P.alloc(HObj(SLocalClass("object"))))


def b_eval(I, a, k):
    s = a[0]
    if not (isinstance(s, SStr) and s.py is not None):
        raise OutOfSubset("eval of a non-constant string")
    try:
        node = ast.parse(s.py.strip(), mode="eval").body
    except SyntaxError as e:
        I.raise_("SyntaxError", str(e))
    fr = _I().Frame(I.repo.modules["barril.units.unit_database"])
    return I.eval(node, fr)


def exc_init_unbound(I, a, k):
    self_ = a[0]
    if isinstance(self_, SRef) and isinstance(self_.o, HExc):
        self_.o.args = list(a[1:])
    return SNone


def make_super(I, frame):
    # zero-argument super(): first parameter of the enclosing method and its defining class
    f = frame
    while f is not None and f.fi is None:
        f = f.outer
    if f is None or f.fi is None or f.fi.cls is None:
        raise OutOfSubset("super() outside a method")
    fi = f.fi
    first = fi.node.args.args[0].arg
    self_ = f.vars[first]
    return _SuperProxy(self_, fi.cls)


def _superproxy_class():
    SProto = _I().SProto

    class SuperProxy(SProto):
        def __init__(self, self_, cls):
            self.self_ = self_
            self.cls = cls

        def py_getattr(self, I, name):
            inst = self.self_
            if isinstance(inst, SClass):
                start = inst.ci
            else:
                start = inst.o.cls
            mro = start.mro()
            idx = mro.index(self.cls)
            for c in mro[idx + 1 :]:
                if name in c.methods:
                    fi = c.methods[name]
                    if fi.is_classmethod:
                        return SBound(SClass(start), SFunc(fi))
                    return SBound(inst, SFunc(fi))
            # builtin bases
            names = start.base_names()
            if any(b in BUILTIN_EXC for b in names) and name == "__init__":
                return SBound(inst, SBuiltin("exc_init", exc_init_unbound))
            for bn in names:
                key = "%s.%s" % (bn, name)
                if key in EXTERNALS:
                    return SBound(inst, SBuiltin(key, EXTERNALS[key]))
            if name == "__init__":
                return SBuiltin("object.__init__", lambda I, a, k: SNone)
            raise OutOfSubset("super().%s" % name)

    return SuperProxy


_SP = None


def _SuperProxy(self_, cls):
    global _SP
    if _SP is None:
        _SP = _superproxy_class()
    return _SP(self_, cls)


def attrs_init(I, ci, args, kwargs):
    """@attr.s(auto_attribs=True) classes: keyword/positional constructor from annotated fields"""
    o = I.P.alloc(HObj(ci))
    ref = SRef(o)
    fields = []
    for st in ci.node.body:
        if isinstance(st, ast.AnnAssign) and isinstance(st.target, ast.Name):
            fields.append((st.target.id, st.value))
    kwargs = dict(kwargs)
    for i, (fn, default) in enumerate(fields):
        if i < len(args):
            o.fields[fn] = args[i]
        elif fn in kwargs:
            o.fields[fn] = kwargs.pop(fn)
        elif default is not None:
            if (
                isinstance(default, ast.Call)
                and isinstance(default.func, ast.Attribute)
                and default.func.attr == "Factory"
            ):
                fac = I.eval(default.args[0], _I().Frame(ci.module))
                o.fields[fn] = I.call(fac, [], {})
            else:
                o.fields[fn] = I.eval(default, _I().Frame(ci.module))
        else:
            I.raise_("TypeError", "missing argument %s" % fn)
    if kwargs:
        I.raise_("TypeError", "unexpected keyword %s" % sorted(kwargs)[0])
    I.P.writes[:] = [w for w in I.P.writes if w[0] is not o]
    return ref


def apply_fn(I, f, args):
    """call of an abstract conversion function"""
    if len(args) != 1:
        I.raise_("TypeError", "conversion functions take one argument")
    x = args[0]
    if isinstance(x, SNum):
        if x.extended:
            # assumption A-ext: conversion functions are increasing affine maps (C01 Mono), so under
            # IEEE arithmetic NaN stays NaN and ±inf stay ±inf
            return SNum(app(f.t, x.real()), "float", x.nan, x.pinf, x.ninf)
        return SNum(app(f.t, x.real()), "float")
    if isinstance(x, SBool):
        return SNum(app(f.t, I.bool_to_num(x).real()), "float")
    if isinstance(x, _I().SProto) and hasattr(x, "map_fn"):
        return x.map_fn(I, f)
    hook = I.P.ghost.get("apply_fn_hook")
    if hook is not None:
        r = hook(I, f, x)
        if r is not NotImplemented:
            return r
    # abstract functions are arithmetic formulas: anything that is not a number fails inside them
    I.raise_("TypeError", "unsupported operand type(s) in conversion function")


# -- copy -----------------------------------------------------------------------------------------


def b_copy(I, a, k):
    v = a[0]
    if isinstance(v, (SNum, SStr, SBool, STuple)) or v is SNone:
        return v
    if isinstance(v, _I().SProto) and hasattr(v, "py_copy"):
        return v.py_copy(I, False)
    if isinstance(v, SRef):
        h = v.o
        if isinstance(h, HList):
            return SRef(I.P.alloc(HList(h.items)))
        if isinstance(h, HDict):
            return SRef(I.P.alloc(HDict(h.entries, ordered=h.ordered)))
        if isinstance(h, HSet):
            return SRef(I.P.alloc(HSet(h.items)))
        if isinstance(h, HObj) and isinstance(h.cls, ClassInfo):
            m = h.cls.find_method("__copy__")
            if m is not None:
                return I.call_function(SFunc(m), [v], {})
            n = I.P.alloc(HObj(h.cls))
            n.fields = dict(h.fields)
            return SRef(n)
    raise OutOfSubset("copy.copy of %r" % (v,))


def b_deepcopy(I, a, k, memo=None):
    v = a[0]
    memo = {} if memo is None else memo
    if isinstance(v, (SNum, SStr, SBool, SFn, SFunc, SType, SClass)) or v is SNone:
        return v
    if isinstance(v, STuple):
        return STuple([b_deepcopy(I, [x], k, memo) for x in v.items])
    if isinstance(v, _I().SProto) and hasattr(v, "py_copy"):
        return v.py_copy(I, True)
    if isinstance(v, SRef):
        h = v.o
        if id(h) in memo:
            return memo[id(h)]
        if isinstance(h, HList):
            n = I.P.alloc(HList([]))
            memo[id(h)] = SRef(n)
            n.items = [b_deepcopy(I, [x], k, memo) for x in h.items]
            return SRef(n)
        if isinstance(h, HDict):
            n = I.P.alloc(HDict(ordered=h.ordered))
            memo[id(h)] = SRef(n)
            n.entries = [(b_deepcopy(I, [kk], k, memo), b_deepcopy(I, [vv], k, memo)) for kk, vv in h.entries]
            return SRef(n)
        if isinstance(h, HSet):
            n = I.P.alloc(HSet([b_deepcopy(I, [x], k, memo) for x in h.items]))
            return SRef(n)
        if isinstance(h, HObj) and isinstance(h.cls, ClassInfo):
            m = h.cls.find_method("__deepcopy__")
            if m is not None:
                return I.call_function(SFunc(m), [v, SRef(I.P.alloc(HDict()))], {})
            n = I.P.alloc(HObj(h.cls))
            memo[id(h)] = SRef(n)
            n.fields = {kk: b_deepcopy(I, [vv], k, memo) for kk, vv in h.fields.items()}
            return SRef(n)
    raise OutOfSubset("copy.deepcopy of %r" % (v,))


# -- math / numpy ---------------------------------------------------------------------------------


def m_pow(I, a, k):
    x, y = a
    if not (isinstance(x, SNum) and isinstance(y, SNum)):
        I.raise_("TypeError", "must be real number")
    cy = y.concrete()
    if cy is not None and cy == 1:
        return SNum(x.real(), "float")
    xr, yr = x.real(), y.real()
    # CPython: math.pow(0.0, negative) and math.pow(negative, non-integer) are domain errors
    r = upow(xr, yr)
    # ghost: the applications (attempted ones included) of the uninterpreted real power function on
    # this path, for the contracts that instantiate its laws on them
    I.P.ghost.setdefault("upow_apps", []).append((xr, yr, r))
    if I.P.branch(z3.And(xr == 0, yr < 0)):
        I.raise_("ValueError", "math domain error")
    if I.P.branch(z3.And(xr < 0, yr != z3.ToReal(z3.ToInt(yr)))):
        I.raise_("ValueError", "math domain error")
    return SNum(r, "float")


def m_floor(I, a, k):
    x = a[0]
    return SNum(z3.ToInt(x.real()), "int")


def np_isnan(I, a, k):
    x = a[0]
    if isinstance(x, SNum):
        if x.extended:
            return SBool(x.nan)
        return SBool(False)
    raise OutOfSubset("numpy.isnan of %r" % (x,))


def singleton_get(I, a, k):
    cls = a[0]
    name = cls.ci.name if isinstance(cls, SClass) else None
    s = I.P.ghost.get("singletons", {})
    if name in s:
        return s[name]
    raise OutOfSubset("GetSingleton(%s) without a configured singleton" % name)


def noop_decorator(I, a, k):
    return a[0] if a else SNone


def b_stringio(I, a, k):
    return SRef(I.P.alloc(HObj(SLocalClass("StringIO"))))


def is_implementation(I, a, k):
    """oop_ext.interface.IsImplementation(obj, Interface): does the class of obj (or a base class) declare
    @ImplementsInterface(Interface) (or derive from it)?  Declaration-based, as in oop_ext (A10)."""
    import ast as _ast

    h = I.P.ghost.get("is_implementation")
    if h is not None:
        return h(I, a)
    obj, iface = a[0], a[1]
    from .extract import ClassInfo as _CI

    if not (isinstance(iface, SClass) and isinstance(iface.ci, _CI)):
        raise OutOfSubset("IsImplementation against %r" % (iface,))
    if not (isinstance(obj, SRef) and isinstance(obj.o, HObj) and isinstance(obj.o.cls, _CI)):
        if isinstance(obj, (SNum, SBool, SStr, STuple)) or obj is SNone or (isinstance(obj, SRef) and not isinstance(obj.o, HObj)):
            return SBool(False)
        raise OutOfSubset("IsImplementation of %r" % (obj,))
    want = iface.ci.name
    for c in obj.o.cls.mro():
        if not isinstance(c, _CI):
            continue
        if c is iface.ci:
            return SBool(True)
        for d in c.node.decorator_list:
            if isinstance(d, _ast.Call) and getattr(d.func, "id", getattr(d.func, "attr", "")) == "ImplementsInterface":
                for x in d.args:
                    if getattr(x, "id", getattr(x, "attr", None)) == want:
                        return SBool(True)
    return SBool(False)


def assert_implements(I, a, k):
    h = I.P.ghost.get("assert_implements")
    if h is not None:
        return h(I, a)
    return SNone


BUILTINS = {
    "isinstance": b_isinstance,
    "issubclass": b_issubclass,
    "hasattr": b_hasattr,
    "getattr": b_getattr,
    "setattr": b_setattr,
    "len": b_len,
    "iter": b_iter,
    "next": b_next,
    "zip": b_zip,
    "enumerate": b_enumerate,
    "range": b_range,
    "abs": b_abs,
    "round": b_round,
    "hash": b_hash,
    "type": b_type,
    "id": b_id,
    "min": b_min,
    "max": b_max,
    "sum": b_sum,
    "all": b_all,
    "any": b_any,
    "sorted": b_sorted,
    "print": b_print,
    "callable": b_callable,
    "repr": b_repr,
    "eval": b_eval,
    "object": SType("object"),
    "str": SType("str"),
    "int": SType("int"),
    "float": SType("float"),
    "bool": SType("bool"),
    "complex": SType("complex"),
    "list": SType("list"),
    "tuple": SType("tuple"),
    "dict": SType("dict"),
    "set": SType("set"),
    "property": SBuiltin("property", noop_decorator),
    "True": SBool(True),
    "False": SBool(False),
    "None": SNone,
    "NotImplemented": SNotImplemented,
}
for _e in BUILTIN_EXC:
    BUILTINS[_e] = SType(_e)


def _exc_ctor(name):
    def impl(I, a, k):
        return I.exc(name, *a)

    return impl


TYPE_CALLS = {
    "str": b_str,
    "int": b_int,
    "float": b_float,
    "bool": b_bool,
    "list": b_list,
    "tuple": b_tuple,
    "dict": b_dict,
    "set": b_set,
    "OrderedDict": b_ordereddict,
    "object": b_object,
    "StringIO": b_stringio,
}
for _e in BUILTIN_EXC:
    TYPE_CALLS[_e] = _exc_ctor(_e)

def f_reduce(I, a, k):
    """functools.reduce over an iterable of concrete length"""
    f = a[0]
    items = I.iterate(a[1])
    if len(a) > 2:
        acc = a[2]
    elif items:
        acc, items = items[0], items[1:]
    else:
        I.raise_("TypeError", "reduce() of empty iterable with no initial value")
    for x in items:
        acc = I.call(f, [acc, x], {})
    return acc


def op_iconcat(I, a, k):
    """operator.iconcat(a, b): a += b"""
    import ast as _ast

    x, y = a
    if isinstance(x, SRef) and isinstance(x.o, HList):
        I.call(I.getattr(x, "extend"), [y], {})
        return x
    return I.binop(_ast.Add(), x, y, True)


def op_binop(cls):
    def f(I, a, k):
        return I.binop(cls(), a[0], a[1])

    return f


def it_chain(I, a, k):
    out = []
    for it in a:
        out.extend(I.iterate(it))
    return SRef(I.P.alloc(HList(out)))


def it_chain_from_iterable(I, a, k):
    out = []
    for it in I.iterate(a[0]):
        out.extend(I.iterate(it))
    return SRef(I.P.alloc(HList(out)))


import ast as _ast_mod

def np_shape(I, a, k):
    """numpy.shape of a number or a flat (1-d) sequence"""
    from . import symseq as _ss

    x = a[0]
    if isinstance(x, (SNum, SBool)):
        return STuple([])
    if isinstance(x, _ss.SymSeq) and x.kind in ("numpy.ndarray", "list", "tuple"):
        return STuple([SNum(x.n, "int")])
    if isinstance(x, STuple) and all(isinstance(e, (SNum, SBool)) for e in x.items):
        return STuple([SNum(len(x.items))])
    if isinstance(x, SRef) and isinstance(x.o, HList) and all(isinstance(e, (SNum, SBool)) for e in x.o.items):
        return STuple([SNum(len(x.o.items))])
    raise OutOfSubset("numpy.shape of %r" % (x,))


EXTERNALS = {
    "numpy.shape": np_shape,
    "functools.reduce": f_reduce,
    "operator.iconcat": op_iconcat,
    "operator.concat": op_binop(_ast_mod.Add),
    "operator.add": op_binop(_ast_mod.Add),
    "operator.sub": op_binop(_ast_mod.Sub),
    "operator.mul": op_binop(_ast_mod.Mult),
    "operator.truediv": op_binop(_ast_mod.Div),
    "operator.floordiv": op_binop(_ast_mod.FloorDiv),
    "itertools.chain": it_chain,
    "chain.from_iterable": it_chain_from_iterable,
    "itertools.chain.from_iterable": it_chain_from_iterable,
    # typing / decorators dropped by extraction
    "typing.cast": lambda I, a, k: a[1],
    "functools.total_ordering": noop_decorator,
    "collections.OrderedDict": SType("OrderedDict"),
    "OrderedDict": SType("OrderedDict"),
    "copy.copy": b_copy,
    "copy.deepcopy": b_deepcopy,
    "math.pow": m_pow,
    "math.floor": m_floor,
    "numpy.isnan": np_isnan,
    "numpy.ndarray": SType("numpy.ndarray"),
    "numpy.number": SType("numpy.number"),
    "numpy.float64": SType("numpy.float64"),
    "numpy.float32": SType("numpy.float32"),
    "numpy.generic": SType("numpy.generic"),
    "numpy.floating": SType("numpy.floating"),
    "numpy.integer": SType("numpy.integer"),
    "numpy.inexact": SType("numpy.inexact"),
    "io.StringIO": SType("StringIO"),
    "traceback.print_stack": lambda I, a, k: SNone,
    "StringIO.getvalue": lambda I, a, k: OPAQUE,
    "Singleton.GetSingleton": singleton_get,
    "oop_ext.interface.IsImplementation": is_implementation,
    "oop_ext.interface.AssertImplements": assert_implements,
    "oop_ext.interface.ImplementsInterface": noop_decorator,
    "oop_ext.foundation.decorators.Implements": noop_decorator,
    "oop_ext.foundation.decorators.Override": noop_decorator,
    "oop_ext.foundation.decorators.Deprecated": noop_decorator,
}
