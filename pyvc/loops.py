"""Loop rule 3 (DESIGN §2.7): loops over a sequence of *unknown length* whose body is a pure map.

    for TARGET in ITER: BODY          ITER: SymSeq | SymGen | object whose __iter__ yields one

The body is executed once for a generic index i (0 <= i < n).  Allowed effects of the body:
  * assignments to local variables (after the loop they hold the last iteration's values, i := n-1);
  * `acc.append(e)` on a list that was empty and allocated by the running function: afterwards the
    local names bound to that list denote the sequence (n, λi. e);
  * `yield e` inside a generator function: the generator becomes the sequence (n, λi. e);
  * calls whose summaries touch only the registry memo / intern table.
A branch whose condition depends on the generic element is split as "some iteration takes it" —
allowed only when that iteration then raises (the loop raises) — and "no iteration takes it"
(assumed for every index, quantified).  Anything else is out-of-subset (undecided, never a verdict).
A loop over an empty sequence leaves every variable untouched (so a variable only assigned in the
body is unbound afterwards, as in Python)."""
import ast
import z3

from .engine import OutOfSubset, PyRaise, IntS, RealS, Infeasible
from .values import *
from .interp import SProto, Frame, to_z3b, _Break, _Continue, _Return
from . import symseq

_k = [0]


class SymGen(SProto):
    """iterator over n elements; elem(i) builds element i (an SVal over the z3 term i)"""

    def __init__(self, n, elem, kind="iterator"):
        self.n = n
        self.elem = elem
        self.kind = kind
        self.consumed = 0

    def pytype(self):
        return "generator"

    def py_truth(self, I):
        return True

    def py_iter(self, I):
        raise OutOfSubset("iteration over a generator of unknown length outside a for statement")

    def make_iter(self, I):
        return self

    def py_next(self, I, default):
        """next(it): first element, when there is one (used for the single-yield numpy path)"""
        if self.consumed:
            raise OutOfSubset("next() twice on a symbolic generator")
        if I.P.branch(self.n > 0):
            self.consumed = 1
            return self.elem(z3.IntVal(0))
        if default is not None:
            return default
        I.raise_("StopIteration")

    def __repr__(self):
        return "SymGen(n=%s)" % self.n


def as_gen(I, it):
    """SymGen view of an iterable of unknown length, or None"""
    if isinstance(it, SymGen):
        return it
    if isinstance(it, symseq.SymSeq):
        return SymGen(it.n, it.at)
    if hasattr(it, "as_symgen"):
        return it.as_symgen(I)
    return None


def enumerate_gen(I, it):
    g = as_gen(I, it)
    if g is None:
        return None
    return SymGen(g.n, lambda j: STuple([SNum(j, "int"), g.elem(j)]))


def occurs(t, v):
    seen = set()

    def walk(x):
        if x.get_id() in seen:
            return False
        seen.add(x.get_id())
        if x.eq(v):
            return True
        return any(walk(c) for c in x.children())

    return walk(t)


def subst_val(v, i, by):
    """value with the generic index replaced"""
    if isinstance(v, SNum):
        if v.extended:
            return SNum(z3.substitute(v.t, (i, by)), v.kind, z3.substitute(v.nan, (i, by)), z3.substitute(v.pinf, (i, by)), z3.substitute(v.ninf, (i, by)))
        return SNum(z3.substitute(v.t, (i, by)), v.kind)
    if isinstance(v, SBool):
        return SBool(z3.substitute(v.t, (i, by))) if z3.is_expr(v.t) else v
    if isinstance(v, STuple):
        return STuple([subst_val(x, i, by) for x in v.items])
    if isinstance(v, SStr) and v.py is None and not v.opaque and not hasattr(v, "parts"):
        return SStr(name=z3.substitute(v._name, (i, by)))
    return v


def mentions(v, i, depth=0):
    if isinstance(v, SNum):
        ts = [v.t] + ([v.nan, v.pinf, v.ninf] if v.extended else [])
        return any(z3.is_expr(t) and occurs(t, i) for t in ts)
    if isinstance(v, SBool):
        return z3.is_expr(v.t) and occurs(v.t, i)
    if isinstance(v, SStr):
        return v.py is None and not v.opaque and occurs(v.name, i)
    if isinstance(v, STuple):
        return any(mentions(x, i, depth) for x in v.items)
    if isinstance(v, SRef) and depth < 2:
        o = v.o
        if isinstance(o, HObj):
            return any(mentions(x, i, depth + 1) for x in o.fields.values() if isinstance(x, SVal))
        if isinstance(o, HList):
            return any(mentions(x, i, depth + 1) for x in o.items)
    return False


class Generic:
    """state of one generic iteration (installed in Path.ghost['generic'])"""

    def __init__(self, i, n):
        self.i = i
        self.n = n
        self.exists = False  # an element-dependent branch was taken ("some iteration ...")
        self.forall = []  # conditions assumed false for every index


def generic_branch(P, cond):
    """called by Path.branch for a condition that mentions the generic index; returns the decision
    after recording the quantified reading, or None when the rule does not apply"""
    g = P.ghost.get("generic")
    if g is None or not occurs(cond, g.i):
        return None
    return g


def install(P):
    from .registry import chain_for_hook

    P.ghost["for_hook"] = chain_for_hook(P.ghost.get("for_hook"), for_hook)
    P.ghost["generic_branch_hook"] = generic_branch


def for_hook(I, st, it, frame):
    P = I.P
    if isinstance(it, SRef) and isinstance(it.o, HObj) and hasattr(it.o.cls, "find_method"):
        m = it.o.cls.find_method("__iter__")
        if m is None:
            return NotImplemented
        it2 = I.call_function(SFunc(m), [it], {})
        if as_gen(I, it2) is None:
            # concrete iterator: ordinary execution
            run_concrete(I, st, it2, frame)
            return True
        it = it2
    g = as_gen(I, it)
    if g is None:
        return NotImplemented
    if P.ghost.get("generic") is not None:
        raise OutOfSubset("nested loops over sequences of unknown length (line %d)" % st.lineno)
    n = g.n
    if P.branch(n <= 0):
        I.exec_block(st.orelse, frame)
        return True
    _k[0] += 1
    i = z3.Const("i!loop%d" % _k[0], IntS)
    P.assume(z3.And(i >= 0, i < n), "loop:generic index")
    gen = Generic(i, n)
    P.ghost["generic"] = gen
    in_generator = "$yield" in frame.vars
    ylist = None
    if in_generator:
        ylist = frame.vars["$yield"]
        frame.vars["$yield"] = []
    before_vars = dict(frame.vars)
    wmark = len(P.writes)
    lists_before = {}
    for name, v in frame.vars.items():
        if isinstance(v, SRef) and isinstance(v.o, HList):
            lists_before[id(v.o)] = (v.o, len(v.o.items))
    try:
        I.assign(st.target, g.elem(i), frame)
        try:
            I.exec_block(st.body, frame)
        except (_Break, _Return):
            raise OutOfSubset("break/return inside a loop over a sequence of unknown length (line %d)" % st.lineno)
        except _Continue:
            raise OutOfSubset("continue inside a loop over a sequence of unknown length (line %d)" % st.lineno)
        if gen.exists:
            raise OutOfSubset("an element-dependent branch was taken and the iteration did not raise (line %d)" % st.lineno)
    finally:
        P.ghost["generic"] = None
    # quantified reading of the branches not taken: they are not taken in any iteration
    for c in gen.forall:
        j = z3.Const("j!loop%d" % _k[0], IntS)
        P.assume(z3.ForAll([j], z3.Implies(z3.And(j >= 0, j < n), z3.substitute(c, (i, j)))), "loop:no iteration takes the branch")
    last = n - 1
    if in_generator:
        ys = frame.vars["$yield"]
        frame.vars["$yield"] = ylist
        if len(ys) != 1:
            raise OutOfSubset("generator loop body yields %d values per element" % len(ys))
        y = ys[0]
        ylist.append(SymChunk(n, lambda j, y=y, i=i: subst_val(y, i, j)))
    # effects: appends to fresh local lists
    for w_obj, what in P.writes[wmark:]:
        if isinstance(w_obj, HList) and id(w_obj) in lists_before:
            continue
        if isinstance(w_obj, HList) or (isinstance(w_obj, HObj) and getattr(w_obj, "region", "") not in ("fresh", "quantity")):
            # writes to other heap objects inside the generic iteration are not summarised
            if getattr(w_obj, "oid", 0) and getattr(w_obj, "region", "") == "fresh" and w_obj.oid > 0 and not isinstance(w_obj, HList):
                continue
            raise OutOfSubset("loop body writes to %r (line %d)" % (w_obj, st.lineno))
    for oid_, (o, n0) in lists_before.items():
        if len(o.items) == n0:
            continue
        if n0 != 0 or len(o.items) != 1:
            raise OutOfSubset("loop body appends to a non-empty list or more than once (line %d)" % st.lineno)
        e = o.items[0]
        if not (isinstance(e, SNum) and not e.extended):
            raise OutOfSubset("loop accumulates non-numbers (line %d)" % st.lineno)
        term = e.real()
        seq = symseq.SymSeq("list", n, z3.Lambda([i], term))
        for name, v in list(frame.vars.items()):
            if isinstance(v, SRef) and v.o is o:
                frame.vars[name] = seq
        o.items[:] = []
        o.replaced_by = seq
    # loop-carried locals: values of the last iteration
    for name, v in list(frame.vars.items()):
        if name == "$yield":
            continue
        if before_vars.get(name) is v:
            continue
        if isinstance(v, symseq.SymSeq):
            continue
        if isinstance(v, (SNum, SBool, STuple)) or (isinstance(v, SStr) and v.py is None and not v.opaque and not hasattr(v, "parts")):
            frame.vars[name] = subst_val(v, i, last)
        elif mentions(v, i):
            raise OutOfSubset("loop-carried object %s depends on the element (line %d)" % (name, st.lineno))
    I.exec_block(st.orelse, frame)
    return True


class SymChunk:
    """marker inside a generator's output list: n elements elem(0..n-1)"""

    def __init__(self, n, elem):
        self.n = n
        self.elem = elem


def run_concrete(I, st, it, frame):
    broke = False
    for x in I.iterate_lazy(it):
        I.assign(st.target, x, frame)
        try:
            I.exec_block(st.body, frame)
        except _Break:
            broke = True
            break
        except _Continue:
            continue
    if not broke:
        I.exec_block(st.orelse, frame)


def finish_generator(I, out):
    """result of a generator function whose output list may contain one SymChunk"""
    chunks = [x for x in out if isinstance(x, SymChunk)]
    if not chunks:
        return None
    if len(out) != 1:
        raise OutOfSubset("generator mixes a symbolic loop with other yields")
    c = chunks[0]
    return SymGen(c.n, c.elem)


def zip_gen(I, seqs):
    gens = [as_gen(I, s) for s in seqs]
    if any(g is None for g in gens):
        raise OutOfSubset("zip of a symbolic and a concrete sequence")
    n = gens[0].n
    for g in gens[1:]:
        n = z3.If(g.n < n, g.n, n)
    return SymGen(n, lambda j: STuple([g.elem(j) for g in gens]))
