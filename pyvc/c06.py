"""C06: named compound units agree with the composition of their parts.

The POSC filler is straight-line code over literals; the coefficient tuples of every row are read
from the real AST (exact decimal text) on every run and cross-checked against the closures the
real code builds (slope of the to-base function executed by the interpreter).  The postcondition
'factor(u) * c_T == product of the component factors (x prefix)' is one ground obligation per
decomposable row, evaluated in exact rational arithmetic."""
import ast
import re
from fractions import Fraction

from .extract import get_repo

SI_PREFIX = {
    "Y": (24, "yotta"), "Z": (21, "zetta"), "E": (18, "exa"), "P": (15, "peta"), "T": (12, "tera"), "G": (9, "giga"), "M": (6, "mega"),
    "k": (3, "kilo"), "h": (2, "hecto"), "da": (1, "deca"), "d": (-1, "deci"), "c": (-2, "centi"), "m": (-3, "milli"), "u": (-6, "micro"),
    "n": (-9, "nano"), "p": (-12, "pico"), "f": (-15, "femto"), "a": (-18, "atto"),
}


class Row:
    __slots__ = ("unit", "qt", "name", "tb", "fb", "is_base", "line")


def _factors(text):
    """literal texts of an argument that is a literal or a product of literals"""
    node = ast.parse(text.strip(), mode="eval").body
    out = []

    def walk(n, sign=1):
        if isinstance(n, ast.BinOp) and isinstance(n.op, ast.Mult):
            walk(n.left)
            walk(n.right)
        elif isinstance(n, ast.UnaryOp) and isinstance(n.op, (ast.USub, ast.UAdd)) and isinstance(n.operand, ast.Constant):
            out.append(("-" if isinstance(n.op, ast.USub) else "") + ast.get_source_segment(text.strip(), n.operand))
        elif isinstance(n, ast.Constant) and isinstance(n.value, (int, float)):
            out.append(ast.get_source_segment(text.strip(), n))
        else:
            raise ValueError("coefficient %r is not a product of literals" % text)

    walk(node)
    return out


def lit_fraction(text):
    v = Fraction(1)
    for t in _factors(text):
        v *= Fraction(t.replace("_", ""))
    return v


def _one_relerr(text):
    """half a unit in the last written digit, relative to the literal (0 for literals that are whole
    numbers: 1.0, 1000.0, 3600.0 ... are exact by definition)"""
    t = text.lower().replace("_", "").lstrip("+-")
    v = Fraction(t)
    if v == 0:
        return Fraction(0)
    if v.denominator == 1:
        # a whole number: exact (1000, 3600, 86400, 1e6 ...) unless it carries seven or more
        # significant digits before its trailing zeros (31687540000 is a rounded measurement)
        digits = str(v.numerator).rstrip("0")
        if len(digits) < 7:
            return Fraction(0)
        zeros = len(str(v.numerator)) - len(digits)
        return Fraction(1, 2) * Fraction(10) ** zeros / v
    mant, _, exp = t.partition("e")
    e = int(exp) if exp else 0
    frac_digits = len(mant.split(".")[1]) if "." in mant else 0
    half = Fraction(1, 2) * Fraction(10) ** (e - frac_digits)
    return half / v


def lit_relerr(text):
    return sum((_one_relerr(t) for t in _factors(text)), Fraction(0))


def read_rows():
    """unit -> Row from the AST of posc.FillUnitDatabaseWithPosc (literal coefficient texts)"""
    repo = get_repo()
    fi = repo.func("barril.units.posc:FillUnitDatabaseWithPosc")
    src = fi.module.text
    env = {}
    rows = {}

    lines = fi.module.lines

    def text(n):
        if n.lineno == n.end_lineno:
            return lines[n.lineno - 1][n.col_offset : n.end_col_offset]
        return ast.get_source_segment(src, n)

    def const(n):
        if isinstance(n, ast.Constant):
            return n.value
        raise ValueError("non-literal argument at line %d" % n.lineno)

    for st in fi.node.body:
        if isinstance(st, ast.Assign) and isinstance(st.value, ast.Call) and isinstance(st.value.func, ast.Name) and st.value.func.id in ("MakeCustomaryToBase", "MakeBaseToCustomary"):
            args = st.value.args
            if len(args) != 4:
                raise ValueError("coefficient tuple of length %d at line %d" % (len(args), st.lineno))
            env[st.targets[0].id] = (st.value.func.id, [text(a) for a in args])
        elif isinstance(st, ast.Expr) and isinstance(st.value, ast.Call) and isinstance(st.value.func, ast.Attribute):
            c = st.value
            m = c.func.attr
            if m == "AddUnitBase":
                r = Row()
                r.qt, r.name, r.unit = const(c.args[0]), const(c.args[1]), const(c.args[2])
                r.tb = r.fb = None
                r.is_base = True
                r.line = st.lineno
                rows[r.unit] = r
            elif m == "AddUnit":
                r = Row()
                r.qt, r.name, r.unit = const(c.args[0]), const(c.args[1]), const(c.args[2])
                fbn, tbn = c.args[3], c.args[4]
                r.fb = env.get(fbn.id) if isinstance(fbn, ast.Name) else None
                r.tb = env.get(tbn.id) if isinstance(tbn, ast.Name) else None
                r.is_base = False
                r.line = st.lineno
                rows[r.unit] = r
    return rows


def factor(row):
    """(k, relative uncertainty, is_affine): slope of to-base = b/c for (a + b x)/(c + d x) with d = 0"""
    if row.is_base:
        return Fraction(1), Fraction(0), False
    if row.tb is None or row.tb[0] != "MakeCustomaryToBase":
        return None
    a, b, c, d = row.tb[1]
    if lit_fraction(d) != 0 or lit_fraction(c) == 0:
        return None
    k = lit_fraction(b) / lit_fraction(c)
    return k, lit_relerr(b) + lit_relerr(c), lit_fraction(a) != 0


TOKEN = re.compile(r"^(\d+(?:\.\d+)?(?:[eE][+-]?\d+)?)?(.*?)$")


def split_token(tok, rows):
    """token -> (prefix number, atom symbol, exponent) or None"""
    if tok in rows:
        return Fraction(1), tok, 1
    # trailing integer exponent on a registered symbol (the whole token is not registered)
    m = re.match(r"^(.*?)(\d+)$", tok)
    if m and m.group(1) in rows:
        return Fraction(1), m.group(1), int(m.group(2))
    # numeric prefix (1000ft3, 100km) in front of a registered symbol, with or without exponent
    m = re.match(r"^(\d+(?:\.\d+)?(?:E\d+)?)(\D.*)$", tok)
    if m:
        rest = split_token(m.group(2), rows)
        if rest is not None and rest[0] == 1:
            return Fraction(m.group(1)), rest[1], rest[2]
    return None


def decompose(sym, rows):
    """[(prefix, atom, signed exponent)] or None; a symbol that is a single registered atom with
    exponent 1 and no prefix is not a compound"""
    parts = sym.split("/")
    if len(parts) > 2:
        return None  # 'a/b/c' is written both for a/(b.c) and for a/(b/c) in the table: ambiguous, not read
    out = []
    for i, part in enumerate(parts):
        if i == 0 and part == "1":
            continue
        if part == "":
            return None
        for tok in part.split("."):
            if tok == "":
                return None
            t = split_token(tok, rows) if not (len(parts) == 1 and "." not in part and tok == sym) else split_token_compound_only(tok, rows)
            if t is None:
                return None
            out.append((t[0], t[1], t[2] if i == 0 else -t[2]))
    if len(out) == 1 and out[0][0] == 1 and out[0][2] == 1:
        return None
    return out


def split_token_compound_only(tok, rows):
    """for a one-token symbol: only the 'power of another unit' and 'numeric prefix' readings count"""
    m = re.match(r"^(.*?)(\d+)$", tok)
    if m and m.group(1) in rows and m.group(1) != tok:
        # 'X<e>' registered on its own: read as a power of X only when it is named after X
        # ('ft3' cubic feet / 'ft' feet; but 'Mm3' thousand cubic meters is not a power of 'Mm' megameter)
        if norm_name(rows[m.group(1)].name) in norm_name(rows[tok].name):
            return Fraction(1), m.group(1), int(m.group(2))
        return None
    m = re.match(r"^(\d+(?:\.\d+)?(?:E\d+)?)(\D.*)$", tok)
    if m:
        rest = split_token(m.group(2), rows)
        if rest is not None and rest[0] == 1:
            return Fraction(m.group(1)), rest[1], rest[2]
    return None


def product(dec, rows):
    """(P, relative uncertainty, uses_affine) of a decomposition, or None if a component has no factor"""
    P = Fraction(1)
    err = Fraction(0)
    aff = False
    for pre, atom, e in dec:
        f = factor(rows[atom])
        if f is None:
            return None
        k, r, a = f
        P *= pre ** (1 if e > 0 else -1) * k**e
        err += abs(e) * r
        aff = aff or a
    return P, err, aff


def reference_constant(qt, rows, bases):
    """c_T: what one base unit of T is, in products of the component types' base units"""
    b = bases.get(qt)
    if b is None:
        return None
    dec = decompose(b, rows)
    if dec is None:
        return Fraction(1), Fraction(0)
    p = product(dec, rows)
    if p is None:
        return None
    return p[0], p[1]


def norm_name(s):
    s = s.lower().strip()
    s = s.replace("metre", "meter").replace("litre", "liter")
    if s.endswith("s") and not s.endswith("ss"):
        s = s[:-1]
    return s


def prefix_reading(sym, rows):
    """atomic pX or pX<e> of the same quantity type as X / X<e>, named '<prefix word><name of X>':
    (X or X<e>, power of ten n*e) or None"""
    if "." in sym or "/" in sym:
        return None
    r = rows[sym]
    for p, (n, word) in SI_PREFIX.items():
        if not sym.startswith(p) or len(sym) == len(p):
            continue
        rest = sym[len(p) :]
        if rest not in rows or rows[rest].qt != r.qt:
            continue
        m = re.match(r"^(.*?)(\d*)$", rest)
        e = int(m.group(2)) if (m.group(2) and m.group(1) in rows) else 1
        xn = norm_name(rows[rest].name)
        rn = norm_name(r.name)
        if rn in (word + xn, word + " " + xn) or (e != 1 and word in rn and norm_name(rows[m.group(1)].name) in rn):
            return rest, n * e
    return None


def obligations():
    """[(name, ok, detail, info)]"""
    rows = read_rows()
    bases = {}
    for u, r in rows.items():
        if r.is_base:
            bases.setdefault(r.qt, u)
    out = []
    stats = {"rows": len(rows), "decomposable": 0, "prefix": 0, "skipped_no_factor": 0}
    FLOOR = Fraction(1, 10**9)
    for sym, r in rows.items():
        f = factor(r)
        if f is None:
            continue
        k, kerr, _ = f
        dec = decompose(sym, rows)
        if dec is not None:
            p = product(dec, rows)
            cT = reference_constant(r.qt, rows, bases)
            if p is None or cT is None:
                stats["skipped_no_factor"] += 1
            else:
                stats["decomposable"] += 1
                P, perr, _ = p
                lhs = k * cT[0]
                tol = kerr + perr + cT[1] + FLOOR
                ok = abs(lhs - P) <= tol * abs(P)
                rel = float(abs(lhs - P) / abs(P)) if P else None
                out.append(("posc/row[%s]/composition" % sym, ok, "factor(%s) x c(%s) = %.12g, product of components %s = %.12g (relative difference %.3g, tolerance %.3g)" % (sym, r.qt, float(lhs), "*".join("%s%s^%d" % ("" if a == 1 else str(a) + "x", b, c) for a, b, c in dec), float(P), rel, float(tol)), {"unit": sym, "kind": "composition"}))
        pr = prefix_reading(sym, rows)
        if pr is not None:
            x, n = pr
            fx = factor(rows[x])
            if fx is not None:
                stats["prefix"] += 1
                exp = fx[0] * Fraction(10) ** n
                tol = kerr + fx[1] + FLOOR
                ok = abs(k - exp) <= tol * abs(exp)
                out.append(("posc/row[%s]/si-prefix" % sym, ok, "factor(%s) = %.12g, 10^%d x factor(%s) = %.12g" % (sym, float(k), n, x, float(exp)), {"unit": sym, "kind": "prefix", "of": x, "power": n}))
    return out, stats, rows
